"""C11 — hierarchical groups change the file layout, never the meaning.

Streams
  C11.res    a hand-made grouped netCDF4 file (random group tree of depth 0-3, dimensions and
             variables with colliding base names at random positions) with one referring
             variable carrying one reference attribute (any attribute of the flattener's rule
             table) whose token is absolute / relative (`a/x`, `../x`, `../../a/x`) / proximal /
             lateral, resolvable or not, strict or not -> the real flattener
             (`cfdm.read_write.netcdf.flatten.netcdf_flatten` into a diskless dataset) -> the token
             left in the flattened attribute        (Lean model + independent oracle of CF 2.7.1)
  C11.name   group trees whose names contain `__`, leading/trailing `_`, or are long enough for
             the 255-character rule -> the real flattener -> flattened dimension / variable /
             group-attribute names in flattening order   (Lean model + injectivity oracle)
  C11.grp    a netCDF name string -> `nc_set_variable` / `nc_variable_groups` /
             `nc_set_variable_groups` / `nc_clear_variable_groups` on a real construct
                                                         (Lean model + split/join oracle)
  C11.place  a field (harness/gen/fields.py, example fields) with every netCDF variable and
             dimension named, x an assignment of group paths (depth 0-3) to the data variable,
             every coordinate, bounds, ancillary, cell measure, grid mapping, domain ancillary
             variable and every dimension x group attributes: cfdm.write(group=True) accept/refuse,
             the grouped layout as netCDF4 sees it flattened again by cfdm's flattener (Lean model
             `flattenVar (place L)`), cfdm.read(grouped) = cfdm.read(flat) = original (equals both
             ways + structural fingerprint), recorded groups / group attributes, re-write
             reproduces the layout                       (Lean model + independent oracle)
  C11.cv     hand-made grouped files: a dimension in an enclosing group of the data variable and
             several same-named 1-d variables spanning it at different depths - above, at, beside
             and below the data variable, in the dimension's own group or not - plus decoys (other
             name, other dimension) -> cfdm.read -> which variable became the dimension coordinate
                                                         (Lean model findCoordVar + CF 2.7.1 oracle)
  C11.gattr  a small field x data variable at depth 0-2 x properties (global and not) x
             nc_group_attributes() (None / equal / different / not a property) -> cfdm.write ->
             global, group and variable attributes as netCDF4 sees them (Lean model writeProps);
             read back = original, recorded group attributes, re-write reproduces
  C11.read   hand-made CF files in which a data variable names its auxiliary coordinates, cell
             measure, ancillary variable and grid mapping by absolute / relative / proximal
             paths (with same-named decoys elsewhere), and whose third dimension lives in an
             enclosing group with its coordinate variable in that group, nearer to the data
             variable (proximal) or in another branch below it (lateral) -> cfdm.read -> which
             netCDF variable each construct came from    (oracle only)
  C11.multi  2-4 small fields in equal / nested / unrelated groups (and the root) x properties x
             nc_group_attributes() records, written by ONE cfdm.write call: the groups of the dataset,
             the attributes of every group, the global attributes and the attributes of every data
             variable as netCDF4 sees them (Lean model writeFieldsN = the walk from the root for every
             group path + the selection and omit rules); every field read back = original = read(flat),
             recorded groups and group attributes, re-write reproduces    (Lean model + oracle)
  C11.self   "self-contained groups": hand-made files in which the data variables of several groups
             use the SAME bare name / relative path (coordinates, bounds, ancillary_variables,
             cell_measures, grid_mapping, cell_methods scalar coordinate) and every group, an ancestor
             or a sub-group has its own variable of that name; the harness resolves every reference by
             its own CF search and writes the equivalent FLAT file with netCDF4 only;
             cfdm.read(grouped) = cfdm.read(flat), construct by construct         (oracle only)
"""
import ast
import atexit
import collections
import hashlib
import json
import os
import shutil
import tempfile

import numpy as np

from .. import fw
from ..fw import Case

REQUIRED = [
    "C11_resolve_sound_absolute",
    "C11_resolve_sound_relative",
    "C11_resolve_sound_proximal",
    "C11_resolve_sound_lateral",
    "C11_old_lateral_counterexample",
    "C11_old_relative_counterexample",
    "C11_flatten_injective",
    "C11_old_flatten_name_counterexample",
    "C11_flatten_alloc_partial",
    "C11_old_parse_attribute_counterexample",
    "C11_dim_visible",
    "C11_flatten_places",
    "C11_shadow_counterexample",
    "C11_regroup",
    "C11_regroup_layout",
    "C11_group_attributes_meaning",
    "C11_group_attributes_root",
    "C11_coordinate_variable_sound",
    "C11_old_coordinate_variable_counterexample",
    "C11_old_group_attribute_counterexample",
    "C11_rules_table",
    "C11_group_attributes_placement",
    "C11_walk_must_restart_at_root_counterexample",
    "C11_group_attributes_of_fields",
    "C11_group_attributes_several_fields",
    "C11_old_several_fields_counterexample",
    "C11_reader_group_attribute_precedence",
    "C11_reader_base_name",
    "C11_old_reader_base_name_counterexample",
]
BUDGET = {"quick": 1500, "thorough": 40000}
RULE = (
    "res: group trees of depth 0-3 with 0-6 groups, 0-2 dimensions and 0-3 variables per group drawn from a "
    "7-name vocabulary (so names recur along and across branches), referrer at any group, every attribute of the "
    "flattener's rule table, tokens absolute/relative/proximal (present, absent, shadowed, only below the local "
    "apex), strict and non-strict; name: trees whose names contain '__', leading/trailing '_' or 100-250 characters; "
    "place: random fields (0-4 axes, bounds, auxiliary/scalar coordinates, cell measures, ancillaries, grid mapping, "
    "formula terms, cell methods) and example fields x group paths of depth 0-3 for every variable and dimension, "
    "~25% perturbed to invisible dimensions, x group attributes x group in {True, False}; for the geometry example field "
    "and example fields 3/4 compressed as contiguous / indexed / indexed contiguous ragged arrays also the geometry "
    "container, interior ring, count and index variables; multi: 1-4 fields, group paths from a spine + siblings + the "
    "root, 72% 'agreeing' property sets; self: 2-4 data variables 'tas' in different groups with same-named lat / height "
    "/ flag / area / crs (+ lat_bnds) in the group, an ancestor or a 'grid' sub-group, bare / relative / absolute; cv: "
    "13% with a regular-expression metacharacter or 140 characters in a group name. non-trivial = the tree / "
    "layout has at least one non-root group and (res) the token is not a bare name found in the referrer's own group; "
    "(multi) some field records a group attribute; (self) one string designates different targets from different groups"
)
ASSUMPTIONS = [
    "netCDF names contain no '/' (netCDF forbids it); the theorems carry this hypothesis explicitly",
    "sha1 is an uninterpreted function in the model; the driver is handed the digests the case can need",
    "variables and dimensions of a written field have distinct base names unless the case is tagged samebase "
    "(same base name in an enclosing group = the two shadowing findings)",
    "one field per file in the place / gattr streams; several fields per file only in C11.multi (group attributes) and "
    "C11.self (references); other interference between fields is C09",
    "a file whose coordinates attribute names one scalar string variable twice is not read back (netCDF-C/HDF5 fails on "
    "re-opening the dataset for the same vlen string - reproduced with netCDF4 alone; grouped and flat alike)",
]
TIME_LIMIT = {"quick": 170, "thorough": 1400}
QUICK_JOBS = 8

_cfdm = None


def cfdm():
    global _cfdm
    if _cfdm is None:
        import cfdm as m
        m.log_level("DISABLE")
        _cfdm = m
    return _cfdm


# ------------------------------------------------------------------ generated table
def _rule_tables():
    """ast-based reading of flatten/config.py: constants, dataclass defaults, rule rows."""
    src = (fw.REPO / "cfdm" / "read_write" / "netcdf" / "flatten" / "config.py").read_text()
    tree = ast.parse(src)
    consts, fields, rules = {}, [], []
    for node in tree.body:
        if isinstance(node, ast.Assign) and len(node.targets) == 1 and isinstance(node.targets[0], ast.Name):
            if isinstance(node.value, ast.Constant):
                consts[node.targets[0].id] = node.value.value
            if node.targets[0].id == "flattening_rules":
                for call in ast.walk(node.value):
                    if isinstance(call, ast.Call) and getattr(call.func, "id", None) == "FlatteningRules":
                        d = dict(fields)
                        for i, a in enumerate(call.args):
                            d[fields[i][0]] = ast.literal_eval(a)
                        for kw in call.keywords:
                            d[kw.arg] = ast.literal_eval(kw.value)
                        rules.append(d)
        if isinstance(node, ast.ClassDef) and node.name == "FlatteningRules":
            for st in node.body:
                if isinstance(st, ast.AnnAssign):
                    fields.append((st.target.id, ast.literal_eval(st.value) if st.value is not None else None))
    if not rules or "max_name_len" not in consts:
        raise fw.HarnessError("cannot read flattening_rules from flatten/config.py")
    return consts, rules


def _lean_rules_text():
    c, rules = _rule_tables()

    def b(x):
        return "true" if x else "false"

    rows = []
    for r in rules:
        rows.append(
            f'  {{ name := "{r["name"]}", refToDim := {int(r["ref_to_dim"])}, refToVar := {int(r["ref_to_var"])}, '
            f'resolveKey := {b(r["resolve_key"])}, resolveValue := {b(r["resolve_value"])}, '
            f'stopAtLocalApex := {b(r["stop_at_local_apex"])}, acceptStandardNames := {b(r["accept_standard_names"])}, '
            f'limitToScalarCoordinates := {b(r["limit_to_scalar_coordinates"])} }}')
    return (
        "/- GENERATED by harness/corr/C11.py:pre() from /repo/cfdm/read_write/netcdf/flatten/config.py\n"
        "   (module constants, dataclass FlatteningRules, table flattening_rules).  Do not edit. -/\n"
        "namespace Cfdm.Generated.FlatteningRules\n\n"
        "/-- One row of `flattening_rules` (dataclass `FlatteningRules`). -/\n"
        "structure Rules where\n  name : String\n  refToDim : Nat\n  refToVar : Nat\n  resolveKey : Bool\n  resolveValue : Bool\n"
        "  stopAtLocalApex : Bool\n  acceptStandardNames : Bool\n  limitToScalarCoordinates : Bool\nderiving Repr, DecidableEq\n\n"
        f"def maxNameLen : Nat := {int(c['max_name_len'])}\n"
        f"def groupSeparator : String := {json.dumps(c['group_separator'])}\n"
        f"def flattenerSeparator : String := {json.dumps(c['flattener_separator'])}\n"
        f"def refNotFoundError : String := {json.dumps(c['ref_not_found_error'])}\n\n"
        "/-- `flattening_rules`, in definition order. -/\n"
        "def flatteningRules : List Rules := [\n" + ",\n".join(rows) + "\n]\n\n"
        "end Cfdm.Generated.FlatteningRules\n")


_scratch = None


def pre():
    fw.write_if_changed(fw.LEAN / "Cfdm" / "Generated" / "FlatteningRules.lean", _lean_rules_text())
    scratch()


def scratch():
    global _scratch
    if _scratch is None or not os.path.isdir(_scratch):
        _scratch = tempfile.mkdtemp(prefix="verif_c11_")
        atexit.register(shutil.rmtree, _scratch, True)
    return _scratch


_counter = [0]


_cwd_pid = [None]


def own_cwd():
    """cfdm.read names the diskless flattened dataset after the repr of a temporary-file object,
    relative to the current directory: two worker processes can pick the same name.  Give every
    process its own working directory inside the scratch directory."""
    if _cwd_pid[0] != os.getpid():
        d = os.path.join(scratch(), f"cwd_{os.getpid()}")
        os.makedirs(d, exist_ok=True)
        os.chdir(d)
        _cwd_pid[0] = os.getpid()


def tmpfile(tag):
    own_cwd()
    _counter[0] += 1
    return os.path.join(scratch(), f"{tag}_{os.getpid()}_{_counter[0]}.nc")


def _rm(*paths):
    for p in paths:
        try:
            os.remove(p)
        except OSError:
            pass


# ------------------------------------------------------------------ the oracle's own reading of CF
# Which kind of element each referencing attribute names (CF conventions, chapters 5-9 and
# appendix), written down independently of flatten/config.py.
DIM_ATTRS = {"compress", "instance_dimension", "sample_dimension", "dimensions", "aggregated_dimensions",
             "edge_dimension", "face_dimension"}
DUAL_ATTRS = {"cell_methods", "tie_point_mapping"}          # dimension first, else variable
LATERAL_ATTRS = {"coordinates"}                              # CF 2.7.1 special case
STDNAME_ATTRS = {"cell_methods"}                             # unresolved tokens are standard names (area)
VALUE_ATTRS = {"cell_measures", "formula_terms", "aggregated_data", "interpolation_parameters"}  # "key: TOKEN"


class ONode:
    """Group of the oracle's tree (parent pointers, ordered children)."""

    def __init__(self, name, parent):
        self.name, self.parent = name, parent
        self.children = collections.OrderedDict()
        self.dims, self.vars = [], {}        # vars: name -> tuple of dim names
        self.attrs = []

    def path(self):
        out, g = [], self
        while g.parent is not None:
            out.append(g.name)
            g = g.parent
        return out[::-1]


def otree(groups):
    root = None
    for g in groups:
        p = g["path"]
        if not p:
            node = root = ONode("", None)
        else:
            par = root
            for c in p[:-1]:
                par = par.children[c]
            node = par.children[p[-1]] = ONode(p[-1], par)
        node.dims = list(g["dims"])
        node.vars = collections.OrderedDict((v["name"], tuple(v["dims"])) for v in g["vars"])
        node.attrs = list(g.get("attrs", []))
    return root


def ofind(root, path):
    g = root
    for c in path:
        g = g.children.get(c)
        if g is None:
            return None
    return g


def o_has(g, kind, name):
    return name in (g.dims if kind == "dim" else g.vars)


def o_absolute(root, ref, kinds):
    comps = ref.split("/")[1:]
    g = ofind(root, comps[:-1])
    if g is None:
        return None
    for k in kinds:
        if o_has(g, k, comps[-1]):
            return (k, g.path(), comps[-1])
    return None


def o_relative(start, ref, kinds):
    """Unix-style: leading '../' go up, the rest goes down; one kind after the other."""
    comps = ref.split("/")
    g = start
    i = 0
    while i < len(comps) - 1 and comps[i] == "..":
        # only *leading* '..' components are upward traversals (CF 2.7.1)
        if g.parent is None:
            return None
        g = g.parent
        i += 1
    for c in comps[i:-1]:
        g = g.children.get(c)
        if g is None:
            return None
    for k in kinds:
        if o_has(g, k, comps[-1]):
            return (k, g.path(), comps[-1])
    return None


def o_proximal(start, name, kind, lateral):
    """Nearest ancestor-or-self; for coordinates: only up to the local apex (the nearest group
    defining a dimension of that name), then width-wise below it."""
    g = start
    while g is not None:
        if o_has(g, kind, name):
            return (kind, g.path(), name)
        if lateral and name in g.dims:
            level = list(g.children.values())
            while level:
                for h in level:
                    if o_has(h, kind, name):
                        return (kind, h.path(), name)
                level = [c for h in level for c in h.children.values()]
            return None
        g = g.parent
    return None


def o_lateral_depths(start, name, kind):
    """(depth of the depth-first hit, minimal depth) below the local apex, or None."""
    g = start
    while g is not None:
        if o_has(g, kind, name):
            return None
        if name in g.dims:
            hits = []

            def rec(h, d):
                for c in h.children.values():
                    if o_has(c, kind, name):
                        hits.append(d)
                    else:
                        rec(c, d + 1)

            # depth-first, pre-order: first hit
            def first(h, d):
                for c in h.children.values():
                    if o_has(c, kind, name):
                        return d
                    r = first(c, d + 1)
                    if r is not None:
                        return r
                return None

            def all_depths(h, d, acc):
                for c in h.children.values():
                    if o_has(c, kind, name):
                        acc.append(d)
                    all_depths(c, d + 1, acc)
                return acc

            f = first(g, 1)
            a = all_depths(g, 1, [])
            return (f, min(a)) if a else None
        g = g.parent
    return None


def o_kinds(attr):
    if attr in DIM_ATTRS:
        return ["dim"]
    if attr in DUAL_ATTRS:
        return ["dim", "var"]
    return ["var"]


def o_resolve(root, at, attr, ref, coords):
    """The element CF designates, or None.  Returns (kind, path, name)."""
    start = ofind(root, at)
    kinds = o_kinds(attr)
    if ref.startswith("/"):
        el = o_absolute(root, ref, kinds)
    elif "/" in ref:
        el = None
        for k in kinds:
            el = o_relative(start, ref, [k])
            if el:
                break
    else:
        el = None
        for k in kinds:
            el = o_proximal(start, ref, k, attr in LATERAL_ATTRS)
            if el:
                break
    if el and el[0] == "var" and attr == "cell_methods" and not ref.startswith("/"):
        # a variable named in cell_methods must be a scalar coordinate variable of the referrer
        g = ofind(root, el[1])
        if coords is None or ref not in coords or len(g.vars[el[2]]) > 0:
            return None
    return el


def o_flatname(path, name):
    return "__".join(list(path) + [name])


# ------------------------------------------------------------------ encoding of trees for the driver
def enc_path(p):
    return "/" + "/".join(p)


def enc_tree(groups, attrs=False):
    out = []
    for g in groups:
        f = [enc_path(g["path"]), ",".join(g["dims"]), ",".join(v["name"] for v in g["vars"]),
             ",".join(v["name"] for v in g["vars"] if not v["dims"])]
        if attrs:
            f.append(",".join(g.get("attrs", [])))
        out.append("|".join(f))
    return ";".join(out)


def write_tree(path, groups, referrer=None):
    """Create the grouped file with netCDF4.  `referrer` = (group path, variable name, {attr: value})."""
    import netCDF4
    nc = netCDF4.Dataset(path, "w", format="NETCDF4")
    try:
        handles = {(): nc}
        for g in groups:
            p = tuple(g["path"])
            if p:
                handles[p] = handles[p[:-1]].createGroup(p[-1])
            h = handles[p]
            for a in g.get("attrs", []):
                h.setncattr(a, "value of " + enc_path(g["path"]) + ":" + a)
            for d in g["dims"]:
                h.createDimension(d, 2)
            for v in g["vars"]:
                h.createVariable(v["name"], "i4", tuple(v["dims"]))
        if referrer is not None:
            gp, name, attrs = referrer
            v = handles[tuple(gp)].createVariable(name, "i4", ())
            for a, val in attrs.items():
                v.setncattr(a, val)
    finally:
        nc.close()


def run_flattener(path, strict):
    """The real flattener on a file; returns (flat variables {name: {attr: value}}, dim map, var map, attr map)."""
    import netCDF4
    cfdm()
    from cfdm.read_write.netcdf.flatten import netcdf_flatten
    nc = netCDF4.Dataset(path, "r")
    out = netCDF4.Dataset(path + ".flat", "w", diskless=True, persist=False)
    try:
        netcdf_flatten(nc, out, strict=strict, omit_data=True)
        variables = {n: (tuple(v.dimensions), {a: v.getncattr(a) for a in v.ncattrs()}) for n, v in out.variables.items()}

        def m(attr):
            x = out.getncattr(attr) if attr in out.ncattrs() else []
            if isinstance(x, str):
                x = [x]
            return [tuple(str(s).split(": ", 1)) for s in np.atleast_1d(x).tolist()]

        gattrs = {a: out.getncattr(a) for a in out.ncattrs() if not a.startswith("_flattener")}
        return variables, m("_flattener_dimension_map"), m("_flattener_variable_map"), m("_flattener_attribute_map"), gattrs
    finally:
        out.close()
        nc.close()


# ------------------------------------------------------------------ C11.res
VOCAB = ["lat", "lon", "t", "x", "y", "time", "p"]
GNAMES = ["a", "b", "c", "g"]


def all_rule_names():
    return [r["name"] for r in _rule_tables()[1]]


_RULES = None


def rule_names():
    global _RULES
    if _RULES is None:
        _RULES = all_rule_names()
    return _RULES


def gen_tree(rng, vocab=VOCAB, gnames=GNAMES, max_groups=6, scalar_p=0.45):
    paths = [[]]
    for _ in range(rng.randint(0, max_groups)):
        par = rng.choice([p for p in paths if len(p) < 3])
        name = rng.choice(gnames)
        if par + [name] in paths:
            continue
        paths.append(par + [name])
    # creation (pre-)order: parents before children, siblings in creation order
    order = list(paths)
    paths = sorted(order, key=lambda p: [order.index(p[:i + 1]) for i in range(len(p))])
    groups = []
    visible = {}
    for p in paths:
        # (in netCDF-4 the child groups, variables and dimensions of a group share one name space)
        kids = {q[-1] for q in paths if len(q) == len(p) + 1 and q[:len(p)] == p}
        free = [x for x in vocab if x not in kids]
        dims = rng.sample(free, min(len(free), rng.choice([0, 0, 1, 1, 2])))
        vis = dict(visible.get(tuple(p[:-1]), {})) if p else {}
        for d in dims:
            vis[d] = p
        visible[tuple(p)] = vis
        vs = []
        for n in rng.sample(free, min(len(free), rng.choice([0, 1, 1, 2, 3]))):
            if n in dims or (n in vis and rng.random() < 0.7):
                # a coordinate variable of the visible dimension (netCDF-4 demands it when the dimension
                # is in the same group)
                vd = [n]
            elif vis and rng.random() > scalar_p:
                vd = [rng.choice(sorted(vis))]
            else:
                vd = []
            vs.append(dict(name=n, dims=vd))
        groups.append(dict(path=p, dims=dims, vars=vs))
    return groups


def gen_ref(rng, groups, at):
    style = rng.choice(["prox", "prox", "prox", "abs", "rel", "rel"])
    paths = [g["path"] for g in groups]
    names_here = lambda g: g["dims"] + [v["name"] for v in g["vars"]]
    if style == "prox":
        return rng.choice(VOCAB)
    if style == "abs":
        g = rng.choice(groups)
        if rng.random() < 0.75 and names_here(g):
            return enc_path(g["path"] + [rng.choice(names_here(g))])
        return enc_path(rng.choice(paths) + [rng.choice(VOCAB)])
    # relative
    ups = rng.choice([0, 0, 1, 1, 2, 3])
    base = at[:max(0, len(at) - ups)]
    below = [p for p in paths if p[:len(base)] == base and len(p) > len(base)]
    r = rng.random()
    if below and r < 0.7:
        tgt = rng.choice(below)
        down = tgt[len(base):]
        g = groups[paths.index(tgt)]
        name = rng.choice(names_here(g)) if names_here(g) and rng.random() < 0.8 else rng.choice(VOCAB)
    elif r < 0.85:
        down = [rng.choice(GNAMES)]
        name = rng.choice(VOCAB)
    else:
        down = []
        g = groups[paths.index(base)]
        name = rng.choice(names_here(g)) if names_here(g) and rng.random() < 0.7 else rng.choice(VOCAB)
    if ups == 0 and not down:
        down = [rng.choice(GNAMES)]
    return "../" * ups + "/".join(down + [name])


def gen_res(rng):
    groups = gen_tree(rng)
    at = rng.choice(groups)["path"]
    r = rng.random()
    if r < 0.35:
        attr = "coordinates"
    elif r < 0.6:
        attr = "cell_methods"
    else:
        attr = rng.choice(rule_names())
    ref = gen_ref(rng, groups, at)
    if rng.random() < 0.3 and len(groups) > 1:
        # plant one name in several groups - above, at, beside and below the referrer - so that the nearest /
        # shallowest candidate has competitors at other depths; sometimes a dimension of that name as well
        # (a local apex somewhere on the way up)
        n = rng.choice(VOCAB)
        for g in groups:
            have = [v["name"] for v in g["vars"]]
            if rng.random() < 0.45 and n not in have and (g["path"] != at or rng.random() < 0.3):
                g["vars"].append(dict(name=n, dims=[n] if n in g["dims"] else []))
        if rng.random() < 0.4:
            g = rng.choice(groups)
            if n not in g["dims"] and all(v["name"] != n or v["dims"] == [n] for v in g["vars"]):
                g["dims"].append(n)
                for v in g["vars"]:
                    if v["name"] == n:
                        v["dims"] = [n]
        if rng.random() < 0.75:
            ref = n
    strict = rng.random() < 0.2
    coords = None
    if attr == "cell_methods" and not strict and rng.random() < 0.6:
        # (tokens of which the reference is a proper substring are left out: the flattener tests
        # `ref in <attribute string>`, CF means "is one of the listed variables")
        coords = [x for x in rng.sample(VOCAB, rng.randint(1, 2)) if x == ref or ref not in x]
        if "/" not in ref and rng.random() < 0.6 and ref not in coords:
            coords.append(ref)
        coords = coords or None
    return dict(groups=groups, at=at, attr=attr, ref=ref, strict=strict, coords=coords)


def attr_string(attr, ref):
    if attr == "cell_methods":
        return f"{ref}: mean"
    if attr in VALUE_ATTRS:
        return f"k: {ref}"
    return ref


def res_token(attr, value):
    """The reference token back out of the flattened attribute."""
    toks = str(value).split()
    if attr == "cell_methods":
        return toks[0][:-1] if toks and toks[0].endswith(":") else None
    if attr in VALUE_ATTRS:
        return toks[1] if len(toks) == 2 else None
    return toks[0] if len(toks) == 1 else None


def mk_res(p):
    p = dict(p)
    coords = "-" if p["coords"] is None else ",".join(p["coords"])
    line = (f"C11.res tree={enc_tree(p['groups'])} at={enc_path(p['at'])} attr={p['attr']} ref={p['ref']} "
            f"coords={coords} strict={int(p['strict'])} old=0")
    ref = p["ref"]
    style = "abs" if ref.startswith("/") else ("rel" if "/" in ref else "prox")
    here = [g for g in p["groups"] if g["path"] == p["at"]][0]
    trivial = len(p["groups"]) == 1 or (style == "prox" and ref in [v["name"] for v in here["vars"]] + here["dims"])
    tags = [f"res:style={style}", f"res:attr={p['attr'] if p['attr'] in ('coordinates', 'cell_methods') else 'other'}",
            f"res:depth={max(len(g['path']) for g in p['groups'])}", f"res:strict={int(p['strict'])}"]
    return Case("C11.res", p, line, key=line, nontrivial=not trivial, tags=tags)


def impl_res(c):
    p = c.payload
    path = tmpfile("res")
    attrs = {p["attr"]: attr_string(p["attr"], p["ref"])}
    if p["coords"] is not None:
        attrs["coordinates"] = " ".join(p["coords"])
    try:
        write_tree(path, p["groups"], (p["at"], "ref_var", attrs))
        try:
            variables, dmap, vmap, amap, _ = run_flattener(path, p["strict"])
        except Exception as e:
            name = type(e).__name__
            if name == "UnresolvedReferenceException":
                return "tok=unresolved"
            return "tok=raised:" + fw.exc_enum(e)
        flat = [new for new, old in vmap if old == enc_path(p["at"] + ["ref_var"])]
        if len(flat) != 1:
            return "tok=?no-referrer"
        tok = res_token(p["attr"], variables[flat[0]][1].get(p["attr"]))
        c.extra = dict(dmap=dmap, vmap=vmap)
        return f"tok={tok}"
    finally:
        _rm(path)


def oracle_res(c):
    p = c.payload
    root = otree(p["groups"])
    el = o_resolve(root, p["at"], p["attr"], p["ref"], p["coords"])
    if el is not None:
        want = o_flatname(el[1], el[2])
    elif p["attr"] in STDNAME_ATTRS:
        want = p["ref"]
    elif p["strict"]:
        want = "unresolved"
    else:
        want = "REF_NOT_FOUND_" + p["ref"]
    got = str(c.impl_out)[4:]
    if got != want:
        return f"{p['attr']} token {p['ref']!r} from {enc_path(p['at'])}: flattener left {got!r}, CF search rules give {want!r}"
    return None


def classify_res(c):
    p = c.payload
    ref, attr = p["ref"], p["attr"]
    root = otree(p["groups"])
    kinds = o_kinds(attr)
    if not ref.startswith("/") and "/" in ref:
        # the code as it is: first kind only; a missing final element raises KeyError; None and a
        # second kind allowed -> the `groupp` typo
        comps = ref.split("/")
        g = ofind(root, p["at"])
        i = 0
        while i < len(comps) - 1 and comps[i] == "..":
            if g.parent is None:
                g = None
                break
            g = g.parent
            i += 1
        if g is not None:
            for cc in comps[i:-1]:
                g = g.children.get(cc)
                if g is None:
                    break
        if g is not None and not o_has(g, kinds[0], comps[-1]):
            return "flatten-relative-path-missing-element-keyerror"
        if g is None and len(kinds) == 2:
            return "flatten-relative-path-second-kind-groupp-typo"
    if not ref.startswith("/") and "/" not in ref and attr in LATERAL_ATTRS:
        d = o_lateral_depths(ofind(root, p["at"]), ref, "var")
        if d is not None and d[0] != d[1]:
            return "flatten-lateral-search-depth-first"
    return "unclassified-res"


# ------------------------------------------------------------------ C11.name
ODD_G = ["a", "b", "a__b", "b_", "_b", "a_", "c"]
ODD_V = ["c", "b__c", "_c", "c_", "__c", "b", "b__b", "x"]


def gen_name(rng):
    mode = rng.choice(["odd", "odd", "odd", "long", "clean"])
    if mode == "clean":
        groups = gen_tree(rng, scalar_p=1.1)
    else:
        gn, vn = list(ODD_G), list(ODD_V)
        if mode == "long":
            gn = [(x * 200)[:rng.choice([1, 40, 90, 130])] for x in ["a", "b", "ab", "c"]]
            vn = [(x * 250)[:rng.choice([1, 1, 100, 250])] for x in ["c", "d", "xy"]]
        groups = gen_tree(rng, vocab=vn, gnames=gn, scalar_p=1.1)
    for g in groups:
        for v in g["vars"]:
            v["dims"] = [v["name"]] if v["name"] in g["dims"] else []
        g["attrs"] = rng.sample(["comment", "c", "b__c", "a__comment"], rng.choice([0, 0, 1, 2]))
    return dict(groups=groups, mode=mode)


def sha(s):
    return hashlib.sha1(s.encode("UTF-8")).hexdigest()


def mk_name(p):
    p = dict(p)
    need = {}
    for g in p["groups"]:
        if g["path"]:
            gp = enc_path(g["path"])
            need[gp] = sha(gp)
            for n in g["dims"] + [v["name"] for v in g["vars"]] + g.get("attrs", []):
                full = "__".join(g["path"] + [n])
                need[full] = sha(full)
    h = ",".join(f"{k}>{v}" for k, v in sorted(need.items())) or "-"
    line = f"C11.name tree={enc_tree(p['groups'], attrs=True)} hash={h} old=0"
    tags = [f"name:mode={p['mode']}", f"name:groups={min(len(p['groups']), 4)}"]
    return Case("C11.name", p, line, key=f"C11.name {enc_tree(p['groups'], attrs=True)}", nontrivial=len(p["groups"]) > 1, tags=tags)


def impl_name(c):
    p = c.payload
    path = tmpfile("name")
    try:
        write_tree(path, p["groups"])
        try:
            variables, dmap, vmap, amap, gattrs = run_flattener(path, False)
        except RuntimeError as e:
            # "String match to name in use": two elements of one kind got one name (createVariable /
            # createDimension); "HDF error" when the dataset is closed: a variable and a dimension of
            # different groups got one name
            c.extra = dict(error=str(e)[:200])
            return "raised:RuntimeError"
        c.extra = dict(dmap=dmap, vmap=vmap, amap=amap, gattrs=gattrs, nvars=len(variables))
        return (f"dims=[{','.join(n for n, _ in dmap)}] vars=[{','.join(n for n, _ in vmap)}] "
                f"attrs=[{','.join(n for n, _ in amap)}]")
    finally:
        _rm(path)


def name_clean(n):
    return "__" not in n and not n.startswith("_") and not n.endswith("_")


def oracle_name(c):
    p = c.payload
    if str(c.impl_out).startswith("raised"):
        return "the flattener failed on a legal grouped file: " + c.impl_out
    ex = c.extra
    for kind, mp, key in (("dimension", ex["dmap"], "dims"), ("variable", ex["vmap"], "vars"), ("attribute", ex["amap"], "attrs")):
        want = []
        for g in p["groups"]:
            names = g["dims"] if key == "dims" else ([v["name"] for v in g["vars"]] if key == "vars" else g.get("attrs", []))
            want += [(g["path"], n) for n in names]
        if [old for _, old in mp] != [enc_path(pp + [n]) for pp, n in want]:
            return f"{kind} map does not list every {kind} of the file once, in file order"
        new = [n for n, _ in mp]
        if len(set(new)) != len(new):
            return f"two {kind}s received the same flattened name {sorted(x for x in new if new.count(x) > 1)[0]!r}"
        for (pp, n), got in zip(want, new):
            if "/" in got or len(got) > 255:
                return f"{kind} name {got[:40]!r} is not a valid flat name"
            if not pp and got != n:
                return f"root-group {kind} {n!r} was renamed"
            if pp and all(name_clean(x) for x in pp + [n]) and len("__".join(pp + [n])) < 256 and \
                    got != "__".join(pp + [n]) and "__".join(pp + [n]) not in new:
                return f"{kind} {enc_path(pp + [n])} became {got!r}"
    if ex["nvars"] != len(ex["vmap"]):
        return "flattened file has a different number of variables"
    for new, old in ex["amap"]:
        head, a = old.rsplit("/", 1)
        if ex["gattrs"].get(new) != "value of " + (head or "/") + ":" + a:
            return f"group attribute {old} lost its value in the flattened file"
    return None


def classify_name(c):
    p = c.payload
    if isinstance(c.extra, dict) and "HDF error" in c.extra.get("error", ""):
        d = {"__".join(g["path"] + [n]): g["path"] + [n] for g in p["groups"] for n in g["dims"]}
        for g in p["groups"]:
            for v in g["vars"]:
                full = "__".join(g["path"] + [v["name"]])
                if full in d and d[full] != g["path"] + [v["name"]]:
                    return "flatten-name-collision-dimension-versus-variable"
    for key in ("dims", "vars", "attrs"):
        full = []
        for g in p["groups"]:
            names = g["dims"] if key == "dims" else ([v["name"] for v in g["vars"]] if key == "vars" else g.get("attrs", []))
            full += ["__".join(g["path"] + [n]) for n in names]
        if len(set(full)) != len(full):
            return "flatten-name-collision-separator-in-names"
    return "unclassified-name"


# ------------------------------------------------------------------ C11.grp
def gen_grp(rng):
    comps = [rng.choice(["a", "forecast", "forecast2", "m", "x_1", "lat"]) for _ in range(rng.randint(1, 4))]
    style = rng.choice(["abs", "abs", "abs", "bare", "rel", "trail"])
    if style == "abs":
        name = "/" + "/".join(comps)
    elif style == "bare":
        name = comps[-1]
    elif style == "trail":
        name = "/" + "/".join(comps) + "/"
    else:
        name = "/".join(comps) if len(comps) > 1 else comps[0] + "/v"
    new_groups = [rng.choice(["g", "forecast", "m"]) for _ in range(rng.randint(0, 3))]
    return dict(name=name, groups=new_groups)


def mk_grp(p):
    p = dict(p)
    line = f"C11.grp name={p['name']} set={enc_path(p['groups']) if p['groups'] else '-'}"
    style = "abs" if p["name"].startswith("/") else ("rel" if "/" in p["name"] else "bare")
    return Case("C11.grp", p, line, key=line, nontrivial="/" in p["name"], tags=["grp:" + style])


def impl_grp(c):
    """Public mixin API on a real construct: stored name, its groups, setting groups, clearing groups."""
    C = cfdm()
    p = c.payload
    x = C.AuxiliaryCoordinate()
    d = C.DomainAxis(3)
    try:
        x.nc_set_variable(p["name"])
        d.nc_set_dimension(p["name"])
    except ValueError:
        c.extra = dict(rejected=True)
        return "raised:ValueError"
    g = x.nc_variable_groups()
    gd = d.nc_dimension_groups()
    y = x.copy()
    y.nc_set_variable_groups(p["groups"])
    z = y.copy()
    z.nc_clear_variable_groups()
    c.extra = dict(stored=x.nc_get_variable(), dstored=d.nc_get_dimension(), groups=list(g), dgroups=list(gd),
                   set_name=y.nc_get_variable(), set_groups=list(y.nc_variable_groups()), cleared=z.nc_get_variable())
    return f"stored={x.nc_get_variable()} groups={enc_path(list(g))} base={z.nc_get_variable()} set={y.nc_get_variable()}"


def agree_grp(c):
    m = str(c.model_out)
    return m == str(c.impl_out) or m.startswith(str(c.impl_out) + " parent=")


def oracle_grp(c):
    p, ex = c.payload, c.extra
    name = p["name"]
    legal = bool(name) and name != "/" and ("/" not in name or (name.startswith("/") and not name.endswith("/")))
    if ex.get("rejected"):
        return None if not legal else f"nc_set_variable refused the legal name {name!r}"
    if not legal:
        return f"nc_set_variable accepted {name!r}"
    comps = name.split("/")
    want = comps[1:-1]
    if ex["groups"] != want or ex["dgroups"] != want:
        return f"groups of {name!r}: {ex['groups']} / {ex['dgroups']}, expected {want}"
    base = comps[-1]
    stored = name if want else base
    if ex["stored"] != stored or ex["dstored"] != stored:
        return f"{name!r} stored as {ex['stored']!r}"
    want_name = "/" + "/".join(p["groups"] + [base]) if p["groups"] else base
    if ex["set_name"] != want_name or ex["set_groups"] != p["groups"] or ex["cleared"] != base:
        return f"nc_set_variable_groups({p['groups']}) on {name!r} gave {ex['set_name']!r}"
    return None


# ------------------------------------------------------------------ C11.place
REF_ATTRS = ["ancillary_variables", "bounds", "cell_measures", "cell_methods", "climatology", "coordinates",
             "formula_terms", "geometry", "grid_mapping", "node_coordinates", "node_count", "part_node_count",
             "interior_ring", "compress", "sample_dimension", "instance_dimension"]
GATTR_POOL = [("project", "research"), ("comment", "made by verif"), ("foo", "bar"), ("history", "h1")]


def _fields_mod():
    from ..gen import fields
    return fields


def build_field(p):
    """The field of a place case, every netCDF variable and dimension named (unique base names)."""
    C = cfdm()
    F = _fields_mod()
    rng = fw.rng_for(p["fseed"], "C11.field")
    if p["source"].startswith("ex"):
        f = C.example_field(int(p["source"][2:]))
    elif p["source"].startswith("cx"):
        # compressed by convention: example field 3 as a contiguous / indexed ragged array, 4 as indexed contiguous
        f = C.example_field(int(p["source"][2])).compress({"c": "contiguous", "i": "indexed", "x": "indexed_contiguous"}[p["source"][3]])
    else:
        f = F.random_field(rng, max_axes=3, allow=("dim", "aux", "aux2d", "scalar", "msr", "fan", "cm", "gm", "ft",
                                                    "bounds", "names", "mask", "string", "dan"))
    f.nc_set_variable("vdata")
    f.nc_clear_global_attributes()
    axes = sorted(f.domain_axes(todict=True))
    dimc = {}
    for k, c in sorted(f.dimension_coordinates(todict=True).items()):
        ax = f.get_data_axes(k)[0]
        dimc[ax] = k
    names = {}      # construct key (or key+':b') -> base name
    for i, (k, c) in enumerate(sorted(f.dimension_coordinates(todict=True).items())):
        names[k] = f"dc{i}"
    for i, (k, c) in enumerate(sorted(f.auxiliary_coordinates(todict=True).items())):
        names[k] = f"ax{i}"
    for i, (k, c) in enumerate(sorted(f.cell_measures(todict=True).items())):
        names[k] = f"ms{i}"
    for i, (k, c) in enumerate(sorted(f.field_ancillaries(todict=True).items())):
        names[k] = f"fa{i}"
    for i, (k, c) in enumerate(sorted(f.domain_ancillaries(todict=True).items())):
        names[k] = f"da{i}"
    for i, (k, c) in enumerate(sorted(f.coordinate_references(todict=True).items())):
        if c.coordinate_conversion.get_parameter("grid_mapping_name", None) is not None:
            names[k] = f"gm{i}"
    for k, n in sorted(names.items()):
        c = f.constructs[k]
        c.nc_set_variable(n)
        if getattr(c, "has_bounds", lambda: False)():
            c.bounds.nc_set_variable(n + "_b")
            names[k + ":b"] = n + "_b"
            nv = c.bounds.data.shape[-1]
            c.bounds.nc_set_dimension(f"bd{nv}")
    for n, objs in extra_objects(f).items():
        for o in objs:
            if o is f:
                f.nc_set_geometry_variable(n)
            else:
                o.nc_set_variable(n)
    dnames = {}
    for i, a in enumerate(axes):
        da = f.domain_axes(todict=True)[a]
        if a in dimc:
            da.nc_set_dimension(names[dimc[a]])
            dnames[a] = names[dimc[a]]
        else:
            da.nc_set_dimension(f"dm{i}")
            dnames[a] = f"dm{i}"
    return f, names, dnames


class _Part:
    """A node count / part node count / interior ring variable of one geometry coordinate: the getters return
    copies, so a change is made on the copy and the copy is put back."""

    def __init__(self, coord, what):
        self.coord, self.what = coord, what

    def _apply(self, method, *args):
        o = getattr(self.coord, "get_" + self.what)()
        getattr(o, method)(*args)
        getattr(self.coord, "set_" + self.what)(o)

    def nc_set_variable(self, n):
        self._apply("nc_set_variable", n)

    def nc_set_variable_groups(self, g):
        self._apply("nc_set_variable_groups", g)


def extra_objects(f):
    """The netCDF variables of a field that belong to no construct of their own: the geometry container, node
    count, part node count and interior ring variables, and the count / index variables of a ragged array.
    -> {base name: [objects to name and to put into groups]} (the field itself stands for its geometry container)."""
    out = collections.OrderedDict()
    geo = [c for _, c in sorted(f.auxiliary_coordinates(todict=True).items()) if c.get_geometry(None) is not None]
    if geo:
        out["gcon"] = [f]
        for nm, what in (("ncnt", "node_count"), ("pncnt", "part_node_count"), ("iring", "interior_ring")):
            objs = [_Part(c, what) for c in geo if getattr(c, "has_" + what)()]
            if objs:
                out[nm] = objs
    d = f.data if f.has_data() else None
    if d is not None and d.get_compression_type():
        for nm, get in (("cnt", "get_count"), ("idx", "get_index")):
            o = getattr(d, get)(None)
            if o is not None:
                out[nm] = [o]
    return out


def extra_needs(f, dnames):
    """The dimensions (by name, as far as the assignment moves them) that each extra variable spans."""
    needs = {}
    geo = [k for k, c in sorted(f.auxiliary_coordinates(todict=True).items()) if c.get_geometry(None) is not None]
    if geo:
        needs["ncnt"] = [dnames[a] for a in f.get_data_axes(geo[0])[:1]]
    if f.has_data() and f.data.get_compression_type():
        # the count variable (and, for an indexed contiguous array, the index variable) spans the instance dimension
        inst = [dnames[a] for a in f.get_data_axes()[:1]]
        needs["cnt"] = inst if f.data.get_compression_type() == "ragged contiguous" else []
    return needs


def gen_place(rng, tier):
    r = rng.random()
    source = "rnd" if r < 0.74 else rng.choice(["ex0", "ex1", "ex1", "ex2", "ex3", "ex4", "ex5", "ex6", "ex6", "ex7", "ex11",
                                                 "cx3c", "cx3i", "cx4x"])
    p = dict(source=source, fseed=rng.randrange(10 ** 9), aseed=rng.randrange(10 ** 9),
             perturb=rng.random() < 0.25, samebase=rng.random() < 0.06, gattrs=rng.random() < 0.5)
    if source in ("ex6", "cx3c", "cx3i", "cx4x"):
        # the geometry container / node count / part node count / interior ring / count / index variables get groups too
        p["extras"] = rng.random() < 0.8
    return p


GP = ["g0", "g1", "g2"]


def assignment(p, f, names, dnames):
    """Group path for every named variable and dimension of the field (base name -> list)."""
    rng = fw.rng_for(p["aseed"], "C11.assign")
    depth = rng.choice([0, 0, 1, 1, 2, 2, 3] if p["gattrs"] else [0, 1, 1, 2, 2, 3, 3])
    spine = [rng.choice(GP) for _ in range(depth)]
    dgroup = {}
    axes = sorted(f.domain_axes(todict=True))
    for a in axes:
        dgroup[dnames[a]] = spine[:rng.randint(0, len(spine))] if rng.random() < 0.6 else []
    bdims = sorted({c.bounds.nc_get_dimension() for k, c in f.constructs.filter_by_type(
        "dimension_coordinate", "auxiliary_coordinate", "domain_ancillary", todict=True).items() if c.has_bounds()})
    for b in bdims:
        dgroup[b] = spine[:rng.randint(0, len(spine))] if rng.random() < 0.4 else []

    def below(req):
        """A group at or below `req`."""
        r = rng.random()
        if r < 0.45:
            return list(req)
        if r < 0.8 and spine[:len(req)] == req and len(spine) > len(req):
            return spine[:rng.randint(len(req), len(spine))]
        ext = [rng.choice(GP + ["h0"]) for _ in range(rng.randint(1, 2))]
        return (list(req) + ext)[:3] if len(req) < 3 else list(req)

    vgroup = {"vdata": list(spine)}
    inherit = set()
    for k, n in sorted(names.items()):
        if k.endswith(":b"):
            continue
        c = f.constructs[k]
        axs = f.get_data_axes(k, default=()) or ()
        # scalar coordinate: written without dimensions when its size-1 axis is not spanned by the data
        need = [dgroup[dnames[a]] for a in axs]
        ctype = c.construct_type
        if ctype == "dimension_coordinate":
            g = dgroup[n]                         # the dimension takes the variable's name and group
        elif ctype == "coordinate_reference":
            g = below([]) if rng.random() < 0.5 else []
        else:
            req = max(need, key=len) if need else []
            g = below(req)
        vgroup[n] = g
        if k + ":b" in names:
            bn = names[k + ":b"]
            bd = dgroup[c.bounds.nc_get_dimension()]
            if rng.random() < 0.5 and len(bd) <= len(g) and g[:len(bd)] == bd:
                inherit.add(bn)
                vgroup[bn] = list(g)
            else:
                req = g if len(g) >= len(bd) else bd
                vgroup[bn] = below(req) if rng.random() < 0.5 else list(req)
    if p.get("extras"):
        needs = extra_needs(f, dnames)
        for n in extra_objects(f):
            need = [dgroup[d] for d in needs.get(n, []) if d in dgroup]
            req = max(need, key=len) if need else []
            # (the geometry container mostly stays in the root group: elsewhere the flat file is not flat - open finding)
            vgroup[n] = below(req) if rng.random() < (0.3 if n == "gcon" else 0.8) else list(req)
    grouped_dims = sorted(n for n, g in dgroup.items() if g)
    if p["perturb"] and grouped_dims and rng.random() < 0.35:
        # a *sibling* group whose name extends the dimension's group name ('/forecast' -> '/forecast2'):
        # as strings one path is a prefix of the other, as groups neither contains the other
        dn = rng.choice(grouped_dims)
        g = dgroup[dn]
        users = [n for k, n in sorted(names.items()) if not k.endswith(":b") and n != dn and
                 dn in [dnames[a] for a in (f.get_data_axes(k, default=()) or ())]]
        users.append("vdata")
        n = rng.choice(users)
        vgroup[n] = g[:-1] + [g[-1] + "2"] + ([rng.choice(GP)] if rng.random() < 0.3 and len(g) < 3 else [])
        inherit.discard(n)
    elif p["perturb"]:
        # move one element somewhere unrelated: usually makes a dimension invisible
        cand = sorted(set(vgroup) | set(dgroup))
        n = rng.choice(cand)
        newg = [rng.choice(GP + ["q"]) for _ in range(rng.randint(0, 3))]
        if n in vgroup and n not in dgroup:
            vgroup[n] = newg
            inherit.discard(n)
        elif n in dgroup and n not in vgroup:
            dgroup[n] = newg
        else:
            vgroup[n] = newg
            dgroup[n] = newg
    ga = {}
    if p["gattrs"]:
        # (also for a data variable in the root group: the recorded group attributes then have no group to
        # go to and must leave the variable's attributes alone)
        for a, v in rng.sample(GATTR_POOL, rng.randint(1, 3)):
            mode = rng.choice(["none", "none", "same", "other", "absent"])
            ga[a] = mode
    return normalise_asg(f, names, dict(vgroup=vgroup, dgroup=dgroup, inherit=sorted(inherit), gattrs=ga))


def normalise_asg(f, names, asg):
    """The writer's own rules, applied to a raw assignment (also after shrinking): the dimension of a
    dimension coordinate has the variable's name, hence its group; bounds without groups of their own
    follow the parent coordinate - the root group cannot be told from "no groups" (no slash in the name
    either way), so root-group bounds follow the parent too; the node coordinate variables of a geometry
    do not follow (they stay in the root group)."""
    vgroup, dgroup = asg["vgroup"], asg["dgroup"]
    inherit = set(asg.get("inherit", []))
    for k, n in names.items():
        if not k.endswith(":b") and n in dgroup and n in vgroup:
            dgroup[n] = list(vgroup[n])
    for k, n in names.items():
        if k.endswith(":b") and (n in inherit or not vgroup[n]):
            inherit.add(n)
            if f.constructs[k[:-2]].get_geometry(None) is not None:
                vgroup[n] = []
            else:
                vgroup[n] = list(vgroup[names[k[:-2]]])
    asg["inherit"] = sorted(inherit)
    return asg


def apply_assignment(f, names, dnames, asg):
    vg, dg = asg["vgroup"], asg["dgroup"]
    f.nc_set_variable_groups(vg["vdata"])
    for k, n in names.items():
        if k.endswith(":b"):
            c = f.constructs[k[:-2]].bounds
            if n in asg["inherit"]:
                continue
        else:
            c = f.constructs[k]
        c.nc_set_variable_groups(vg[n])
    for k, c in f.constructs.filter_by_type("dimension_coordinate", "auxiliary_coordinate", "domain_ancillary", todict=True).items():
        if c.has_bounds():
            bd = c.bounds.nc_get_dimension()
            base = bd.split("/")[-1]
            c.bounds.nc_set_dimension("/" + "/".join(dg[base] + [base]) if dg[base] else base)
    for a, n in dnames.items():
        f.domain_axes(todict=True)[a].nc_set_dimension_groups(dg[n])
    for n, objs in extra_objects(f).items():
        if n in vg:
            for o in objs:
                if o is f:
                    f.nc_set_geometry_variable_groups(vg[n])
                else:
                    o.nc_set_variable_groups(vg[n])
    for a, mode in asg["gattrs"].items():
        val = dict(GATTR_POOL)[a]
        if mode == "none":
            f.set_property(a, val)
            f.nc_set_group_attribute(a, None)
        elif mode == "same":
            f.set_property(a, val)
            f.nc_set_group_attribute(a, val)
        elif mode == "other":
            f.set_property(a, val)
            f.nc_set_group_attribute(a, val + " (group)")
        else:  # a group attribute that is not a property of the field
            f.del_property(a, None)
            f.nc_set_group_attribute(a, val)


def nc_layout(path):
    """The file as netCDF4 sees it: {abs var path: (abs dim paths, {ref attr: value})}, {abs dim path: size},
    {group path: {attr: value}}."""
    import netCDF4
    nc = netCDF4.Dataset(path, "r")
    try:
        variables, dims, gattrs = collections.OrderedDict(), collections.OrderedDict(), {}

        def gp(g):
            return [] if g.parent is None else [x for x in g.path.split("/") if x]

        def walk(g):
            here = gp(g)
            gattrs[enc_path(here)] = {a: g.getncattr(a) for a in g.ncattrs()}
            for n, d in g.dimensions.items():
                dims[enc_path(here + [n])] = len(d)
            for n, v in g.variables.items():
                dd = [enc_path(gp(d.group()) + [d.name]) for d in v.get_dims()]
                variables[enc_path(here + [n])] = (dd, {a: str(v.getncattr(a)) for a in v.ncattrs() if a in REF_ATTRS})
            for c in g.groups.values():
                walk(c)

        walk(nc)
        return variables, dims, gattrs
    finally:
        nc.close()


def ref_tokens(attr, value):
    """Reference tokens of an attribute value (flat file: every token is a plain name)."""
    toks = value.split()
    if attr == "cell_methods":
        out, depth = [], 0
        for t in toks:
            # axes are the 'name:' tokens outside parentheses
            if depth == 0 and t.endswith(":") and not t.startswith("("):
                out.append(t[:-1])
            depth += t.count("(") - t.count(")")
        return out
    if attr in ("cell_measures", "formula_terms"):
        return [t for t in toks if not t.endswith(":")]
    if attr == "grid_mapping":
        return [t[:-1] if t.endswith(":") else t for t in toks]
    return toks


def layout_input(flat_vars, flat_dims, asg):
    """The model's input: the flat file (netCDF4 view) + the assignment."""
    vg, dg = asg["vgroup"], asg["dgroup"]
    dnames = [d[1:] for d in flat_dims]
    vnames = [v[1:] for v in flat_vars]
    dims = [(dg.get(n, []), n) for n in dnames]
    out_vars = []
    for v, (vd, attrs) in flat_vars.items():
        n = v[1:]
        refs = []
        for a in sorted(attrs):
            for t in ref_tokens(a, attrs[a]):
                if a == "cell_methods":
                    if t in dnames:
                        refs.append((a, "d", dnames.index(t)))
                    elif t in vnames:
                        refs.append((a, "v", vnames.index(t)))
                elif t in vnames:
                    refs.append((a, "v", vnames.index(t)))
                elif t in dnames:
                    refs.append((a, "d", dnames.index(t)))
        out_vars.append((vg.get(n, []), n, [dnames.index(d[1:]) for d in vd], refs))
    return dims, out_vars


def place_line(dims, vars_, asg):
    ds = ";".join(f"{enc_path(g)}:{base_of(asg, n, True)}" for g, n in dims)
    vs = ";".join(f"{enc_path(g)}:{base_of(asg, n)}:{','.join(str(i) for i in dd)}:{','.join(f'{a}>{k}{i}' for a, k, i in refs)}"
                  for g, n, dd, refs in vars_)
    return f"C11.place dims={ds} vars={vs}"


def mk_place(p):
    p = dict(p)
    key = json.dumps(p, sort_keys=True)
    tags = [f"place:src={p['source'][:3]}", f"place:perturb={int(p['perturb'])}", f"place:gattrs={int(p['gattrs'])}",
            f"place:samebase={int(p['samebase'])}"] + (["place:extras=1"] if p.get("extras") else [])
    # the protocol line needs the flat file cfdm writes for this field: impl_place fills it in
    return Case("C11.place", p, None, key=key, nontrivial=True, tags=tags)


def prepare_place(p):
    f, names, dnames = build_field(p)
    if p.get("asg"):
        asg = normalise_asg(f, names, json.loads(json.dumps(p["asg"])))
    else:
        asg = assignment(p, f, names, dnames)
    g = f.copy()
    if p.get("samebase") and not p.get("asg"):
        asg = normalise_asg(f, names, make_samebase(p, g, names, dnames, asg))
    renames = asg.get("renames", {})
    if renames:
        apply_renames(g, names, dnames, renames)
    apply_assignment(g, names, dnames, asg)
    return g, names, dnames, asg


def make_samebase(p, f, names, dnames, asg):
    """Give one variable (or dimension) the base name of another that lives in the root group, and put it in
    a non-root ancestor-or-self group of a variable that uses the root one: legal netCDF, and exactly the
    situation in which a bare name / a dimension base name is shadowed."""
    rng = fw.rng_for(p["aseed"], "C11.samebase")
    asg = json.loads(json.dumps(asg))
    vg, dg = asg["vgroup"], asg["dgroup"]
    if not vg["vdata"]:
        vg["vdata"] = [rng.choice(GP)]
    fgroup = vg["vdata"]
    keys = [k for k in sorted(names) if not k.endswith(":b") and f.constructs[k].construct_type != "dimension_coordinate"]
    # root targets the data variable refers to: scalar / auxiliary coordinates, measures, ancillaries
    roots = [k for k in keys if f.constructs[k].construct_type in ("auxiliary_coordinate", "cell_measure", "field_ancillary")]
    others = [k for k in keys if f.constructs[k].construct_type in ("auxiliary_coordinate", "cell_measure", "field_ancillary", "domain_ancillary")]
    asg["renames"] = {}
    if rng.random() < 0.5 and roots and len(others) >= 2:
        tgt = rng.choice(roots)
        oth = rng.choice([k for k in others if k != tgt])
        # the target goes to the root with all its dimensions; the other takes its base name in a prefix of the field's group
        for a in f.get_data_axes(tgt, default=()) or ():
            dg[dnames[a]] = []
            if dnames[a] in vg:
                vg[dnames[a]] = []
        vg[names[tgt]] = []
        if tgt + ":b" in names:
            vg[names[tgt + ":b"]] = []
            asg["inherit"] = [x for x in asg["inherit"] if x != names[tgt + ":b"]]
        pre = fgroup[:rng.randint(1, len(fgroup))]
        ok = all(dg[dnames[a]] == pre[:len(dg[dnames[a]])] for a in (f.get_data_axes(oth, default=()) or ()))
        if ok:
            asg["renames"][names[oth]] = names[tgt]
            vg[names[oth]] = pre
            if oth + ":b" in names:
                asg["inherit"] = sorted(set(asg["inherit"]) | {names[oth + ":b"]})
                vg[names[oth + ":b"]] = pre
    else:
        # two axes without dimension coordinates and of equal size: same dimension base name, one in the root
        axes = sorted(f.domain_axes(todict=True))
        free = [a for a in axes if dnames[a].startswith("dm")]
        data_axes = list(f.get_data_axes(default=()))
        pairs = [(a, b) for a in free for b in free if a < b and a in data_axes and b in data_axes and
                 f.domain_axes(todict=True)[a].get_size() == f.domain_axes(todict=True)[b].get_size()]
        if pairs:
            a, b = rng.choice(pairs)
            dg[dnames[a]] = []
            asg["renames"]["dim:" + dnames[b]] = dnames[a]
            dg[dnames[b]] = fgroup[:rng.randint(1, len(fgroup))]
    return asg


def apply_renames(f, names, dnames, renames):
    for old, new in renames.items():
        if old.startswith("dim:"):
            for a, n in dnames.items():
                if n == old[4:]:
                    f.domain_axes(todict=True)[a].nc_set_dimension(new)
        else:
            for k, n in names.items():
                if n == old and not k.endswith(":b"):
                    f.constructs[k].nc_set_variable(new)


def base_of(asg, n, dim=False):
    return asg.get("renames", {}).get(("dim:" if dim else "") + n, n)


def impl_place(c):
    C = cfdm()
    p = c.payload
    g, names, dnames, asg = prepare_place(p)
    ex = dict(asg=asg, names=names, dnames=dnames)
    c.extra = ex
    renamed = bool(asg.get("renames"))
    flat, grp, grp2 = tmpfile("flat"), tmpfile("grp"), tmpfile("grp2")
    try:
        # the flat file (group=False) of the same field; with renames (same base name in two groups) the
        # flat writer has to invent a suffix, so the model input is taken from the un-renamed field
        try:
            if renamed:
                q = dict(p, asg=dict(asg, renames={}), samebase=False)
                g0, _, _, _ = prepare_place(q)
                C.write(g0, flat, group=False)
            else:
                C.write(g, flat, group=False)
        except Exception as e:
            ex["skip"] = "flat write failed: " + repr(e)[:200]
            return "skip"
        fv, fd, fg = nc_layout(flat)
        if set(fg) != {"/"}:
            ex["flat_groups"] = sorted(set(fg) - {"/"})
            return "flat-file-has-groups"
        dims, vars_ = layout_input(fv, fd, asg)
        ex["dims"], ex["vars"] = dims, vars_
        ex["flat_attrs"] = [(a, val) for _, (_, attrs) in fv.items() for a, val in attrs.items()]
        c.line = place_line(dims, vars_, asg)
        try:
            C.write(g, grp)
        except ValueError as e:
            ex["error"] = str(e)[:300]
            return "rejected"
        except Exception as e:
            ex["error"] = repr(e)[:300]
            return "raised:" + fw.exc_enum(e)
        gv, gd, gg = nc_layout(grp)
        ex["gv"], ex["gd"], ex["gg"] = gv, gd, gg
        # the grouped file flattened by cfdm's own flattener, names mapped back through its maps
        try:
            variables, dmap, vmap, amap, _ = run_flattener(grp, False)
        except Exception as e:
            ex["flatten_error"] = repr(e)[:300]
            return "flatten-raised:" + fw.exc_enum(e)
        v_back = {new: old for new, old in vmap}
        d_back = {new: old for new, old in dmap}
        by_base = {}
        for new, old in vmap:
            by_base.setdefault(old.rsplit("/", 1)[1], []).append(new)
        parts = []
        for gpath, n, dd, refs in vars_:
            b = base_of(asg, n)
            cands = [x for x in by_base.get(b, []) if v_back[x] == enc_path(gpath + [b])] or by_base.get(b, [])
            if len(cands) != 1:
                parts.append(f"?{n}")
                continue
            fdims, fattrs = variables[cands[0]]
            rr = []
            for a in sorted(fattrs):
                if a not in REF_ATTRS:
                    continue
                for t in ref_tokens(a, str(fattrs[a])):
                    first, second = (d_back, v_back) if a == "cell_methods" else (v_back, d_back)
                    if t in first:
                        rr.append(("dim:" if first is d_back else "var:") + first[t])
                    elif t in second:
                        rr.append(("dim:" if second is d_back else "var:") + second[t])
                    elif t.startswith("REF_NOT_FOUND"):
                        rr.append("notfound")
            parts.append(f"{v_back[cands[0]]}({','.join(d_back.get(d, '?') for d in fdims)})[{','.join(rr)}]")
        out = "ok " + ";".join(parts)
        # reads, for the oracle
        dup = [val for _, (_, attrs) in fv.items() for a, val in attrs.items()
               if a == "coordinates" and len(set(val.split())) != len(val.split())]
        if dup:
            # The writer names one scalar string-valued coordinate variable twice (two identical size-1 auxiliary
            # coordinates).  Reading such a file - grouped OR flat - re-opens the dataset for the same vlen-string
            # scalar while the reader's own handle is open, which netCDF-C/HDF5 answers with "HDF error" or a
            # segmentation fault (reproduced with netCDF4 alone).  Not a matter of groups (C01): no reads.
            ex["flat_read_error"] = "coordinates attribute names a variable twice: " + dup[0]
            return out
        try:
            r_flat = C.read(flat)
        except Exception as e:
            # the flat file itself cannot be read back: not a matter of groups (C01)
            ex["flat_read_error"] = repr(e)[:300]
            return out
        try:
            r_grp = C.read(grp)
        except Exception as e:
            import traceback
            ex["read_error"] = repr(e)[:300] + " @ " + " < ".join(
                f"{fs.name}:{fs.lineno}" for fs in traceback.extract_tb(e.__traceback__)[-3:])
            return out
        ex["n_flat"], ex["n_grp"] = len(r_flat), len(r_grp)
        if len(r_flat) == 1 and len(r_grp) == 1:
            a, b = r_grp[0], r_flat[0]
            orig = g
            ex["eq"] = [bool(a.equals(b)), bool(b.equals(a)), bool(a.equals(orig)), bool(orig.equals(a)), bool(b.equals(orig))]
            from .. import fingerprint as FP
            fa, fb = FP.fingerprint(a, names=False), FP.fingerprint(b, names=False)
            ex["fp_diff"] = FP.diff(fa, fb)[:3]
            rec = {}
            for k, cst in a.constructs.items():
                nv = getattr(cst, "nc_get_variable", lambda d=None: None)(None)
                if nv is not None:
                    rec[nv] = list(cst.nc_variable_groups())
                if getattr(cst, "has_bounds", lambda: False)():
                    bv = cst.bounds.nc_get_variable(None)
                    if bv is not None:
                        rec[bv] = list(cst.bounds.nc_variable_groups())
            rec[a.nc_get_variable()] = list(a.nc_variable_groups())
            ex["rec_groups"] = rec
            ex["rec_dgroups"] = {da.nc_get_dimension(None): list(da.nc_dimension_groups()) for da in a.domain_axes(todict=True).values()
                                 if da.nc_get_dimension(None) is not None}
            ex["rec_gattrs"] = {k: (None if v is None else str(v)) for k, v in a.nc_group_attributes().items()}
            try:
                C.write(a, grp2)
                gv2, gd2, gg2 = nc_layout(grp2)
                ex["gv2"], ex["gd2"], ex["gg2"] = gv2, gd2, gg2
            except Exception as e:
                ex["rewrite_error"] = repr(e)[:300]
        return out
    finally:
        _rm(flat, grp, grp2)


def canon_place(s):
    """Reference tokens of one variable as a multiset (CF gives `coordinates` tokens and the
    coordinate lists of an extended grid_mapping no order)."""
    s = str(s)
    if not s.startswith("ok "):
        return s
    parts = []
    for part in s[3:].split(";"):
        if "[" in part and part.endswith("]"):
            head, refs = part[:-1].split("[", 1)
            part = head + "[" + ",".join(sorted(x for x in refs.split(",") if x)) + "]"
        parts.append(part)
    return "ok " + ";".join(parts)


def is_prefix(a, b):
    return list(b[:len(a)]) == list(a)


def oracle_place(c):
    p, ex = c.payload, c.extra
    out = str(c.impl_out)
    if out == "skip":
        return None
    if out == "flat-file-has-groups":
        return f"the file written with group=False has groups {ex['flat_groups']}"
    asg = ex["asg"]
    dims, vars_ = ex["dims"], ex["vars"]
    # --- the tree relation decides which layouts are acceptable
    invisible = [(n, dims[i][1]) for gpath, n, dd, refs in vars_ for i in dd if not is_prefix(dims[i][0], gpath)]
    if out == "rejected":
        if not invisible:
            return "the writer refused a layout in which every dimension is in the variable's group or an ancestor: " + ex.get("error", "")
        return None
    if out.startswith("raised") or out.startswith("flatten-raised"):
        return f"{out}: {ex.get('error') or ex.get('flatten_error')}"
    if invisible:
        return f"the writer accepted a layout with an invisible dimension: {invisible[:2]}"
    gv, gd = ex["gv"], ex["gd"]
    # --- placement as netCDF4 sees it: where every variable and dimension is, and which dimensions it has
    for gpath, n, dd, refs in vars_:
        want = enc_path(gpath + [base_of(asg, n)])
        if want not in gv:
            return f"variable {n} is not at {want}"
        wd = [enc_path(dims[i][0] + [base_of(asg, dims[i][1], True)]) for i in dd]
        if gv[want][0] != wd:
            return f"variable {want} has dimensions {gv[want][0]}, the field's are {wd}"
    if len(gv) != len(vars_):
        return f"{len(gv)} variables in the grouped file, {len(vars_)} in the flat file"
    for gpath, n in dims:
        if enc_path(gpath + [base_of(asg, n, True)]) not in gd:
            return f"dimension {n} is not in group {enc_path(gpath)}"
    # --- flattening the grouped file gives the flat file, names mapped back
    want_parts = []
    for gpath, n, dd, refs in vars_:
        rr = []
        for a, k, i in refs:
            if k == "d":
                rr.append("dim:" + enc_path(dims[i][0] + [base_of(asg, dims[i][1], True)]))
            else:
                rr.append("var:" + enc_path(vars_[i][0] + [base_of(asg, vars_[i][1])]))
        want_parts.append(f"{enc_path(gpath + [base_of(asg, n)])}({','.join(enc_path(dims[i][0] + [base_of(asg, dims[i][1], True)]) for i in dd)})[{','.join(rr)}]")
    want = canon_place("ok " + ";".join(want_parts))
    if canon_place(out) != want:
        bad = [(x, y) for x, y in zip(canon_place(out)[3:].split(";"), want[3:].split(";")) if x != y]
        return f"flattening the grouped file does not give the flat file: {bad[:1]}"
    # --- meaning
    if "flat_read_error" in ex:
        return None
    if "read_error" in ex:
        return "cfdm.read failed on the grouped file although it reads the flat one: " + ex["read_error"]
    if ex["n_flat"] != 1:
        # the *flat* file does not come back as the one field that was written (e.g. a grid mapping
        # variable returned as a field of its own): the round trip itself is broken, with or without
        # groups - C01's business, not a statement about groups
        return None
    if ex["n_grp"] != 1:
        return f"read(grouped) gives {ex['n_grp']} fields, read(flat) {ex['n_flat']}"
    eq = ex["eq"]
    if not (eq[0] and eq[1]):
        return f"read(grouped) and read(flat) are not equal: equals {eq[:2]}"
    if eq[4] and not (eq[2] and eq[3]):
        # (a field whose *flat* round trip already differs from the original is C01's business)
        return f"read(grouped) does not equal the original although read(flat) does: equals {eq[2:4]}"
    if ex["fp_diff"]:
        return f"fingerprints of read(grouped) and read(flat) differ: {ex['fp_diff'][:2]}"
    # --- recorded membership
    for gpath, n, dd, refs in vars_:
        nm = enc_path(gpath + [base_of(asg, n)]) if gpath else base_of(asg, n)
        if nm in ex["rec_groups"] and ex["rec_groups"][nm] != list(gpath):
            return f"nc_variable_groups() of {nm} after read is {ex['rec_groups'][nm]}"
    if "rewrite_error" in ex:
        return "writing the grouped read again failed: " + ex["rewrite_error"]
    gv2, gd2 = ex["gv2"], ex["gd2"]
    if {k: v[0] for k, v in gv.items()} != {k: v[0] for k, v in gv2.items()} or set(gd) != set(gd2):
        d = sorted(set(gv) ^ set(gv2)) or sorted(set(gd) ^ set(gd2)) or [k for k in gv if gv[k][0] != gv2[k][0]]
        return f"re-writing the grouped read gives another layout: {d[:3]}"
    ga = {k: {a: v for a, v in d.items() if a != "Conventions"} for k, d in ex["gg"].items() if k != "/"}
    ga2 = {k: {a: v for a, v in d.items() if a != "Conventions"} for k, d in ex["gg2"].items() if k != "/"}
    if {k: sorted(v) for k, v in ga.items()} != {k: sorted(v) for k, v in ga2.items()}:
        return f"re-writing the grouped read gives other group attributes: {ga} -> {ga2}"
    fg = enc_path(asg["vgroup"]["vdata"])
    for a, mode in asg["gattrs"].items():
        if mode != "absent" and fg != "/" and a not in ex["gg"].get(fg, {}):
            return f"group attribute {a} was not written to {fg}"
    return None


def shadow_facts(ex):
    """(some bare reference to a root-group variable is shadowed, some dimension base name is shadowed)."""
    asg = ex["asg"]
    dims, vars_ = ex["dims"], ex["vars"]
    vshadow = dshadow = False
    vbases = [(g, base_of(asg, n)) for g, n, _, _ in vars_]
    dbases = [(g, base_of(asg, n, True)) for g, n in dims]
    for gpath, n, dd, refs in vars_:
        for i in dd:
            dgp, dn = dbases[i]
            for k in range(len(dgp) + 1, len(gpath) + 1):
                if (gpath[:k], dn) in [(list(x), y) for x, y in dbases]:
                    dshadow = True
        for a, kind, i in refs:
            tg, tn = (dbases[i] if kind == "d" else vbases[i])
            if tg:
                continue
            for k in range(1, len(gpath) + 1):
                if (gpath[:k], tn) in [(list(x), y) for x, y in vbases] or (a in ("coordinates", "cell_methods") and (gpath[:k], tn) in [(list(x), y) for x, y in dbases]):
                    vshadow = True
    return vshadow, dshadow


def classify_place(c):
    p, ex = c.payload, c.extra or {}
    msg = str(c.oracle_fail or "")
    asg = ex.get("asg") or {}
    if str(c.impl_out) == "flat-file-has-groups" and asg.get("vgroup", {}).get("gcon") and \
            ex.get("flat_groups") == [enc_path(asg["vgroup"]["gcon"][:k]) for k in range(1, len(asg["vgroup"]["gcon"]) + 1)]:
        return "write-flat-geometry-container-keeps-groups"
    gc = asg.get("vgroup", {}).get("gcon")
    if gc and msg.startswith("re-writing the grouped read gives another layout") and \
            msg.endswith(repr(sorted([enc_path(gc + ["gcon"]), "/" + "__".join(gc + ["gcon"])]))):
        return "read-geometry-container-groups-not-recorded"
    if "dims" in ex:
        vs, ds = shadow_facts(ex)
        if ds:
            return "write-dimension-base-name-shadowed-in-nearer-group"
        if vs:
            return "write-bare-reference-to-root-shadowed-in-nearer-group"
    if "_check_formula_terms" in msg or (False and "KeyError" in msg and "cfdm.read failed" in msg and ex.get("vars") and any(
            a == "formula_terms" for _, _, _, refs in ex["vars"] for a, _, _ in refs) and any(
            g for g, n, _, _ in ex["vars"] if n.endswith("_b"))):
        return "read-formula-terms-bounds-variable-in-group-keyerror"
    for a, val in ex.get("flat_attrs", []):
        toks = val.split()
        keys = [t for t in toks if t.endswith(":")] or toks     # "k: v k: v" form, else list form
        if len(set(keys)) != len(keys):
            return "flatten-repeated-key-in-attribute-collapsed"
    if any(m == "other" for m in asg.get("gattrs", {}).values()) and ("equal" in msg or "fingerprints" in msg):
        return "write-group-attribute-value-replaces-property"
    return "unclassified-place"


def _read(path, payload):
    """cfdm.read with the backend the case asks for (h5netcdf: the flattener then works on h5netcdf objects -
    its own dimension look-up, parent, name and attribute accessors)."""
    C = cfdm()
    if payload.get("h5"):
        return C.read(path, netcdf_backend="h5netcdf")
    return C.read(path)


# ------------------------------------------------------------------ C11.read (oracle only)
ROLES = [("aux", "coordinates"), ("msr", "cell_measures"), ("anc", "ancillary_variables"), ("gm", "grid_mapping")]


def gen_read(rng):
    paths = [[]]
    for _ in range(rng.randint(1, 5)):
        par = rng.choice([q for q in paths if len(q) < 3])
        nm = rng.choice(GNAMES)
        if par + [nm] not in paths:
            paths.append(par + [nm])
    order = list(paths)
    paths = sorted(order, key=lambda q: [order.index(q[:i + 1]) for i in range(len(q))])
    at = rng.choice(paths)
    roles = {}
    for role, attr in ROLES:
        if rng.random() < 0.75:
            base = role + "1"
            where = [rng.choice(paths)]
            for _ in range(rng.randint(0, 2)):          # decoys of the same base name elsewhere
                q = rng.choice(paths)
                if q not in where:
                    where.append(q)
            roles[role] = dict(base=base, where=where, style=rng.choice(["abs", "rel", "prox", "prox"]))
    zdim = None
    if rng.random() < 0.6:
        # a third dimension `z` defined in an enclosing group of the data variable (the local apex), its
        # coordinate variable z(z) in that group, nearer to the data variable (proximal), or in another
        # branch below the apex (lateral; a group of its own so that it is the only candidate)
        xg = at[:rng.randint(0, len(at))]
        kind = rng.choice(["same", "proximal", "lateral"])
        if kind == "proximal" and len(at) > len(xg):
            cv = at[:rng.randint(len(xg) + 1, len(at))]
        elif kind == "lateral" and len(xg) < 3:
            cv = xg + ["zz"]
            if cv not in paths:
                paths.append(cv)
        else:
            cv = list(xg)
        zdim = dict(xg=xg, cv=cv)
    return dict(paths=paths, at=at, roles=roles, zdim=zdim, h5=rng.random() < 0.25)


def read_groups(p):
    """The tree of a read case in the vocabulary of the oracle (all variables span root dimensions)."""
    groups = []
    for q in p["paths"]:
        vs = []
        for role, r in sorted(p["roles"].items()):
            if q in r["where"]:
                vs.append(dict(name=r["base"], dims=[] if role == "gm" else ["x"]))
        groups.append(dict(path=q, dims=["x", "y"] if not q else [], vars=vs))
    return groups


def rel_path(at, tgt, name):
    k = 0
    while k < min(len(at), len(tgt)) and at[k] == tgt[k]:
        k += 1
    ups, down = len(at) - k, tgt[k:]
    if ups == 0 and not down:
        return None
    return "../" * ups + "/".join(down + [name])


def read_tokens(p):
    """Token per role, and the element CF designates for it (None: role not used)."""
    groups = read_groups(p)
    root = otree(groups)
    out = {}
    for role, attr in ROLES:
        r = p["roles"].get(role)
        if r is None:
            continue
        tgt = r["where"][0]
        tok = None
        if r["style"] == "rel":
            tok = rel_path(p["at"], tgt, r["base"])
        elif r["style"] == "prox":
            tok = r["base"]
        if tok is None or o_resolve(root, p["at"], attr, tok, None) is None:
            tok = enc_path(tgt + [r["base"]])
        el = o_resolve(root, p["at"], attr, tok, None)
        out[role] = (tok, el)
    return out


def mk_read(p):
    p = dict(p)
    toks = read_tokens(p)
    styles = sorted({("abs" if t.startswith("/") else ("rel" if "/" in t else "prox")) for t, _ in toks.values()})
    key = json.dumps(p, sort_keys=True)
    z = p.get("zdim")
    zt = "none" if not z else ("same" if z["cv"] == z["xg"] else ("proximal" if z["cv"] == p["at"][:len(z["cv"])] else "lateral"))
    return Case("C11.read", p, None, key=key, nontrivial=(bool(toks) or bool(z)) and len(p["paths"]) > 1,
                tags=["read:styles=" + "+".join(styles), f"read:depth={max(len(q) for q in p['paths'])}", "read:coordvar=" + zt,
                      f"read:h5netcdf={int(bool(p.get('h5')))}"])


def impl_read(c):
    import netCDF4
    C = cfdm()
    p = c.payload
    toks = read_tokens(p)
    path = tmpfile("read")
    try:
        nc = netCDF4.Dataset(path, "w", format="NETCDF4")
        nc.Conventions = "CF-1.11"
        nc.createDimension("x", 4)
        nc.createDimension("y", 3)
        handles = {(): nc}
        for q in p["paths"]:
            if q:
                handles[tuple(q)] = handles[tuple(q[:-1])].createGroup(q[-1])
        for role, r in sorted(p["roles"].items()):
            for i, q in enumerate(r["where"]):
                h = handles[tuple(q)]
                if role == "gm":
                    v = h.createVariable(r["base"], "i4", ())
                    v.grid_mapping_name = "latitude_longitude"
                    v.earth_radius = 6371000.0 + i
                else:
                    v = h.createVariable(r["base"], "f8", ("x",))
                    v[:] = np.arange(4.0) + 10 * i
                    v.long_name = enc_path(q + [r["base"]])
                    if role == "msr":
                        v.units = "m2"
        h = handles[tuple(p["at"])]
        z = p.get("zdim")
        if z:
            handles[tuple(z["xg"])].createDimension("z", 2)
            zv = handles[tuple(z["cv"])].createVariable("z", "f8", ("z",))
            zv[:] = [10.0, 20.0]
            zv.standard_name = "height"
            zv.units = "m"
            zv.long_name = enc_path(z["cv"] + ["z"])
        for n in ("x", "y"):
            v = nc.createVariable(n, "f8", (n,)) if n not in nc.variables else nc.variables[n]
            v[:] = np.arange(len(nc.dimensions[n]), dtype="f8")
            v.standard_name = {"x": "longitude", "y": "latitude"}[n]
            v.units = {"x": "degrees_east", "y": "degrees_north"}[n]
        if z:
            d = h.createVariable("data", "f8", ("z", "y", "x"))
            d[:] = np.arange(24.0).reshape(2, 3, 4)
        else:
            d = h.createVariable("data", "f8", ("y", "x"))
            d[:] = np.arange(12.0).reshape(3, 4)
        d.standard_name = "air_temperature"
        d.units = "K"
        for role, attr in ROLES:
            if role in toks:
                t = toks[role][0]
                d.setncattr(attr, f"area: {t}" if role == "msr" else t)
        nc.close()
        fs = _read(path, p)
        fs = [f for f in fs if f.get_property("standard_name", None) == "air_temperature"]
        if len(fs) != 1:
            return f"fields={len(fs)}"
        f = fs[0]
        out = {}
        aux = [a.get_property("long_name", "?") for a in f.auxiliary_coordinates(todict=True).values()]
        msr = [a.get_property("long_name", "?") for a in f.cell_measures(todict=True).values()]
        anc = [a.get_property("long_name", "?") for a in f.field_ancillaries(todict=True).values()]
        gm = [a.nc_get_variable("?") for a in f.coordinate_references(todict=True).values()]
        gm = [x if x.startswith("/") else "/" + x for x in gm]
        dimz = "-"
        if z:
            zs = [c.get_property("long_name", "?") for c in f.dimension_coordinates(todict=True).values()
                  if c.get_property("standard_name", None) == "height"]
            dimz = zs[0] if len(zs) == 1 else ("none" if not zs else "several")
        return (f"aux={sorted(aux)} msr={sorted(msr)} anc={sorted(anc)} gm={sorted(gm)}".replace(" '", "'").replace("', '", "','")
                + f" dimz={dimz}")
    finally:
        _rm(path)


def oracle_read(c):
    p = c.payload
    toks = read_tokens(p)
    want = {}
    for role, _ in ROLES:
        want[role] = []
        if role in toks:
            el = toks[role][1]
            want[role] = [enc_path(el[1] + [el[2]])]
    w = f"aux={sorted(want['aux'])} msr={sorted(want['msr'])} anc={sorted(want['anc'])} gm={sorted(want['gm'])}".replace(" '", "'").replace("', '", "','")
    z = p.get("zdim")
    # the coordinate variable of dimension z: proximal search between the data variable and the local
    # apex (the dimension's group), else lateral search below the apex - by construction one candidate
    w += " dimz=" + (enc_path(z["cv"] + ["z"]) if z else "-")
    if str(c.impl_out) != w:
        return f"constructs came from {c.impl_out}, the CF search rules designate {w} (tokens { {k: v[0] for k, v in toks.items()} })"
    return None


# ------------------------------------------------------------------ C11.cv
def _preorder(paths):
    order = list(paths)
    return sorted(order, key=lambda q: [order.index(q[:i + 1]) for i in range(len(q))])


def gen_cv(rng):
    paths = [[]]
    for _ in range(rng.randint(2, 7)):
        par = rng.choice([q for q in paths if len(q) < 3])
        nm = rng.choice(GNAMES)
        if par + [nm] not in paths:
            paths.append(par + [nm])
    # a data variable with room above it, most of the time
    deep = [q for q in paths if len(q) >= 2] or paths
    fg = rng.choice(deep if rng.random() < 0.7 else paths)
    for extra in ([fg + ["k"]] if len(fg) < 3 and rng.random() < 0.4 else []):
        paths.append(extra)                              # something below the data variable too
    paths = _preorder(paths)
    dg = fg[:rng.randint(0, len(fg))] if rng.random() < 0.8 else []
    below = [q for q in paths if q[:len(dg)] == dg]
    cands = []
    for q in below:
        on_path = fg[:len(q)] == q
        pr = 0.55 if (on_path and q != dg) else (0.3 if q == dg else 0.3)
        if rng.random() < pr:
            cands.append(q)
    decoys = []
    for q in paths:
        if q not in cands and q != dg and rng.random() < 0.25:
            # (a variable of another name spanning the dimension needs the dimension in scope)
            decoys.append([q, rng.choice(["othername", "otherdim"]) if q[:len(dg)] == dg else "otherdim"])
    p = dict(paths=paths, fg=fg, dg=dg, cands=cands, decoys=decoys, h5=rng.random() < 0.25)
    r = rng.random()
    if r < 0.13:
        # a group name with a character that is special in regular expressions (legal in netCDF), or - rarely - so
        # long that the flattened names of the variables below it exceed 255 characters and are hashed
        used = sorted({x for q in paths for x in q})
        if used:
            old = rng.choice(used)
            new = rng.choice(CV_ODD) if r < 0.1 else "L" * 140 + old
            ren = lambda q: [new if x == old else x for x in q]
            p = dict(paths=[ren(q) for q in paths], fg=ren(fg), dg=ren(dg), cands=[ren(q) for q in cands],
                     decoys=[[ren(q), k] for q, k in decoys], h5=p["h5"])
    return p


CV_ODD = ["a+b", "c(d", "m*", "x.y", "g[1]", "k-2"]
CV_SPECIAL = set("+*?()[]{}|^$\\")


def cv_name_kind(p):
    names = {x for q in p["paths"] for x in q}
    if any(len(x) > 100 for x in names):
        return "long"
    if any(CV_SPECIAL & set(x) for x in names):
        return "regex"
    return "odd" if any(x in CV_ODD for x in names) else "plain"


def mk_cv(p):
    p = dict(p)
    cs = ";".join(enc_path(q) for q in p["cands"]) or "-"
    line = f"C11.cv fg={enc_path(p['fg'])} dg={enc_path(p['dg'])} apex={int(p['dg'] in p['cands'])} cs={cs} old=0"
    fg, dg = p["fg"], p["dg"]
    above = sum(1 for q in p["cands"] if fg[:len(q)] == q)
    tags = [f"cv:proximal-candidates={min(above, 3)}", f"cv:lateral-candidates={min(len(p['cands']) - above, 3)}",
            f"cv:apexvar={int(dg in p['cands'])}", f"cv:dimdepth={len(dg)}", "cv:names=" + cv_name_kind(p), f"cv:h5netcdf={int(bool(p.get('h5')))}"]
    return Case("C11.cv", p, line, key=line + json.dumps(p["decoys"]) + str(bool(p.get("h5"))), nontrivial=len(p["cands"]) >= 1 and len(fg) >= 1, tags=tags)


def impl_cv(c):
    import netCDF4
    C = cfdm()
    p = c.payload
    path = tmpfile("cv")
    try:
        nc = netCDF4.Dataset(path, "w", format="NETCDF4")
        nc.Conventions = "CF-1.11"
        handles = {(): nc}
        for q in p["paths"]:
            if q:
                handles[tuple(q)] = handles[tuple(q[:-1])].createGroup(q[-1])
        nc.createDimension("lon", 4)
        v = nc.createVariable("lon", "f8", ("lon",))
        v[:] = [0.0, 90.0, 180.0, 270.0]
        v.standard_name = "longitude"
        v.units = "degrees_east"
        nc.createDimension("other", 3)
        handles[tuple(p["dg"])].createDimension("lat", 3)
        for i, q in enumerate(p["cands"]):
            v = handles[tuple(q)].createVariable("lat", "f8", ("lat",))
            v[:] = np.array([-10.0, 0.0, 10.0]) * (i + 1)
            v.standard_name = "latitude"
            v.units = "degrees_north"
            v.long_name = enc_path(q)
        for q, kind in p["decoys"]:
            if kind == "othername":
                v = handles[tuple(q)].createVariable("latx", "f8", ("lat",))
                v.long_name = "decoy " + enc_path(q)
            else:
                v = handles[tuple(q)].createVariable("lat", "f8", ("other",))
                v.long_name = "decoy " + enc_path(q)
            v[:] = [7.0, 8.0, 9.0]
        d = handles[tuple(p["fg"])].createVariable("data", "f8", ("lat", "lon"))
        d[:] = np.arange(12.0).reshape(3, 4)
        d.standard_name = "air_temperature"
        d.units = "K"
        nc.close()
        try:
            fs = [f for f in _read(path, p) if f.get_property("standard_name", None) == "air_temperature"]
        except Exception as e:
            c.extra = dict(error=repr(e)[:300])
            return "raised:" + (fw.exc_enum(e) if not type(e).__name__ == "error" else "re.error")
        if len(fs) != 1:
            return f"fields={len(fs)}"
        f = fs[0]
        got = [x.get_property("long_name", "?") for x in f.dimension_coordinates(todict=True).values()
               if x.get_property("standard_name", None) == "latitude"]
        lon = [x for x in f.dimension_coordinates(todict=True).values() if x.get_property("standard_name", None) == "longitude"]
        c.extra = dict(nlon=len(lon), shape=list(f.data.shape))
        if not got:
            return "none"
        return "some:" + got[0] if len(got) == 1 else "several"
    finally:
        _rm(path)


def cv_designated(p):
    """CF 2.7.1: nearest same-named variable from the data variable's group up to the local apex (the
    dimension's group); else the one strictly nearest to the apex among the others; else none."""
    fg, dg, cands = p["fg"], p["dg"], p["cands"]
    for k in range(len(fg), len(dg) - 1, -1):
        if fg[:k] in cands:
            return fg[:k]
    rest = sorted(cands, key=len)
    if rest and (len(rest) == 1 or len(rest[0]) < len(rest[1])):
        return rest[0]
    return None


def oracle_cv(c):
    p = c.payload
    q = cv_designated(p)
    want = "none" if q is None else "some:" + enc_path(q)
    if str(c.impl_out) != want:
        return (f"dimension coordinate of {enc_path(p['fg'] + ['data'])} for dimension {enc_path(p['dg'] + ['lat'])} came from "
                f"{c.impl_out}, CF proximal/lateral search among {[enc_path(x) for x in p['cands']]} gives {want}")
    if isinstance(c.extra, dict) and (c.extra.get("nlon") != 1 or c.extra.get("shape") != [3, 4]):
        return "the field lost its longitude coordinate or its shape"
    return None


def classify_cv(c):
    p = c.payload
    fg, dg, cands = p["fg"], p["dg"], p["cands"]
    kind = cv_name_kind(p)
    if kind == "long" and str(c.impl_out).startswith("raised:IndexError"):
        return "read-hashed-flattened-name-hdf5-chunks-indexerror"
    if kind in ("long", "regex"):
        return "read-basename-from-flattened-name-regex"
    if dg in cands and any(fg[:len(q)] == q and len(q) > len(dg) for q in cands) and str(c.impl_out) == "some:" + enc_path(dg):
        return "read-coordinate-variable-same-group-shortcut-overrides-nearer"
    return "unclassified-cv"


# ------------------------------------------------------------------ C11.gattr
DESC_ATTRS = ["comment", "history", "title", "institution", "source", "references"]   # description of file contents
GA_POOL = [("project", "research"), ("foo", "bar"), ("experiment_id", "run-42"), ("comment", "made_by_verif"),
           ("history", "h1"), ("title", "t1")]


def gen_gattr(rng):
    depth = rng.choice([0, 0, 1, 1, 2])
    grp = [rng.choice(GP) for _ in range(depth)]
    props, ga = {}, {}
    for a, v in rng.sample(GA_POOL, rng.randint(1, 4)):
        mode = rng.choice(["plain", "none", "none", "same", "other", "absent"])
        if mode != "absent":
            props[a] = v
        if mode == "none":
            ga[a] = None
        elif mode == "same":
            ga[a] = v
        elif mode in ("other", "absent"):
            ga[a] = v + "_group"
    # a file format without groups (netCDF3, netCDF4 classic model): the field is written as with group=False
    fmt = rng.choice(CLASSIC_FMTS) if rng.random() < 0.12 else "NETCDF4"
    return dict(grp=grp, props=props, ga=ga, fmt=fmt)


CLASSIC_FMTS = ["NETCDF3_CLASSIC", "NETCDF3_64BIT_OFFSET", "NETCDF4_CLASSIC"]


def gattr_grp(p):
    """The group the data variable ends up in."""
    return p["grp"] if p.get("fmt", "NETCDF4") == "NETCDF4" else []


def mk_gattr(p):
    p = dict(p)
    props = ",".join(f"{a}>{v}" for a, v in p["props"].items()) or "-"
    ga = ",".join(f"{a}>{'-' if v is None else v}" for a, v in p["ga"].items()) or "-"
    line = f"C11.gattr grp={enc_path(gattr_grp(p))} glob={','.join(DESC_ATTRS)} props={props} ga={ga}"
    modes = sorted({("none" if v is None else ("absent" if a not in p["props"] else ("same" if p["props"][a] == v else "other")))
                    for a, v in p["ga"].items()})
    return Case("C11.gattr", p, line, key=line + p.get("fmt", ""), nontrivial=bool(p["ga"]),
                tags=[f"gattr:depth={len(p['grp'])}", "gattr:modes=" + "+".join(modes or ["-"]),
                      "gattr:fmt=" + ("NETCDF4" if p.get("fmt", "NETCDF4") == "NETCDF4" else "classic")])


def _small_field():
    C = cfdm()
    f = C.Field(properties={"standard_name": "air_temperature", "units": "K"})
    a = f.set_construct(C.DomainAxis(3))
    f.set_data(C.Data(np.array([1.0, 2.0, 3.0])), axes=[a])
    f.nc_set_variable("q")
    return f


def _fmt_pairs(d):
    return "[" + ",".join(f"{a}>{d[a]}" for a in sorted(d)) + "]"


def impl_gattr(c):
    import netCDF4
    C = cfdm()
    p = c.payload
    f = _small_field()
    f.set_properties(p["props"])
    f.nc_set_variable_groups(p["grp"])
    f.nc_set_group_attributes(dict(p["ga"]))
    path, path2 = tmpfile("ga"), tmpfile("ga2")
    names = [a for a, _ in GA_POOL]

    egrp = gattr_grp(p)
    fmt = p.get("fmt", "NETCDF4")

    def look(fn):
        nc = netCDF4.Dataset(fn, "r")
        try:
            g = nc
            for x in egrp:
                g = g.groups[x]
            v = g.variables["q"]
            return ({a: str(nc.getncattr(a)) for a in nc.ncattrs() if a in names},
                    {a: str(g.getncattr(a)) for a in g.ncattrs() if a in names} if egrp else {},
                    {a: str(v.getncattr(a)) for a in v.ncattrs() if a in names})
        finally:
            nc.close()

    try:
        try:
            C.write(f, path, fmt=fmt)
        except RuntimeError as e:
            c.extra = dict(error=str(e)[:200])
            return "raised:RuntimeError"
        glob, grp, var = look(path)
        out = f"glob={_fmt_pairs(glob)} grp={_fmt_pairs(grp)} var={_fmt_pairs(var)}"
        ex = dict()
        c.extra = ex
        h = C.read(path)
        ex["n"] = len(h)
        if len(h) == 1:
            h = h[0]
            ex["props"] = {a: (None if h.get_property(a, None) is None else str(h.get_property(a))) for a in names}
            ex["eq"] = [bool(h.equals(f)), bool(f.equals(h))]
            ex["rec_groups"] = list(h.nc_variable_groups())
            ex["rec_ga"] = sorted(h.nc_group_attributes())
            try:
                C.write(h, path2, fmt=fmt)
                ex["again"] = [_fmt_pairs(x) for x in look(path2)]
                ex["first"] = [_fmt_pairs(x) for x in (glob, grp, var)]
            except Exception as e:
                ex["rewrite_error"] = repr(e)[:200]
        return out
    finally:
        _rm(path, path2)


def oracle_gattr(c):
    p, ex = c.payload, c.extra
    if str(c.impl_out).startswith("raised") or not isinstance(ex, dict) or "n" not in ex:
        return f"cfdm.write(fmt={p.get('fmt', 'NETCDF4')!r}) / cfdm.read failed: {c.impl_out} {(ex or {}).get('error', '') if isinstance(ex, dict) else ''}"
    if ex.get("n") != 1:
        return f"{ex.get('n')} fields read back"
    for a, _ in GA_POOL:
        if ex["props"].get(a) != p["props"].get(a):
            return (f"property {a!r} is {ex['props'].get(a)!r} after the round trip (data variable at depth {len(p['grp'])}, "
                    f"group attribute record {p['ga'].get(a, 'absent')!r}), the original has {p['props'].get(a)!r}")
    if not all(ex["eq"]):
        return f"the field read back does not equal the original: equals {ex['eq']}"
    if ex["rec_groups"] != gattr_grp(p):
        return f"recorded groups {ex['rec_groups']}"
    if "rewrite_error" in ex:
        return "writing the read field again failed: " + ex["rewrite_error"]
    if ex["again"] != ex["first"]:
        return f"re-writing the read field gives other attributes: {ex['first']} -> {ex['again']}"
    if gattr_grp(p):
        # a group attribute record on a property of the field ends up on the group
        g = str(c.impl_out).split(" ")[1]
        for a, v in p["ga"].items():
            if a in p["props"] and f"{a}>" not in g:
                return f"group attribute {a} was not written to {enc_path(p['grp'])}"
    return None


# ------------------------------------------------------------------ C11.multi
# Several fields written by ONE cfdm.write call: group membership, the groups of the dataset, the
# attributes of every group, and every field's properties after the round trip.
MULTI_POOL = [("project", ["research", "ops"]), ("foo", ["bar", "baz"]), ("experiment_id", ["run-42", "run-43"]),
              ("comment", ["made_by_verif", "other_comment"]), ("history", ["h1", "h2"]), ("title", ["t1", "t2"])]
MULTI_NAMES = [a for a, _ in MULTI_POOL]


def gen_multi(rng):
    n = rng.choice([1, 2, 2, 3, 3, 3, 4])
    # a small family of group paths: a spine (so that groups are nested), siblings, the root
    spine = [rng.choice(GP) for _ in range(rng.randint(1, 3))]
    pool = [spine[:k] for k in range(1, len(spine) + 1)]
    for _ in range(rng.randint(1, 3)):
        q = [rng.choice(GP + ["h0", "obs"]) for _ in range(rng.randint(1, 2))]
        if q not in pool:
            pool.append(q)
    names = [a for a, _ in rng.sample(MULTI_POOL, rng.randint(1, 4))]
    # "agree": the fields of one top-level group family share their property values, every field has every
    # property and no group attribute has a value of its own that differs from the property - the ordinary use;
    # "wild": anything (this is where the open several-fields finding lives)
    agree = rng.random() < 0.72
    fields = []
    for i in range(n):
        r = rng.random()
        grp = [] if r < 0.12 else (fields[-1]["grp"] if fields and r < 0.3 else rng.choice(pool))
        props, ga = {}, {}
        for a in names:
            vals = dict(MULTI_POOL)[a]
            if agree:
                mode = rng.choice(["plain", "none", "none", "same"])
                v = vals[(GP + ["h0", "obs"]).index(grp[0]) % 2] if grp else vals[0]
            else:
                mode = rng.choice(["plain", "plain", "none", "none", "none", "same", "other", "absent", "lacks"])
                v = vals[0] if rng.random() < 0.7 else vals[1]
            if mode == "lacks":
                continue
            if mode != "absent":
                props[a] = v
            if mode == "none":
                ga[a] = None
            elif mode == "same":
                ga[a] = v
            elif mode in ("other", "absent"):
                ga[a] = v + "_group"
        fields.append(dict(grp=list(grp), props=props, ga=ga, dimgrp=rng.randint(0, len(grp)) if rng.random() < 0.3 else 0))
    return dict(fields=fields)


def _multi_field(i, fd):
    C = cfdm()
    f = C.Field(properties={"standard_name": "air_temperature", "units": "K", "long_name": f"field {i}"})
    a = f.set_construct(C.DomainAxis(2 + i))
    f.set_data(C.Data(np.arange(2.0 + i) + 10 * i), axes=[a])
    f.nc_set_variable(f"q{i}")
    f.domain_axes(todict=True)[a].nc_set_dimension(f"d{i}")
    if fd.get("dimgrp"):
        f.domain_axes(todict=True)[a].nc_set_dimension_groups(fd["grp"][:fd["dimgrp"]])
    f.set_properties(fd["props"])
    f.nc_set_variable_groups(fd["grp"])
    f.nc_set_group_attributes(dict(fd["ga"]))
    return f


def _enc_kv(d, none="-"):
    return ",".join(f"{a}>{none if v is None else v}" for a, v in d.items()) or "-"


def mk_multi(p):
    p = dict(p)
    fs = ";".join(f"{enc_path(fd['grp'])}|q{i}|{_enc_kv(fd['props'])}|{_enc_kv(fd['ga'])}" for i, fd in enumerate(p["fields"]))
    line = f"C11.multi glob={','.join(DESC_ATTRS)} fields={fs} old=0"
    groups = [tuple(fd["grp"]) for fd in p["fields"]]
    nonroot = [g for g in groups if g]
    distinct = list(dict.fromkeys(nonroot))
    nested = any(a != b and b[:len(a)] == a for a in distinct for b in distinct)
    later_ga = any(fd["ga"] and fd["grp"] and distinct.index(tuple(fd["grp"])) >= 1 for fd in p["fields"])
    tags = [f"multi:fields={len(groups)}", f"multi:distinct-groups={min(len(distinct), 3)}", f"multi:nested={int(nested)}",
            f"multi:shared-group={int(len(nonroot) != len(distinct))}", f"multi:ga-on-later-group={int(later_ga)}"]
    return Case("C11.multi", p, line, key=line, nontrivial=len(distinct) >= 1 and any(fd["ga"] for fd in p["fields"]), tags=tags)


def _multi_layout(fn):
    """(groups, {group: attrs in the pool}, {variable path: attrs in the pool}, global attrs in the pool)."""
    import netCDF4
    nc = netCDF4.Dataset(fn, "r")
    try:
        groups, gattrs, variables = [], {}, {}

        def gp(g):
            return [] if g.parent is None else [x for x in g.path.split("/") if x]

        def walk(g):
            here = gp(g)
            groups.append(enc_path(here))
            if here:
                gattrs[enc_path(here)] = {a: str(g.getncattr(a)) for a in g.ncattrs()}
            for n, v in g.variables.items():
                if n.startswith("q"):
                    variables[enc_path(here + [n])] = {a: str(v.getncattr(a)) for a in v.ncattrs() if a in MULTI_NAMES}
            for c in g.groups.values():
                walk(c)

        walk(nc)
        glob = {a: str(nc.getncattr(a)) for a in nc.ncattrs() if a in MULTI_NAMES}
        return groups, gattrs, variables, glob
    finally:
        nc.close()


def _fmt_multi(layout):
    groups, gattrs, variables, glob = layout
    return (f"groups=[{';'.join(sorted(groups))}] gattrs=[{';'.join(sorted(k + ':' + _fmt_pairs(v) for k, v in gattrs.items()))}] "
            f"glob={_fmt_pairs(glob)} vars=[{';'.join(sorted(k + ':' + _fmt_pairs(v) for k, v in variables.items()))}]")


def impl_multi(c):
    C = cfdm()
    p = c.payload
    fields = [_multi_field(i, fd) for i, fd in enumerate(p["fields"])]
    grp, flat, grp2 = tmpfile("mg"), tmpfile("mf"), tmpfile("mg2")
    ex = dict()
    c.extra = ex
    try:
        try:
            C.write(fields, grp)
        except Exception as e:
            ex["error"] = repr(e)[:300]
            return "raised:" + fw.exc_enum(e)
        lay = _multi_layout(grp)
        ex["layout"] = lay
        out = _fmt_multi(lay)
        C.write(fields, flat, group=False)

        def by_var(fl):
            return {f.nc_get_variable().split("/")[-1]: f for f in fl}

        try:
            G, F = C.read(grp), C.read(flat)
        except Exception as e:
            ex["read_error"] = repr(e)[:300]
            return out
        ex["n"] = [len(G), len(F)]
        Gd, Fd = by_var(G), by_var(F)
        per = {}
        for i, f in enumerate(fields):
            k = f"q{i}"
            g, h = Gd.get(k), Fd.get(k)
            if g is None or h is None:
                per[k] = None
                continue
            per[k] = dict(
                props={a: (None if g.get_property(a, None) is None else str(g.get_property(a))) for a in MULTI_NAMES},
                flat_props={a: (None if h.get_property(a, None) is None else str(h.get_property(a))) for a in MULTI_NAMES},
                eq=[bool(g.equals(f)), bool(f.equals(g)), bool(g.equals(h)), bool(h.equals(g)), bool(h.equals(f))],
                groups=list(g.nc_variable_groups()),
                rec_ga={a: (None if v is None else str(v)) for a, v in g.nc_group_attributes().items()})
        ex["per"] = per
        try:
            again = [Gd[f"q{i}"] for i in range(len(fields)) if f"q{i}" in Gd]
            C.write(again, grp2)
            ex["layout2"] = _multi_layout(grp2)
        except Exception as e:
            ex["rewrite_error"] = repr(e)[:300]
        return out
    finally:
        _rm(grp, flat, grp2)


def _effective(gattrs, grp):
    """The attributes a variable in group `grp` inherits: sub-groups supersede their parents."""
    out = {}
    for k in range(1, len(grp) + 1):
        out.update(gattrs.get(enc_path(grp[:k]), {}))
    return out


def oracle_multi(c):
    p, ex = c.payload, c.extra
    if not isinstance(ex, dict) or str(c.impl_out).startswith("raised"):
        return f"cfdm.write of {len(p['fields'])} fields failed: {c.impl_out} {(ex or {}).get('error', '') if isinstance(ex, dict) else ''}"
    groups, gattrs, variables, glob = ex["layout"]
    # --- the groups of the dataset: the root, and the group of every field with its ancestors
    want_groups = {"/"}
    for fd in p["fields"]:
        for k in range(1, len(fd["grp"]) + 1):
            want_groups.add(enc_path(fd["grp"][:k]))
    if set(groups) != want_groups or len(groups) != len(set(groups)):
        return f"groups in the dataset {sorted(groups)}, the fields live in {sorted(want_groups)}"
    # --- every data variable is in its group
    for i, fd in enumerate(p["fields"]):
        if enc_path(fd["grp"] + [f"q{i}"]) not in variables:
            return f"data variable q{i} is not in group {enc_path(fd['grp'])}"
    # --- a group attribute sits in the group of a field that records it
    for q, attrs in gattrs.items():
        for a in attrs:
            if not any(enc_path(fd["grp"]) == q and a in fd["ga"] for fd in p["fields"]):
                return f"group {q} carries attribute {a!r} that no field of that group records as a group attribute"
    if "read_error" in ex:
        return "cfdm.read failed: " + ex["read_error"]
    if ex["n"][0] != len(p["fields"]) or ex["n"][1] != len(p["fields"]):
        return f"{ex['n'][0]} fields read from the grouped file, {ex['n'][1]} from the flat file, {len(p['fields'])} written"
    # --- meaning
    for i, fd in enumerate(p["fields"]):
        r = ex["per"].get(f"q{i}")
        if r is None:
            return f"field q{i} did not come back"
        for a in MULTI_NAMES:
            if r["props"].get(a) != fd["props"].get(a):
                return (f"q{i} in {enc_path(fd['grp'])}: property {a!r} is {r['props'].get(a)!r} after the grouped round trip, "
                        f"the original has {fd['props'].get(a)!r} (flat file: {r['flat_props'].get(a)!r})")
        if not all(r["eq"]):
            return f"q{i}: equals [grouped=orig, orig=grouped, grouped=flat, flat=grouped, flat=orig] = {r['eq']}"
        if r["groups"] != fd["grp"]:
            return f"q{i}: recorded groups {r['groups']}"
        # recorded group attributes: what the variable inherits
        eff = _effective(gattrs, fd["grp"])
        if set(r["rec_ga"]) != set(eff):
            return f"q{i}: nc_group_attributes() after read {sorted(r['rec_ga'])}, its groups carry {sorted(eff)}"
    # --- writing what was read again
    if "rewrite_error" in ex:
        return "writing the fields read from the grouped file failed: " + ex["rewrite_error"]
    g2, ga2, v2, glob2 = ex["layout2"]
    if set(g2) != set(groups) or set(v2) != set(variables):
        return f"re-writing gives another group membership: groups {sorted(g2)}, variables {sorted(v2)}"
    for i, fd in enumerate(p["fields"]):
        if _effective(ga2, fd["grp"]) != _effective(gattrs, fd["grp"]):
            return (f"re-writing changes the group attributes q{i} inherits: {_effective(gattrs, fd['grp'])} -> "
                    f"{_effective(ga2, fd['grp'])}")
    if ga2 != gattrs:
        return f"re-writing gives other group attributes: {gattrs} -> {ga2}"
    return None


def classify_multi(c):
    msg = str(c.oracle_fail or "")
    if msg.startswith("re-writing gives other group attributes"):
        # the reader records, for every field, the attributes of ALL its enclosing groups in one dictionary;
        # written again they all go to the field's own group
        p, ex = c.payload, c.extra
        gattrs = ex["layout"][1]
        for fd in p["fields"]:
            if any(gattrs.get(enc_path(fd["grp"][:k])) for k in range(1, len(fd["grp"]))):
                return "rewrite-copies-ancestor-group-attribute-into-subgroup"
        return "unclassified-multi"
    if c.line is not None and fw.EXE.exists() and ("property" in msg or "equals" in msg or "carries" in msg or "inherits" in msg):
        # the writer as it stands: the observed dataset is exactly what the model of the unpatched
        # `_write_group_attributes` / `omit` predicts, and the patched model predicts something else
        try:
            old = fw.model_run([c.line[:-len("old=0")] + "old=1"])[0]
            new = fw.model_run([c.line])[0]
        except Exception:
            return "unclassified-multi"
        if str(c.impl_out) == old and old != new and len(c.payload["fields"]) >= 2:
            return "write-group-attributes-of-several-fields-change-properties"
    return "unclassified-multi"


# ------------------------------------------------------------------ C11.self (oracle only)
# "Self-contained groups": hand-made CF files in which the data variables of several groups use the SAME
# bare name / relative path for their coordinates, bounds, ancillary variables, cell measures, grid
# mapping and cell-method scalar coordinates, and every group (or an ancestor of it, or a sub-group)
# has its own variable of that name.  The harness resolves every reference with its own reading of the
# CF search rules and writes an equivalent FLAT file (netCDF4 only, unique names); cfdm.read of the
# grouped file must equal cfdm.read of the flat one.
SELF_ROLES = [("lat", "coordinates"), ("height", "coordinates"), ("flag", "ancillary_variables"),
              ("area", "cell_measures"), ("crs", "grid_mapping")]


def gen_self(rng):
    paths = [[]]
    for _ in range(rng.randint(2, 6)):
        par = rng.choice([q for q in paths if len(q) < 3])
        nm = rng.choice(["north", "south", "tropics", "deep", "a"])
        if par + [nm] not in paths:
            paths.append(par + [nm])
    paths = _preorder(paths)
    nonroot = [q for q in paths if q]
    regions = rng.sample(nonroot, min(len(nonroot), rng.randint(2, 4)))
    if rng.random() < 0.15:
        regions.append([])                    # a data variable in the root group as well
    plan = []
    for at in regions:
        roles = {}
        for role, attr in SELF_ROLES:
            if rng.random() < (0.85 if role in ("lat", "flag") else 0.55):
                r = rng.random()
                up = 0 if r < 0.6 else rng.randint(0, len(at))      # owner: the region's group or an ancestor
                sub = role in ("area", "flag", "crs") and rng.random() < 0.35
                style = rng.choice(["bare", "bare", "bare", "rel", "abs"]) if not sub else rng.choice(["rel", "rel", "abs"])
                roles[role] = dict(up=up, sub=sub, style=style)
        plan.append(dict(at=at, roles=roles, cm=rng.random() < 0.5, bounds=rng.random() < 0.6))
    return dict(paths=paths, plan=plan, h5=rng.random() < 0.25)


def self_build(p):
    """-> (groups in the oracle's vocabulary, variables {(path, name): spec}, data variables [(path, spec)])."""
    paths = [list(q) for q in p["paths"]]
    for r in p["plan"]:
        for role, d in r["roles"].items():
            owner = r["at"][:len(r["at"]) - d["up"]]
            if d["sub"]:
                owner = owner + ["grid"]
            if owner not in paths:
                paths.append(owner)
    paths = _preorder(paths)
    V = collections.OrderedDict()       # (tuple(path), name) -> dict(role, dims, attrs)
    for r in p["plan"]:
        for role, d in sorted(r["roles"].items()):
            owner = r["at"][:len(r["at"]) - d["up"]]
            if d["sub"]:
                owner = owner + ["grid"]
            key = (tuple(owner), role)
            if key not in V:
                V[key] = dict(role=role, dims=[] if role in ("crs", "height") else ["x"], bounds=False)
            if role == "lat" and r["bounds"]:
                V[key]["bounds"] = True
    for (owner, role), spec in list(V.items()):
        if role == "lat" and spec["bounds"]:
            V[(owner, "lat_bnds")] = dict(role="lat_bnds", dims=["x", "nv"], bounds=False)
    groups = []
    for q in paths:
        vs = [dict(name=n, dims=spec["dims"]) for (o, n), spec in V.items() if list(o) == q]
        if q in [r["at"] for r in p["plan"]]:
            vs.append(dict(name="tas", dims=["x"]))
        if not q:
            vs.append(dict(name="x", dims=["x"]))
        groups.append(dict(path=q, dims=["x", "nv"] if not q else [], vars=vs))
    return groups, V


def self_refs(p):
    """Per region: {attr: [(token, resolved (path, name) or None)]} and the bounds references."""
    groups, V = self_build(p)
    root = otree(groups)
    out = []
    for r in p["plan"]:
        at = r["at"]
        toks = {}
        coords = []
        for role, attr in SELF_ROLES:
            d = r["roles"].get(role)
            if d is None:
                continue
            owner = at[:len(at) - d["up"]] + (["grid"] if d["sub"] else [])
            tok = None
            if d["style"] == "bare":
                tok = role
            elif d["style"] == "rel":
                tok = rel_path(at, owner, role)
            if tok is None or o_resolve(root, at, attr, tok, None) is None:
                tok = enc_path(owner + [role])
            el = o_resolve(root, at, attr, tok, None)
            toks.setdefault(attr, []).append((tok, el))
            if attr == "coordinates":
                coords.append(tok)
        cm = None
        if r["cm"] and "height" in r["roles"]:
            # the scalar coordinate named in cell_methods, by the same token as in `coordinates`
            tok = [t for t, el in toks["coordinates"] if el and el[2] == "height"]
            if tok:
                el = o_resolve(root, at, "cell_methods", tok[0], coords)
                if el is not None and el[0] == "var":
                    cm = (tok[0], el)
        out.append(dict(at=at, toks=toks, cm=cm))
    bnds = {}
    for (owner, name), spec in V.items():
        if name == "lat" and spec["bounds"]:
            bnds[(owner, name)] = ("lat_bnds", o_resolve(root, list(owner), "bounds", "lat_bnds", None))
    return groups, V, out, bnds


def mk_self(p):
    p = dict(p)
    groups, V, refs, bnds = self_refs(p)
    styles = collections.Counter()
    same = collections.Counter()
    for r in refs:
        for attr, lst in r["toks"].items():
            for tok, el in lst:
                styles["abs" if tok.startswith("/") else ("rel" if "/" in tok else "bare")] += 1
                if not tok.startswith("/"):
                    same[(attr, tok)] += 1
    # the same non-absolute string used by several referrers with different designated targets
    clash = 0
    for (attr, tok), n in same.items():
        tg = {tuple(el[1]) + (el[2],) for r in refs for t, el in r["toks"].get(attr, []) if t == tok and el}
        if len(tg) > 1:
            clash += 1
    tags = [f"self:regions={len(refs)}", f"self:same-string-different-target={min(clash, 3)}",
            "self:styles=" + "+".join(sorted(styles)), f"self:cell-methods={int(any(r['cm'] for r in refs))}",
            f"self:h5netcdf={int(bool(p.get('h5')))}"]
    return Case("C11.self", p, None, key=json.dumps(p, sort_keys=True), nontrivial=clash > 0, tags=tags)


def _self_values(role, owner_idx, n=4):
    base = np.arange(float(n))
    if role == "lat":
        return 100.0 * (owner_idx + 1) + base
    if role == "flag":
        return (100 * (owner_idx + 1) + 10 + base).astype("i4")
    if role == "area":
        return 1000.0 * (owner_idx + 1) + base
    if role == "lat_bnds":
        a = 100.0 * (owner_idx + 1) + base
        return np.stack([a - 0.5, a + 0.5], axis=-1)
    raise ValueError(role)


def _self_define(h, name, role, owner_idx, tag):
    if role == "crs":
        v = h.createVariable(name, "i4", ())
        v.grid_mapping_name = "latitude_longitude"
        v.earth_radius = 6371000.0 + owner_idx
        return v
    if role == "height":
        v = h.createVariable(name, "f8", ())
        v[...] = 2.0 + owner_idx
        v.standard_name = "height"
        v.units = "m"
    elif role == "lat_bnds":
        v = h.createVariable(name, "f8", ("x", "nv"))
        v[...] = _self_values(role, owner_idx)
        return v
    else:
        v = h.createVariable(name, "i4" if role == "flag" else "f8", ("x",))
        v[...] = _self_values(role, owner_idx)
        if role == "lat":
            v.standard_name = "latitude"
            v.units = "degrees_north"
        elif role == "area":
            v.standard_name = "cell_area"
            v.units = "m2"
        else:
            v.standard_name = "status_flag"
    v.long_name = tag
    return v


def impl_self(c):
    import netCDF4
    C = cfdm()
    p = c.payload
    groups, V, refs, bnds = self_refs(p)
    owners = sorted({o for o, _ in V})
    oidx = {o: i for i, o in enumerate(owners)}
    flatname = {}
    for k, (o, n) in enumerate(V):
        flatname[(o, n)] = f"{n}_{k}"
    grp, flat = tmpfile("sg"), tmpfile("sf")
    ex = dict()
    c.extra = ex
    try:
        for fn, grouped in ((grp, True), (flat, False)):
            nc = netCDF4.Dataset(fn, "w", format="NETCDF4")
            nc.Conventions = "CF-1.11"
            nc.createDimension("x", 4)
            nc.createDimension("nv", 2)
            xv = nc.createVariable("x", "f8", ("x",))
            xv[:] = [0.0, 90.0, 180.0, 270.0]
            xv.standard_name = "longitude"
            xv.units = "degrees_east"
            handles = {(): nc}
            if grouped:
                for g in groups:
                    q = tuple(g["path"])
                    if q:
                        handles[q] = handles[q[:-1]].createGroup(q[-1])
            for (o, n), spec in V.items():
                h = handles[o] if grouped else nc
                v = _self_define(h, n if grouped else flatname[(o, n)], spec["role"], oidx[o], enc_path(list(o) + [n]))
                if (o, n) in bnds:
                    tok, el = bnds[(o, n)]
                    v.bounds = tok if grouped else flatname[(tuple(el[1]), el[2])]
            for i, r in enumerate(refs):
                h = handles[tuple(r["at"])] if grouped else nc
                d = h.createVariable("tas" if grouped else f"tas_{i}", "f8", ("x",))
                d[:] = np.arange(4.0) + 50 + 100 * i
                d.standard_name = "air_temperature"
                d.units = "K"
                d.long_name = "region " + enc_path(r["at"])
                for attr, lst in r["toks"].items():
                    names = [(t if grouped else flatname[(tuple(el[1]), el[2])]) for t, el in lst]
                    d.setncattr(attr, ("area: " + names[0]) if attr == "cell_measures" else " ".join(names))
                if r["cm"]:
                    t, el = r["cm"]
                    d.cell_methods = (t if grouped else flatname[(tuple(el[1]), el[2])]) + ": point"
            nc.close()
        G, F = _read(grp, p), C.read(flat)

        def describe(f):
            def tags(d):
                return sorted(str(x.get_property("long_name", "?")) for x in d.values())
            aux = f.auxiliary_coordinates(todict=True)
            b = sorted(str(x.get_property("long_name", "?")) + ":" + ("%g" % float(x.bounds.data.array.flat[0]) if x.has_bounds() else "-")
                       for x in aux.values())
            sc = sorted("%g" % float(x.data.array.flat[0]) for x in f.dimension_coordinates(todict=True).values()
                        if x.get_property("standard_name", None) == "height")
            er = sorted("%g" % x.datum.get_parameter("earth_radius", -1) for x in f.coordinate_references(todict=True).values())
            cm = sorted(len(m.get_axes(())) for m in f.cell_methods(todict=True).values())
            return (f"aux={b} anc={tags(f.field_ancillaries(todict=True))} msr={tags(f.cell_measures(todict=True))} "
                    f"height={sc} radius={er} cm={cm}").replace(" '", "'").replace("', '", "','")

        def by_name(fl):
            out = collections.OrderedDict()
            for f in fl:
                out.setdefault(str(f.get_property("long_name", "(no long_name)")), []).append(f)
            return out

        Gd, Fd = by_name(G), by_name(F)
        ex["names"] = [sorted((k, len(v)) for k, v in Gd.items()), sorted((k, len(v)) for k, v in Fd.items())]
        parts, eqs = [], {}
        for i, r in enumerate(refs):
            k = "region " + enc_path(r["at"])
            g, f = Gd.get(k, [None])[0], Fd.get(k, [None])[0]
            parts.append(f"{enc_path(r['at'])}: " + (describe(g) if g is not None else "missing"))
            eqs[k] = None if g is None or f is None else [bool(g.equals(f)), bool(f.equals(g))]
            ex.setdefault("flat_desc", {})[k] = describe(f) if f is not None else "missing"
            ex.setdefault("groups", {})[k] = None if g is None else list(g.nc_variable_groups())
        ex["eq"] = eqs
        return " | ".join(parts)
    finally:
        _rm(grp, flat)


def oracle_self(c):
    p, ex = c.payload, c.extra
    if not isinstance(ex, dict) or "eq" not in ex:
        return f"cfdm.read failed on a hand-made file: {c.impl_out} {str(ex)[-300:]}"
    groups, V, refs, bnds = self_refs(p)
    owners = sorted({o for o, _ in V})
    oidx = {o: i for i, o in enumerate(owners)}
    # --- what the CF search rules designate, in the vocabulary of `describe`
    got = dict(x.split(": ", 1) for x in str(c.impl_out).split(" | "))
    for r in refs:
        def target(attr, name):
            return [el for t, el in r["toks"].get(attr, []) if el and el[2] == name]
        aux = []
        for el in target("coordinates", "lat"):
            o = (tuple(el[1]), "lat")
            b = "-"
            if o in bnds:
                bel = bnds[o][1]
                b = "%g" % float(_self_values("lat_bnds", oidx[tuple(bel[1])]).flat[0])
            aux.append(enc_path(el[1] + ["lat"]) + ":" + b)
        anc = sorted(enc_path(el[1] + [el[2]]) for el in target("ancillary_variables", "flag"))
        msr = sorted(enc_path(el[1] + [el[2]]) for el in target("cell_measures", "area"))
        hs = sorted("%g" % (2.0 + oidx[tuple(el[1])]) for el in target("coordinates", "height"))
        er = sorted("%g" % (6371000.0 + oidx[tuple(el[1])]) for el in target("grid_mapping", "crs"))
        cm = [1] if r["cm"] else []
        want = (f"aux={sorted(aux)} anc={anc} msr={msr} height={hs} radius={er} cm={cm}").replace(" '", "'").replace("', '", "','")
        k = enc_path(r["at"])
        if got.get(k) != want:
            return (f"data variable {enc_path(r['at'] + ['tas'])}: constructs came from {got.get(k)}, the CF search rules designate {want} "
                    f"(references { {a: [t for t, _ in l] for a, l in r['toks'].items()} })")
    if ex["names"][0] != ex["names"][1]:
        return f"fields read from the grouped file {ex['names'][0]}, from the equivalent flat file {ex['names'][1]}"
    for k, e in ex["eq"].items():
        if e is None or not all(e):
            return f"{k}: read(grouped) and read(equivalent flat file) are not equal: equals {e}; flat: {ex['flat_desc'].get(k)}"
    for r in refs:
        k = "region " + enc_path(r["at"])
        if ex["groups"].get(k) != r["at"]:
            return f"{k}: recorded groups {ex['groups'].get(k)}"
    return None


# ------------------------------------------------------------------ framework entry points
def gen(rng, tier, n):
    n_place = max(6, int(n * (0.13 if tier == "quick" else 0.2)))
    n_read = int(n * 0.07)
    n_name = int(n * 0.15)
    n_grp = int(n * 0.05)
    n_cv = int(n * 0.1)
    n_gattr = int(n * 0.06)
    n_multi = int(n * 0.08)
    n_self = int(n * 0.06)
    n_res = max(0, n - n_place - n_read - n_name - n_grp - n_cv - n_gattr - n_multi - n_self)
    # interleave so that a deadline cuts every stream alike
    plan = (["res"] * n_res + ["name"] * n_name + ["grp"] * n_grp + ["place"] * n_place + ["read"] * n_read
            + ["cv"] * n_cv + ["gattr"] * n_gattr + ["multi"] * n_multi + ["self"] * n_self)
    rng.shuffle(plan)
    for s in plan:
        if s == "res":
            yield mk_res(gen_res(rng))
        elif s == "name":
            yield mk_name(gen_name(rng))
        elif s == "grp":
            yield mk_grp(gen_grp(rng))
        elif s == "place":
            yield mk_place(gen_place(rng, tier))
        elif s == "cv":
            yield mk_cv(gen_cv(rng))
        elif s == "gattr":
            yield mk_gattr(gen_gattr(rng))
        elif s == "multi":
            yield mk_multi(gen_multi(rng))
        elif s == "self":
            yield mk_self(gen_self(rng))
        else:
            yield mk_read(gen_read(rng))


def from_payload(stream, payload):
    return {"C11.res": mk_res, "C11.name": mk_name, "C11.grp": mk_grp, "C11.place": mk_place, "C11.read": mk_read,
            "C11.cv": mk_cv, "C11.gattr": mk_gattr, "C11.multi": mk_multi, "C11.self": mk_self}[stream](payload)


def impl(c):
    fn = {"C11.res": impl_res, "C11.name": impl_name, "C11.grp": impl_grp, "C11.place": impl_place, "C11.read": impl_read,
          "C11.cv": impl_cv, "C11.gattr": impl_gattr, "C11.multi": impl_multi, "C11.self": impl_self}.get(c.stream)
    if fn is None:
        raise fw.HarnessError("unknown stream " + c.stream)
    return fn(c)


def agree(c):
    if c.stream == "C11.res":
        return str(c.model_out).split(" ")[0] == str(c.impl_out)
    if c.stream == "C11.grp":
        return agree_grp(c)
    if c.stream == "C11.place":
        if str(c.impl_out) in ("skip", "flat-file-has-groups"):
            return True
        return canon_place(c.impl_out) == canon_place(c.model_out)
    return c.impl_out == c.model_out


def oracle(c):
    fn = {"C11.res": oracle_res, "C11.name": oracle_name, "C11.grp": oracle_grp, "C11.place": oracle_place, "C11.read": oracle_read,
          "C11.cv": oracle_cv, "C11.gattr": oracle_gattr, "C11.multi": oracle_multi, "C11.self": oracle_self}[c.stream]
    return fn(c)


def classify(c):
    if c.stream == "C11.res":
        return classify_res(c)
    if c.stream == "C11.name":
        return classify_name(c)
    if c.stream == "C11.place":
        return classify_place(c)
    if c.stream == "C11.cv":
        return classify_cv(c)
    if c.stream == "C11.multi":
        return classify_multi(c)
    if c.stream == "C11.gattr":
        p = c.payload
        if p.get("fmt", "NETCDF4") != "NETCDF4" and p["grp"] and str(c.impl_out) == "raised:RuntimeError":
            return "write-classic-format-keeps-groups"
    if c.stream == "C11.read":
        z = c.payload.get("zdim")
        if z and z["xg"] and z["cv"] != z["xg"] and "dimz=none" in str(c.impl_out):
            return "read-coordinate-variable-search-for-grouped-dimension"
    return "unclassified-" + c.stream.split(".")[-1]


# ------------------------------------------------------------------ shrinking
def _tree_variants(groups, keep=()):
    """Smaller trees: drop a leaf group, a variable, a dimension (variables spanning it lose it), an attribute."""
    paths = [g["path"] for g in groups]
    for i, g in enumerate(groups):
        p = g["path"]
        leaf = p and not any(q[:len(p)] == p and len(q) > len(p) for q in paths)
        if leaf and p not in keep and not any(k[:len(p)] == p for k in keep):
            yield groups[:i] + groups[i + 1:]
        for j in range(len(g["vars"])):
            h = dict(g, vars=g["vars"][:j] + g["vars"][j + 1:])
            yield groups[:i] + [h] + groups[i + 1:]
        for j in range(len(g.get("attrs", []))):
            h = dict(g, attrs=g["attrs"][:j] + g["attrs"][j + 1:])
            yield groups[:i] + [h] + groups[i + 1:]
        for d in g["dims"]:
            # a dimension can go if no variable at or below this group spans it through this definition
            used = any(d in v["dims"] for h in groups if h["path"][:len(p)] == p for v in h["vars"])
            if not used:
                yield groups[:i] + [dict(g, dims=[x for x in g["dims"] if x != d])] + groups[i + 1:]


def _variants(c):
    p = c.payload
    if c.stream == "C11.res":
        for gs in _tree_variants(p["groups"], keep=(p["at"],)):
            yield dict(p, groups=gs)
        if p["coords"]:
            yield dict(p, coords=None)
        if p["strict"]:
            yield dict(p, strict=False)
    elif c.stream == "C11.name":
        for gs in _tree_variants(p["groups"]):
            yield dict(p, groups=gs)
    elif c.stream == "C11.place":
        asg = (c.extra or {}).get("asg") if isinstance(c.extra, dict) else None
        if not asg:
            return
        for kind in ("vgroup", "dgroup"):
            for n, g in sorted(asg[kind].items()):
                if g:
                    for shorter in ([], g[:-1]):
                        if shorter != g:
                            a2 = json.loads(json.dumps(asg))
                            a2[kind][n] = shorter
                            if kind == "dgroup" and n in a2["vgroup"]:
                                a2["vgroup"][n] = shorter      # (normalise_asg moves the dimension with its coordinate variable)
                            yield dict(p, asg=a2)
        for a in sorted(asg.get("gattrs", {})):
            a2 = json.loads(json.dumps(asg))
            del a2["gattrs"][a]
            yield dict(p, asg=a2)


def _variants_more(c):
    p = c.payload
    if c.stream == "C11.multi":
        fs = p["fields"]
        for i in range(len(fs)):
            if len(fs) > 1:
                yield dict(p, fields=fs[:i] + fs[i + 1:])
        for i, fd in enumerate(fs):
            for a in sorted(set(fd["props"]) | set(fd["ga"])):
                for key in ("props", "ga"):
                    if a in fd[key]:
                        d2 = dict(fd, **{key: {k: v for k, v in fd[key].items() if k != a}})
                        yield dict(p, fields=fs[:i] + [d2] + fs[i + 1:])
            if fd.get("dimgrp"):
                yield dict(p, fields=fs[:i] + [dict(fd, dimgrp=0)] + fs[i + 1:])
            if fd["grp"]:
                yield dict(p, fields=fs[:i] + [dict(fd, grp=fd["grp"][:-1], dimgrp=0)] + fs[i + 1:])
    elif c.stream == "C11.self":
        plan = p["plan"]
        for i in range(len(plan)):
            if len(plan) > 1:
                yield dict(p, plan=plan[:i] + plan[i + 1:])
        for i, r in enumerate(plan):
            for role in sorted(r["roles"]):
                r2 = dict(r, roles={k: v for k, v in r["roles"].items() if k != role})
                yield dict(p, plan=plan[:i] + [r2] + plan[i + 1:])
            if r["cm"]:
                yield dict(p, plan=plan[:i] + [dict(r, cm=False)] + plan[i + 1:])
            if r["bounds"]:
                yield dict(p, plan=plan[:i] + [dict(r, bounds=False)] + plan[i + 1:])
        if p.get("h5"):
            yield dict(p, h5=False)


def shrink(c, run):
    """Greedy: keep a smaller input while it still fails with the same signature."""
    sig = classify(c)
    best, improved, steps = c, True, 0
    while improved and steps < 150:
        improved = False
        for q in (_variants_more(best) if best.stream in ("C11.multi", "C11.self") else _variants(best)):
            steps += 1
            d = from_payload(c.stream, q)
            try:
                d.impl_out = impl(d)
                d.oracle_fail = oracle(d)
            except Exception:
                continue
            if d.oracle_fail and classify(d) == sig:
                if d.line is not None:
                    try:
                        d.model_out = fw.model_run([d.line])[0]
                    except Exception:
                        pass
                best, improved = d, True
                break
            if steps >= 150:
                break
    return best if best is not c else None


# ------------------------------------------------------------------ extra evidence
def extra_coverage(run):
    """How many failing reference cases behave exactly as the model of the *unpatched* flattener
    (`old=1`: KeyError, AttributeError, depth-first lateral search) predicts.  Informational only."""
    cs = [c for c, _, _ in run.failures if c.stream == "C11.res" and c.line is not None and c.impl_out is not None]
    if not cs or not fw.EXE.exists():
        return {}
    try:
        outs = fw.model_run([c.line[:-len("old=0")] + "old=1" for c in cs])
    except Exception as e:
        return dict(old_code_model=f"not evaluated: {e!r}"[:200])
    same = sum(1 for c, o in zip(cs, outs) if str(o).split(" ")[0] == str(c.impl_out))
    return dict(old_code_model=dict(failing_reference_cases=len(cs), agree_with_model_of_unpatched_code=same))
