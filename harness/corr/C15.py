"""C15 — UGRID meshes are mapped to topology constructs correctly.

Streams (each generated mesh yields several cases; one case = one observable)
  C15.point   point-cell domain topology (node followed by its neighbours)     (model + oracle)
  C15.cells   edge/face-cell domain topology (each cell's nodes)               (model + oracle)
  C15.cconn   cell connectivity (cell followed by the cells it touches)        (model + oracle)
  C15.bounds  cell bounds gathered from the node coordinates                   (model + oracle)
  C15.norm    DomainTopology/CellConnectivity.normalise (+ second normalise)   (model + oracle)
  C15.read    a whole dataset (1-3 mesh topology variables, some sharing their connectivity variables,
              each connectivity variable stored in its own order with its own start index, several data
              variables per mesh and location, location index sets, data variables before or after the
              mesh variable): the construct that ONE data variable receives, optionally after
              Field.__getitem__ on the cell axis and after normalise                (model + oracle)
  C15.share   fields of one dataset against each other: equal constructs for the same mesh and location,
              independent copies, mesh identifiers, subspaced field data            (oracle only)

`via` in the payload says how the real code is driven:
  file     a netCDF UGRID file hand-written with netCDF4 → cfdm.read → construct.array
  domain   same file, cfdm.read(domain=True)
  array    cfdm.PointTopologyArray / CellConnectivityArray / BoundsFromNodesArray directly
  memory   (norm only) a construct built in memory

The oracle works from the *logical* mesh (zero-based node lists per cell) and
never calls cfdm; the protocol line carries the *stored* arrays (start index
added, padded, possibly transposed) exactly as they are written to the file.
"""
import atexit
import copy
import json
import os
import shutil
import tempfile

import numpy as np

from .. import fw
from ..fw import Case

REQUIRED = [
    "C15_point_rows",
    "C15_point_neighbours",
    "C15_point_neighbours_symm",
    "C15_zero_based",
    "C15_padding_masked",
    "C15_cells_zero_based",
    "C15_cells_start_index_counterexample",
    "C15_old_code_counterexample_padded_edges",
    "C15_normalise_meaning",
    "C15_normalise_label_invariant",
    "C15_subspace_normalise",
    "C15_cell_dimension_per_variable",
    "C15_read_storage_independent",
    "C15_cell_dimension_cache_counterexample",
    "C15_mesh_ncdim",
    "C15_old_code_counterexample_shared_connectivity",
    "C15_other_meshes_irrelevant",
    "C15_subspace_rows",
    "C15_subspace_compose",
    "C15_subspace_bounds_partial",
    "C15_subspace_bounds_reversed_counterexample",
    "C15_location_index_set",
    "C15_old_code_counterexample_location_index_set",
    "C15_transposed_storage",
    "C15_cell_connectivity",
    "C15_bounds_gather",
    "C15_normalise_idem",
    "C15_normalise_normal_form",
    "C15_normalise_nodes_idem",
    "C15_old_code_counterexample_neighbours",
    "C15_old_code_counterexample_start_index",
    "C15_old_code_counterexample_unreferenced",
    "C15_old_code_counterexample_padded",
]
BUDGET = {"quick": 880, "thorough": 30000}  # items: 3 of 4 are single meshes (~12 cases each), 1 of 4 a whole dataset (~12 cases)
QUICK_JOBS = 4
TIME_LIMIT = {"quick": 150, "thorough": 1200}
RULE = (
    "random small UGRID meshes: 3-12 nodes; 2-d meshes of 1-6 faces (triangles/quads/polygons up to 6 nodes, padded rows, "
    "open meshes with boundary edges, closed consistently-oriented surfaces), 1-d edge networks, unreferenced (isolated) nodes, "
    "an edge with a missing node; start_index 0/1 per connectivity variable (attribute present or absent); storage (cell,node) "
    "or (node,cell) per variable; optional edge_node/face_face/face_edge/edge_face connectivity and face/edge coordinates; "
    "location node/edge/face; driven through netCDF files (field and domain read) and through the array classes; normalise on "
    "read results and on random id arrays (contiguous, one-based, subspaced, dangling, negative ids). Every fourth item is a whole "
    "dataset: 1-3 mesh topology variables (later ones may share the connectivity variables of an earlier one), 1-2 data variables "
    "per mesh and location, 0-2 location index sets (own start_index, any order of indices), data variables on a location index "
    "set before or after the mesh variable; per chosen data variable: topology / cell connectivity / bounds, then "
    "Field.__getitem__ on the cell axis (slices with any step, lists, negative positions) and normalise(start_index 0/1). Inputs "
    "that end in an OPEN known finding are generated with a reduced share (finding_open). non-trivial = the connectivity (or the "
    "selected cell axis) has >= 2 rows; distinct = distinct (stream, protocol line, via, data variable)"
)
ASSUMPTIONS = [
    "node coordinates are small integers stored as float64 (exactly representable); float behaviour is not modelled",
    "normalise is modelled with remove_empty_columns=False; remove_empty_columns=True is checked for idempotence by the oracle only",
    "the order of a point cell's neighbours (a cell connectivity's touched cells) after the cell itself is not part of the property: compared sorted",
    "volume cells and meshes whose connectivity fails cfdm's own compliance checks are outside the streams",
    "ids in the first column of a point/cell-connectivity array are unmasked and distinct (hypothesis of C15_normalise_idem / _meaning)",
    "Field.__getitem__: the index is turned into positions by Python's own slice/list semantics in the harness (index parsing is C03's subject); "
    "the model receives the positions and, for the bounds rule, the slice step",
    "location index sets hold distinct in-range indices",
]

_cfdm = None


def cfdm():
    global _cfdm
    if _cfdm is None:
        import cfdm as m
        _cfdm = m
    return _cfdm


_scratch = None


def scratch():
    global _scratch
    if _scratch is None:
        _scratch = tempfile.mkdtemp(prefix="verif_c15_")
        atexit.register(shutil.rmtree, _scratch, True)
    return _scratch


# ------------------------------------------------------------------ mesh generator
CLOSED = [
    # consistently oriented closed surfaces: every edge is walked once in each direction
    [[0, 1, 2], [0, 3, 1], [1, 3, 2], [2, 3, 0]],  # tetrahedron
    [[0, 1, 2, 3], [3, 2, 1, 0]],  # two-sided quad
    [[0, 1, 2], [2, 1, 0]],  # two-sided triangle
    [[0, 1, 2, 3, 4], [4, 3, 2, 1, 0]],
    [[0, 1, 2], [0, 2, 3], [0, 3, 4], [0, 4, 1], [5, 2, 1], [5, 3, 2], [5, 4, 3], [5, 1, 4]],  # octahedron
    [[0, 3, 2, 1], [4, 5, 6, 7], [0, 1, 5, 4], [1, 2, 6, 5], [2, 3, 7, 6], [3, 0, 4, 7]],  # cube
]


def gen_mesh(rng):
    """A logical mesh: zero-based node lists; plus how it is stored."""
    kind = rng.choices(["open2d", "closed2d", "net1d", "single"], [6, 2, 2, 1])[0]
    m = dict(kind=kind)
    if kind == "closed2d":
        faces = [list(f) for f in rng.choice(CLOSED)]
        used = 1 + max(max(f) for f in faces)
        extra = rng.choice([0, 0, 0, 1, 2])
        n = used + extra
        perm = list(range(n))
        rng.shuffle(perm)
        faces = [[perm[v] for v in f] for f in faces]
        # rotate each face's start: the cyclic order (orientation) is unchanged
        faces = [f[k:] + f[:k] for f in faces for k in [rng.randrange(len(f))]]
        rng.shuffle(faces)
        m.update(n=n, faces=faces)
    elif kind in ("open2d", "single"):
        n = rng.randint(3, 12)
        nf = 1 if kind == "single" else rng.randint(1, 6)
        faces = []
        pool = list(range(n))
        if rng.random() < 0.2 and n > 4:
            # leave some nodes unreferenced
            pool = rng.sample(pool, rng.randint(3, n - 1))
        for _ in range(nf):
            k = rng.choice([3, 3, 3, 4, 4, 5, 6])
            k = min(k, len(pool))
            if faces and rng.random() < 0.7:
                # share an edge or a node with an earlier face
                g = rng.choice(faces)
                i = rng.randrange(len(g))
                shared = [g[(i + 1) % len(g)], g[i]] if rng.random() < 0.7 else [g[i]]
                rest = [v for v in pool if v not in shared]
                rng.shuffle(rest)
                f = shared + rest[: k - len(shared)]
            else:
                f = rng.sample(pool, k)
            if len(f) >= 3:
                faces.append(f)
        if not faces:
            faces = [rng.sample(pool, 3)]
        m.update(n=n, faces=faces)
    else:
        n = rng.randint(2, 10)
        pool = list(range(n))
        if rng.random() < 0.25 and n > 3:
            pool = rng.sample(pool, rng.randint(2, n - 1))
        edges = []
        if rng.random() < 0.7:
            path = pool[:]
            rng.shuffle(path)
            edges = [[a, b] if rng.random() < 0.5 else [b, a] for a, b in zip(path[:-1], path[1:])]
        ne = rng.randint(0 if edges else 1, 5)
        for _ in range(ne):
            a, b = rng.sample(pool, 2)
            if [a, b] not in edges and [b, a] not in edges:
                edges.append([a, b])
        m.update(n=n, faces=None, edges=edges)
    if kind != "closed2d":
        # mostly every node is referenced: renumber the used nodes 0..k-1 (random bijection),
        # and only sometimes keep extra, unreferenced, nodes
        cells = m.get("faces") or m["edges"]
        used = sorted({v for c in cells for v in c})
        extra = rng.choice([0, 0, 0, 0, 0, 1, 2])
        n = len(used) + extra
        new = rng.sample(range(n), len(used))
        ren = dict(zip(used, new))
        cells = [[ren[v] for v in c] for c in cells]
        m["n"] = n
        if m.get("faces"):
            m["faces"] = cells
        else:
            m["edges"] = cells
    if m.get("faces"):
        # all edges of the faces, each once, in a shuffled order and random direction
        es = []
        for f in m["faces"]:
            for i in range(len(f)):
                a, b = f[i], f[(i + 1) % len(f)]
                if [a, b] not in es and [b, a] not in es:
                    es.append([a, b] if rng.random() < 0.5 else [b, a])
        rng.shuffle(es)
        m["edges"] = es if rng.random() < 0.45 else None
        nf = len(m["faces"])
        if rng.random() < 0.6:
            # face_face_connectivity: the faces sharing an edge (sometimes an arbitrary list: it is data)
            ff = []
            for i, f in enumerate(m["faces"]):
                ei = {frozenset((f[k], f[(k + 1) % len(f)])) for k in range(len(f))}
                row = []
                for j, g in enumerate(m["faces"]):
                    if j != i and ei & {frozenset((g[k], g[(k + 1) % len(g)])) for k in range(len(g))}:
                        row.append(j)
                if rng.random() < 0.2:
                    row = rng.sample([j for j in range(nf) if j != i], rng.randint(0, min(3, nf - 1)))
                rng.shuffle(row)
                ff.append(row)
            m["ff"] = ff
        else:
            m["ff"] = None
        m["extra_conn"] = rng.random() < 0.3 and m["edges"] is not None
        m["face_coords"] = rng.random() < 0.3
    else:
        m["ff"] = None
        m["extra_conn"] = False
        m["face_coords"] = False
    m["edge_coords"] = m.get("edges") is not None and rng.random() < 0.3
    m["padded_edge"] = False
    if m.get("edges") is not None and len(m["edges"]) >= 2 and not m["extra_conn"] and rng.random() < 0.05:
        # an edge with a missing (masked) end node: the row is padded like a short face
        k = rng.randrange(len(m["edges"]))
        m["edges"][k] = m["edges"][k][:1]
        m["padded_edge"] = True
    # storage
    si_common = rng.choice([0, 0, 1, 1, None])
    for k in ("f", "e", "ff"):
        si = rng.choice([0, 1]) if si_common is None else si_common
        m[k + "si"] = si
        m[k + "si_attr"] = True if si else rng.random() < 0.6  # start_index=0 may be left implicit
        m[k + "cd"] = rng.choice([0, 0, 1])
    m["fdim_attr"] = rng.random() < 0.5
    m["edim_attr"] = rng.random() < 0.5
    m["x"] = [rng.randint(-90, 90) for _ in range(m["n"])]
    m["y"] = [rng.randint(-180, 180) for _ in range(m["n"])]
    return m


def padded(rows, si, width=None):
    """Stored (cell, node) array: +si, padded with None to the widest row."""
    w = max([len(r) for r in rows] + [1]) if width is None else width
    return [[v + si for v in r] + [None] * (w - len(r)) for r in rows]


def transposed(a):
    return [list(c) for c in zip(*a)]


def stored(m, which):
    """The array exactly as written to the file (list of lists, None = fill)."""
    rows, si, cd = {"f": (m.get("faces"), m["fsi"], m["fcd"]),
                    "e": (m.get("edges"), m["esi"], m["ecd"]),
                    "ff": (m.get("ff"), m["ffsi"], m["ffcd"])}[which]
    a = padded(rows, si)
    return transposed(a) if cd == 1 else a


def enc(a):
    return "[" + ";".join(",".join("--" if v is None else str(int(v)) for v in r) for r in a) + "]"


def np_masked(a, dtype="i4"):
    arr = np.ma.masked_all((len(a), len(a[0]) if a else 0), dtype=dtype)
    for i, r in enumerate(a):
        for j, v in enumerate(r):
            if v is not None:
                arr[i, j] = v
    return arr


def canon(arr, sort_tail=False):
    """numpy (masked) 2-d array → protocol string."""
    arr = np.ma.asanyarray(arr)
    if arr.ndim != 2:
        return f"shape:{list(arr.shape)}"
    mask = np.ma.getmaskarray(arr)
    data = np.ma.getdata(arr)
    rows = []
    for i in range(arr.shape[0]):
        r = [None if mask[i, j] else data[i, j] for j in range(arr.shape[1])]
        for v in r:
            if v is not None and float(v) != int(v):
                return "non-integer"
        r = [None if v is None else int(v) for v in r]
        if sort_tail and r:
            t = sorted(v for v in r[1:] if v is not None)
            r = r[:1] + t + [None] * (len(r) - 1 - len(t))
        rows.append(r)
    return "rows=" + enc(rows)


def rows_of(s):
    """protocol string → list of lists (None masked) or None."""
    if not isinstance(s, str) or not s.startswith("rows=["):
        return None
    inner = s[6:-1]
    if not inner:
        return []
    return [[None if t == "--" else int(t) for t in r.split(",")] if r else [] for r in inner.split(";")]


# ------------------------------------------------------------------ file writer (netCDF4 only)
def write_file(m, path):
    import netCDF4
    nc = netCDF4.Dataset(path, "w")
    nc.Conventions = "CF-1.11"
    n = m["n"]
    nc.createDimension("nnode", n)
    nc.createDimension("Two", 2)
    M = nc.createVariable("Mesh", "i4", ())
    M.cf_role = "mesh_topology"
    M.topology_dimension = 2 if m.get("faces") else 1
    M.node_coordinates = "node_x node_y"
    for name, std, units, vals in (("node_x", "longitude", "degrees_east", m["x"]), ("node_y", "latitude", "degrees_north", m["y"])):
        v = nc.createVariable(name, "f8", ("nnode",))
        v.standard_name = std
        v.units = units
        v[...] = np.array(vals, dtype=float)

    def conn_var(name, a, dims, si, si_attr, long_name):
        v = nc.createVariable(name, "i4", dims, fill_value=-99)
        v.long_name = long_name
        if si_attr:
            v.start_index = np.int32(si)
        arr = np.array([[-99 if x is None else x for x in r] for r in a], dtype="i4")
        v[...] = arr
        return v

    if m.get("faces"):
        nf = len(m["faces"])
        nc.createDimension("nface", nf)
        a = stored(m, "f")
        w = len(a) if m["fcd"] == 1 else len(a[0])
        nc.createDimension("fW", w)
        M.face_node_connectivity = "face_nodes"
        conn_var("face_nodes", a, ("fW", "nface") if m["fcd"] == 1 else ("nface", "fW"), m["fsi"], m["fsi_attr"], "Maps every face to its corner nodes")
        if m["fcd"] == 1 or m["fdim_attr"]:
            M.face_dimension = "nface"
        if m.get("ff") is not None:
            a = stored(m, "ff")
            w = len(a) if m["ffcd"] == 1 else len(a[0])
            nc.createDimension("ffW", w)
            M.face_face_connectivity = "face_links"
            if m["ffcd"] == 1:
                M.face_dimension = "nface"
            conn_var("face_links", a, ("ffW", "nface") if m["ffcd"] == 1 else ("nface", "ffW"), m["ffsi"], m["ffsi_attr"], "neighbour faces for faces")
        if m.get("face_coords"):
            M.face_coordinates = "face_x face_y"
            for name, std, units, off in (("face_x", "longitude", "degrees_east", 0.5), ("face_y", "latitude", "degrees_north", 0.25)):
                v = nc.createVariable(name, "f8", ("nface",))
                v.standard_name = std
                v.units = units
                v[...] = np.arange(nf) + off
        d = nc.createVariable("fdata", "f8", ("nface",))
        d.standard_name = "air_temperature"
        d.units = "K"
        d.mesh = "Mesh"
        d.location = "face"
        d[...] = np.arange(nf, dtype=float)
    if m.get("edges") is not None:
        ne = len(m["edges"])
        nc.createDimension("nedge", ne)
        a = stored(m, "e")
        M.edge_node_connectivity = "edge_nodes"
        conn_var("edge_nodes", a, ("Two", "nedge") if m["ecd"] == 1 else ("nedge", "Two"), m["esi"], m["esi_attr"], "Maps every edge to its two nodes")
        if m["ecd"] == 1 or m["edim_attr"]:
            M.edge_dimension = "nedge"
        if m.get("edge_coords"):
            M.edge_coordinates = "edge_x edge_y"
            for name, std, units, off in (("edge_x", "longitude", "degrees_east", 0.5), ("edge_y", "latitude", "degrees_north", 0.25)):
                v = nc.createVariable(name, "f8", ("nedge",))
                v.standard_name = std
                v.units = units
                v[...] = np.arange(ne) + off
        d = nc.createVariable("edata", "f8", ("nedge",))
        d.standard_name = "northward_wind"
        d.units = "m s-1"
        d.mesh = "Mesh"
        d.location = "edge"
        d[...] = np.arange(ne, dtype=float)
        if m.get("extra_conn") and m.get("faces"):
            # connectivities the reader makes no construct from; they must not disturb anything
            es = [frozenset(e) for e in m["edges"]]
            fe = [[es.index(frozenset((f[k], f[(k + 1) % len(f)]))) for k in range(len(f))] for f in m["faces"]]
            a = padded(fe, m["fsi"])
            nc.createDimension("feW", len(a[0]))
            M.face_edge_connectivity = "face_edges"
            conn_var("face_edges", a, ("nface", "feW"), m["fsi"], m["fsi_attr"], "Maps every face to its edges")
            ef = [[i for i, r in enumerate(fe) if k in r][:2] for k in range(ne)]
            a = padded(ef, m["esi"], 2)
            M.edge_face_connectivity = "edge_faces"
            conn_var("edge_faces", a, ("nedge", "Two"), m["esi"], m["esi_attr"], "neighbour faces for edges")
    d = nc.createVariable("ndata", "f8", ("nnode",))
    d.standard_name = "air_pressure"
    d.units = "hPa"
    d.mesh = "Mesh"
    d.location = "node"
    d[...] = np.arange(n, dtype=float)
    nc.close()


_read_cache = {}
_file_counter = [0]


def read_mesh(m, domain):
    """cfdm.read of the file for mesh m → {location: field or domain} (cached for the run of cases of one mesh)."""
    key = (json.dumps(m, sort_keys=True), domain)
    if key in _read_cache:
        return _read_cache[key]
    if len(_read_cache) > 4:
        _read_cache.clear()
    _file_counter[0] += 1
    path = os.path.join(scratch(), f"m_{os.getpid()}_{_file_counter[0]}.nc")
    write_file(m, path)
    C = cfdm()
    out = {}
    try:
        fs = C.read(path, domain=domain)
        for f in fs:
            dt = f.domain_topology(default=None)
            if dt is None:
                continue
            cell = dt.get_cell(None)
            loc = {"point": "node", "edge": "edge", "face": "face"}.get(cell)
            if loc in out:
                out["dup"] = True
            out[loc] = f
    except Exception as e:  # reading a valid UGRID file must not fail
        out["error"] = "raised:" + fw.exc_enum(e)
    _read_cache[key] = out
    return out


# ------------------------------------------------------------------ cases
def point_src(m):
    """Which connectivity the point cells are derived from (reader: edges first)."""
    return "edges" if m.get("edges") is not None else "faces"


def mk_point(p):
    m = p["mesh"]
    src = p.get("src") or point_src(m)
    w = "e" if src == "edges" else "f"
    n = "_" if p.get("unknown_shape") else m["n"]
    line = f"C15.point src={src} si={m[w + 'si']} cd={m[w + 'cd']} n={n} conn={enc(stored(m, w))}"
    rows = m["edges"] if src == "edges" else m["faces"]
    tags = [f"point:src={src}", f"point:si={m[w + 'si']}", f"cd={m[w + 'cd']}", "via:" + p["via"], "mesh:" + m["kind"]]
    if src == "faces" and len({len(r) for r in rows}) > 1:
        tags.append("point:padded-faces")
    if _unreferenced(m, src, p.get("unknown_shape")):
        tags.append("point:unreferenced-node")
    if src == "faces" and _boundary(rows):
        tags.append("point:boundary-edge")
    if src == "edges" and m.get("padded_edge"):
        tags.append("point:padded-edge")
    return Case("C15.point", p, line, key=line + p["via"], nontrivial=len(rows) >= 2, tags=tags)


def mk_cells(p):
    m = p["mesh"]
    w = "f" if p["loc"] == "face" else "e"
    line = f"C15.cells si={m[w + 'si']} cd={m[w + 'cd']} conn={enc(stored(m, w))}"
    rows = m["faces"] if w == "f" else m["edges"]
    tags = [f"cells:{p['loc']}", f"cells:si={m[w + 'si']}", f"cd={m[w + 'cd']}", "via:" + p["via"]]
    if len({len(r) for r in rows}) > 1:
        tags.append("cells:padded")
    if w == "e" and m.get("padded_edge"):
        tags.append("cells:padded-edge")
    return Case("C15.cells", p, line, key=line + p["via"] + str(m[w + "si"]), nontrivial=len(rows) >= 2, tags=tags)


def mk_cconn(p):
    m = p["mesh"]
    line = f"C15.cconn si={m['ffsi']} cd={m['ffcd']} data={enc(stored(m, 'ff'))}"
    tags = [f"cconn:si={m['ffsi']}", f"cd={m['ffcd']}", "via:" + p["via"]]
    return Case("C15.cconn", p, line, key=line + p["via"], nontrivial=len(m["ff"]) >= 2, tags=tags)


def mk_bounds(p):
    m = p["mesh"]
    w = "f" if p["loc"] == "face" else "e"
    coords = m[p["coord"]]
    line = f"C15.bounds si={m[w + 'si']} cd={m[w + 'cd']} conn={enc(stored(m, w))} coords={fw.fmt_list(coords)}"
    rows = m["faces"] if w == "f" else m["edges"]
    tags = [f"bounds:{p['loc']}", f"bounds:si={m[w + 'si']}", f"cd={m[w + 'cd']}", "via:" + p["via"]]
    return Case("C15.bounds", p, line, key=line + p["via"], nontrivial=len(rows) >= 2, tags=tags)


def mk_norm(p):
    line = f"C15.norm cell={p['cell']} ob={p['start_index']} data={enc(p['data'])}"
    tags = [f"norm:{p['cell']}", f"norm:start_index={p['start_index']}", "norm:" + p.get("pattern", "mesh")]
    return Case("C15.norm", p, line, key=line, nontrivial=len(p["data"]) >= 2, tags=tags)


def from_payload(stream, payload):
    return {"C15.point": mk_point, "C15.cells": mk_cells, "C15.cconn": mk_cconn,
            "C15.bounds": mk_bounds, "C15.norm": mk_norm, "C15.read": mk_read, "C15.share": mk_share}[stream](payload)


def gen_norm_random(rng):
    cell = rng.choice(["point", "cc", "face", "edge"])
    si = rng.choice([0, 1])
    if cell in ("face", "edge"):
        nrow = rng.randint(1, 5)
        w = 2 if cell == "edge" else rng.randint(3, 5)
        pool = rng.sample(range(0, 40), rng.randint(w, min(12, w * nrow)))
        data = []
        for _ in range(nrow):
            k = w if cell == "edge" else rng.randint(3, w)
            data.append(rng.sample(pool, min(k, len(pool))) + [None] * (w - min(k, len(pool))))
        if cell == "face" and not any(len([v for v in r if v is not None]) == w for r in data):
            data[0] = rng.sample(pool, w) if len(pool) >= w else data[0]
        return dict(cell=cell, start_index=si, data=data, pattern="nodes")
    n = rng.randint(1, 6)
    pattern = rng.choice(["zero", "one", "subspaced", "offset", "shuffled", "negative"])
    if pattern == "zero":
        ids = list(range(n))
    elif pattern == "one":
        ids = list(range(1, n + 1))
    elif pattern == "offset":
        o = rng.randint(2, 9)
        ids = list(range(o, o + n))
    elif pattern == "subspaced":
        ids = sorted(rng.sample(range(0, 30), n))
    elif pattern == "negative":
        # identifiers below zero: `_normalise_cell_ids` first shifts everything by the minimum
        ids = rng.sample(range(-12, 12), n)
        if min(ids) >= 0:
            ids[rng.randrange(n)] = -rng.randint(1, 12)
            ids = list(dict.fromkeys(ids))
            n = len(ids)
    else:
        ids = rng.sample(range(0, 30), n)
    w = rng.randint(1, 4)
    lo = -14 if pattern == "negative" else 0
    dangling = [v for v in range(lo, 32) if v not in ids]
    data = []
    for i in ids:
        k = rng.randint(0, w)
        others = [v for v in ids if v != i]
        tail = []
        for _ in range(k):
            if others and rng.random() < 0.75:
                tail.append(rng.choice(others))
            else:
                tail.append(rng.choice(dangling))
        tail = list(dict.fromkeys(tail))
        if rng.random() < 0.5:
            tail.sort()
        row = [i] + tail + [None] * (w - len(tail))
        data.append(row)
    return dict(cell=cell, start_index=si, data=data, pattern=pattern)


def gen(rng, tier, n):
    for it in range(n):
        if it % 4 == 3:
            # every fourth item is a whole dataset (streams C15.read / C15.share)
            ds = gen_dataset(rng)
            yield from gen_dataset_cases(rng, ds)
            continue
        m = gen_mesh(rng)
        vias = ["file"] + (["domain"] if rng.random() < 0.3 else [])
        for via in vias:
            yield mk_point(dict(mesh=m, via=via))
            if m.get("faces"):
                yield mk_cells(dict(mesh=m, via=via, loc="face"))
                yield mk_bounds(dict(mesh=m, via=via, loc="face", coord=rng.choice(["x", "y"])))
                if m.get("ff") is not None:
                    yield mk_cconn(dict(mesh=m, via=via))
            if m.get("edges") is not None:
                yield mk_cells(dict(mesh=m, via=via, loc="edge"))
                yield mk_bounds(dict(mesh=m, via=via, loc="edge", coord=rng.choice(["x", "y"])))
        # the array classes directly
        srcs = [s for s, k in (("faces", "faces"), ("edges", "edges")) if m.get(k) is not None]
        for src in srcs:
            yield mk_point(dict(mesh=m, via="array", src=src, unknown_shape=rng.random() < 0.5))
        if m.get("ff") is not None:
            yield mk_cconn(dict(mesh=m, via="array"))
        loc = "face" if m.get("faces") else "edge"
        yield mk_bounds(dict(mesh=m, via="array", loc=loc, coord=rng.choice(["x", "y"])))
        # normalise: what a correct read gives for this mesh, and a random id array
        src = point_src(m)
        yield mk_norm(dict(cell="point", start_index=rng.choice([0, 1]), data=spec_point_rows(m, src, m["n"]), pattern="mesh"))
        if m.get("faces"):
            yield mk_norm(dict(cell="face", start_index=rng.choice([0, 1]), data=padded(m["faces"], 0), pattern="mesh"))
            if m.get("ff") is not None:
                yield mk_norm(dict(cell="cc", start_index=rng.choice([0, 1]), data=spec_cconn_rows(m), pattern="mesh"))
        yield mk_norm(gen_norm_random(rng))
        yield mk_norm(gen_norm_random(rng))


# ------------------------------------------------------------------ specification in Python (oracle side)
def spec_point_rows(m, src, n):
    """Row k = node k followed by the sorted set {j : {k, j} is an edge}, padded."""
    nb = {k: set() for k in range(n)}
    if src == "faces":
        for f in m["faces"]:
            for i in range(len(f)):
                a, b = f[i], f[(i + 1) % len(f)]
                nb[a].add(b)
                nb[b].add(a)
    else:
        for e in m["edges"]:
            for a in e:
                for b in e:
                    if a != b:
                        nb[a].add(b)
    w = 1 + max([len(s) for s in nb.values()] + [0])
    return [[k] + sorted(nb[k]) + [None] * (w - 1 - len(nb[k])) for k in range(n)]


def spec_cconn_rows(m):
    ff = m["ff"]
    w = max([len(r) for r in ff] + [1])
    return [[i] + list(r) + [None] * (w - len(r)) for i, r in enumerate(ff)]


def spec_norm(cell, start_index, data):
    """What normalise must return, as a checkable description.

    face/edge: exact array.  point/cc: (first column, per-row multiset of kept
    ids, width)."""
    if cell in ("face", "edge"):
        uniq = sorted({v for r in data for v in r if v is not None})
        return [[None if v is None else uniq.index(v) + start_index for v in r] for r in data]
    ids = [r[0] for r in data]
    pos = {v: k for k, v in enumerate(ids)}
    return [[k + start_index] + sorted(pos[v] + start_index for v in r[1:] if v is not None and v in pos) for k, r in enumerate(data)]


def _unreferenced(m, src, unknown_shape=False):
    rows = m["edges"] if src == "edges" else m["faces"]
    used = {v for r in rows for v in r}
    top = (max(used) + 1) if unknown_shape else m["n"]
    return any(k not in used for k in range(top))


def _boundary(faces):
    """Some face edge is walked in one direction only."""
    directed = set()
    for f in faces:
        for i in range(len(f)):
            directed.add((f[i], f[(i + 1) % len(f)]))
    return any((b, a) not in directed for (a, b) in directed)


# ------------------------------------------------------------------ implementation
def _same(a, b):
    a = np.ma.asanyarray(a)
    b = np.ma.asanyarray(b)
    return a.shape == b.shape and bool((np.ma.getmaskarray(a) == np.ma.getmaskarray(b)).all()) and bool(
        (np.ma.getdata(a)[~np.ma.getmaskarray(a)] == np.ma.getdata(b)[~np.ma.getmaskarray(b)]).all())


def _norm_twice(construct, extra, sort_tail):
    """Second-normalisation facts for the oracle (default arguments, start_index=1, remove_empty_columns)."""
    out = {}
    for label, kw in (("default", {}), ("start_index=1", dict(start_index=1)), ("remove_empty_columns", dict(remove_empty_columns=True))):
        try:
            n1 = construct.normalise(**kw)
            n2 = n1.normalise(**kw)
            out[label] = dict(idem=_same(n1.array, n2.array), value=canon(n1.array, sort_tail))
        except Exception as e:
            out[label] = dict(idem=False, value="raised:" + fw.exc_enum(e))
    extra["norm"] = out


def impl(c):
    C = cfdm()
    p = c.payload
    c.extra = {}
    if c.stream == "C15.norm":
        arr = np_masked(p["data"], dtype=int)
        d = C.Data(arr)
        if p["cell"] == "cc":
            con = C.CellConnectivity(connectivity="edge", data=d)
        else:
            con = C.DomainTopology(cell=p["cell"], data=d)
        before = con.array.copy()
        try:
            n1 = con.normalise(start_index=p["start_index"])
            a1 = n1.array
        except Exception as e:
            return "raised:" + fw.exc_enum(e)
        c.extra["source_unchanged"] = _same(con.array, before)
        try:
            c.extra["idem"] = _same(n1.normalise(start_index=p["start_index"]).array, a1)
        except Exception as e:
            c.extra["idem"] = "raised:" + fw.exc_enum(e)
        try:
            r1 = con.normalise(start_index=p["start_index"], remove_empty_columns=True)
            r2 = r1.normalise(start_index=p["start_index"], remove_empty_columns=True)
            c.extra["idem_rec"] = _same(r1.array, r2.array)
            c.extra["rec"] = canon(r1.array)
        except Exception as e:
            c.extra["idem_rec"] = "raised:" + fw.exc_enum(e)
        return canon(a1)

    if c.stream == "C15.read":
        return impl_read(c)
    if c.stream == "C15.share":
        return impl_share(c)
    m = p["mesh"]
    via = p["via"]
    if via in ("file", "domain"):
        got = read_mesh(m, via == "domain")
        if "error" in got:
            return got["error"]
        if got.get("dup"):
            return "duplicate-constructs"
        loc = {"C15.point": "node", "C15.cconn": "face"}.get(c.stream) or p.get("loc")
        f = got.get(loc)
        if f is None:
            return "missing:" + str(loc)
        try:
            if c.stream in ("C15.point", "C15.cells"):
                dt = f.domain_topology()
                try:
                    c.extra["axis_size"] = f.domain_axes(todict=True)[f.get_data_axes(f.domain_topology(key=True))[0]].get_size()
                except Exception:
                    c.extra["axis_size"] = None
                a = dt.array
                c.extra["cell"] = dt.get_cell(None)
                out = canon(a, sort_tail=c.stream == "C15.point")
                _norm_twice(dt, c.extra, c.stream == "C15.point")
                return out
            if c.stream == "C15.cconn":
                ccs = f.cell_connectivities(todict=True)
                if len(ccs) != 1:
                    return f"cell_connectivities:{len(ccs)}"
                cc = list(ccs.values())[0]
                c.extra["connectivity"] = cc.get_connectivity(None)
                out = canon(cc.array)
                _norm_twice(cc, c.extra, False)
                return out
            if c.stream == "C15.bounds":
                std = "longitude" if p["coord"] == "x" else "latitude"
                aux = f.auxiliary_coordinate(std, default=None)
                if aux is None or not aux.has_bounds():
                    return "missing-bounds"
                return canon(aux.bounds.array)
        except Exception as e:
            import traceback
            c.extra["tb"] = traceback.format_exc()[-800:]
            return "raised:" + fw.exc_enum(e)
    if via == "array":
        try:
            if c.stream == "C15.point":
                src = p["src"]
                w = "e" if src == "edges" else "f"
                conn = np_masked(stored(m, w))
                if not np.ma.is_masked(conn):
                    conn = np.array(conn)
                kw = {("edge" if src == "edges" else "face") + "_node_connectivity": conn}
                shape = None if p.get("unknown_shape") else (m["n"], float("nan"))
                a = C.PointTopologyArray(shape=shape, start_index=m[w + "si"], cell_dimension=m[w + "cd"], **kw)
                return canon(a.array, sort_tail=True)
            if c.stream == "C15.cconn":
                data = np_masked(stored(m, "ff"))
                a = C.CellConnectivityArray(cell_connectivity=data, start_index=m["ffsi"], cell_dimension=m["ffcd"])
                return canon(a.array)
            if c.stream == "C15.bounds":
                w = "f" if p["loc"] == "face" else "e"
                conn = np_masked(stored(m, w))
                if not np.ma.is_masked(conn):
                    conn = np.array(conn)
                shape = conn.shape[::-1] if m[w + "cd"] == 1 else conn.shape
                a = C.BoundsFromNodesArray(node_connectivity=conn, shape=shape, node_coordinates=np.array(m[p["coord"]], dtype=float),
                                           start_index=m[w + "si"], cell_dimension=m[w + "cd"])
                return canon(a.array)
        except Exception as e:
            import traceback
            c.extra["tb"] = traceback.format_exc()[-800:]
            return "raised:" + fw.exc_enum(e)
    raise fw.HarnessError(f"unknown stream/via {c.stream}/{via}")


def _construct_of(f, p, loc):
    what = p["what"]
    if what == "topo":
        return f.domain_topology(default=None)
    if what == "cconn":
        ccs = f.cell_connectivities(todict=True)
        if len(ccs) > 1:
            raise fw.HarnessError("more than one cell connectivity construct")
        return list(ccs.values())[0] if ccs else None
    std = "longitude" if p.get("coord") == "x" else "latitude"
    aux = f.auxiliary_coordinate(std, default=None)
    if aux is None or not aux.has_bounds():
        return None
    return aux.bounds


def impl_read(c):
    p = c.payload
    ds = p["ds"]
    j, loc, sel, name, l = target_info(ds, p["target"])
    m = ds["meshes"][j]
    got = read_dataset(ds, p["via"] == "domain")
    if "error" in got:
        c.extra["tb"] = got.get("tb")
        return got["error"]
    if got.get("dup"):
        return "duplicate-constructs"
    if p["via"] == "domain":
        cell = {"node": "point", "edge": "edge", "face": "face"}[loc]
        f = got.get((f"lis{p['target']['lis']}" if l is not None else "Mesh" + m["sfx"], cell))
        if f is None and l is not None:
            f = got.get((f"lis{p['target']['lis']}", None))
    else:
        f = got.get(name)
    if f is None:
        return "missing-field"
    try:
        if p.get("index") is not None:
            f = f[py_index(p["index"])]
        con = _construct_of(f, p, loc)
        if p["via"] != "domain":
            c.extra["data"] = [float(v) for v in f.data.array.tolist()]
            c.extra["mesh_id"] = f.has_mesh_id()
        axes = f.domain_axes(todict=True)
        c.extra["axis_sizes"] = sorted(a.get_size() for a in axes.values())
        if con is None:
            return "none"
        if p["what"] == "topo":
            c.extra["cell"] = con.get_cell(None)
        if p["what"] == "cconn":
            c.extra["connectivity"] = con.get_connectivity(None)
        c.extra["before_norm"] = canon(con.array, sort_tail=(p["what"] == "topo" and loc == "node"))
        if p.get("norm") is not None:
            n1 = con.normalise(start_index=p["norm"])
            a1 = n1.array
            c.extra["idem"] = _same(n1.normalise(start_index=p["norm"]).array, a1)
            return canon(a1)
        return c.extra["before_norm"]
    except fw.HarnessError:
        raise
    except Exception as e:
        import traceback
        c.extra["tb"] = traceback.format_exc()[-800:]
        return "raised:" + fw.exc_enum(e)


def _all_constructs(f):
    out = {}
    dt = f.domain_topology(default=None)
    out["topo"] = None if dt is None else canon(dt.array, sort_tail=dt.get_cell(None) == "point")
    ccs = f.cell_connectivities(todict=True)
    out["cconn"] = sorted(canon(x.array) for x in ccs.values())
    out["bounds"] = sorted(canon(a.bounds.array) for a in f.auxiliary_coordinates(todict=True).values() if a.has_bounds())
    return out


def impl_share(c):
    """Facts about two fields of one dataset (compared with what they must be by the oracle)."""
    p = c.payload
    C = cfdm()
    got = read_dataset(p["ds"], False)
    if "error" in got:
        return got["error"]
    fa, fb = got.get(p["a"]), got.get(p["b"])
    if fa is None or fb is None:
        return "missing-field"
    facts = {}
    try:
        ida, idb = fa.get_mesh_id(None), fb.get_mesh_id(None)
        facts["ids_set"] = ida is not None and idb is not None
        facts["same_id"] = ida == idb
        if p["kind"] == "same-mesh-same-location":
            facts["equal_constructs"] = _all_constructs(fa) == _all_constructs(fb)
            facts["equals"] = bool(fa.domain.equals(fb.domain))
            # independent copies: changing the constructs of a copy of one field leaves the other alone
            before = _all_constructs(fb)
            g = fa.copy()
            dt = g.domain_topology()
            dt.set_data(C.Data(dt.array + 5))
            for cc in g.cell_connectivities(todict=True).values():
                cc.set_data(C.Data(cc.array + 5))
            dt2 = fa.domain_topology()
            dt2.set_data(C.Data(dt2.array + 7))
            facts["independent"] = _all_constructs(fb) == before
            # restore (the read result is cached for the other cases of this dataset)
            dt2.set_data(C.Data(dt2.array - 7))
        n = fa.data.size
        sub = fa[[n - 1]]
        facts["sub_has_mesh_id"] = sub.has_mesh_id()
        facts["sub_data"] = [float(v) for v in sub.data.array.tolist()] == [float(n - 1)]
    except Exception as e:
        import traceback
        c.extra["tb"] = traceback.format_exc()[-800:]
        return "raised:" + fw.exc_enum(e)
    return json.dumps(facts, sort_keys=True)


def _sorted_tails(s):
    rows = rows_of(s)
    if rows is None:
        return s
    out = []
    for r in rows:
        t = sorted(v for v in r[1:] if v is not None)
        out.append(r[:1] + t + [None] * (len(r) - 1 - len(t)))
    return "rows=" + enc(out)


def agree(c):
    if c.stream == "C15.read":
        p = c.payload
        loc = target_info(p["ds"], p["target"])[1]
        if (p["what"] == "topo" and loc == "node") or p["what"] == "cconn":
            # the order of the connected cells after the cell itself is not part of the property
            return _sorted_tails(c.impl_out) == _sorted_tails(c.model_out)
    return c.impl_out == c.model_out


# ------------------------------------------------------------------ oracle
def oracle(c):
    p = c.payload
    if c.stream == "C15.norm":
        got = rows_of(c.impl_out)
        if got is None:
            return f"normalise did not return an array: {c.impl_out}"
        data = p["data"]
        if c.extra.get("idem") is not True:
            return f"second normalisation changed the value ({c.extra.get('idem')})"
        if c.extra.get("idem_rec") is not True:
            return f"second normalisation with remove_empty_columns changed the value ({c.extra.get('idem_rec')})"
        if c.extra.get("source_unchanged") is not True:
            return "normalise(inplace=False) changed its receiver"
        want = spec_norm(p["cell"], p["start_index"], data)
        if len(got) != len(data) or any(len(r) != len(data[0]) for r in got):
            return f"normalise changed the shape: {c.impl_out}"
        if p["cell"] in ("face", "edge"):
            return None if got == want else f"expected rows={enc(want)} got {c.impl_out}"
        for k, (g, w) in enumerate(zip(got, want)):
            if g[0] != w[0]:
                return f"row {k}: first column {g[0]} is not the cell's own normalised id {w[0]}"
            if sorted(v for v in g[1:] if v is not None) != w[1:]:
                return f"row {k}: connected ids {g[1:]} are not the relabelled connected ids {w[1:]}"
            if all(v is not None or all(x is None for x in data[k][j:]) for j, v in enumerate(data[k])):
                # padding was at the end of the input row: it must still be at the end
                t = [v is None for v in g]
                if t != sorted(t):
                    return f"row {k}: padding is not at the end: {g}"
        return None

    if c.stream == "C15.read":
        return oracle_read(c)
    if c.stream == "C15.share":
        return oracle_share(c)
    m = p["mesh"]
    if c.stream == "C15.point":
        src = p.get("src") or point_src(m)
        rows = m["edges"] if src == "edges" else m["faces"]
        n = m["n"]
        if p.get("unknown_shape"):
            n = 1 + max(v for r in rows for v in r)
        want = spec_point_rows(m, src, n)
        exp = "rows=" + enc(want)
        if c.impl_out != exp:
            return f"expected {exp} got {c.impl_out}"
        if p["via"] != "array":
            if c.extra.get("cell") != "point":
                return f"cell type {c.extra.get('cell')}"
            if c.extra.get("axis_size") not in (None, m["n"]):
                return "domain axis size differs from the number of nodes"
            return _norm_oracle(c, want, "point")
        return None
    if c.stream == "C15.cells":
        rows = m["faces"] if p["loc"] == "face" else m["edges"]
        want = padded(rows, 0)
        exp = "rows=" + enc(want)
        fails = []
        if c.impl_out != exp:
            fails.append(f"expected {exp} got {c.impl_out}")
        if rows_of(c.impl_out) is not None:
            if c.extra.get("cell") != p["loc"]:
                fails.append(f"cell type {c.extra.get('cell')}")
            nf = _norm_oracle(c, want, p["loc"])
            if nf:
                fails.append(nf)
        return " | ".join(fails) or None
    if c.stream == "C15.cconn":
        want = spec_cconn_rows(m)
        exp = "rows=" + enc(want)
        if c.impl_out != exp:
            return f"expected {exp} got {c.impl_out}"
        if p["via"] != "array":
            if c.extra.get("connectivity") != "edge":
                return f"connectivity type {c.extra.get('connectivity')}"
            return _norm_oracle(c, want, "cc")
        return None
    if c.stream == "C15.bounds":
        rows = m["faces"] if p["loc"] == "face" else m["edges"]
        coords = m[p["coord"]]
        w = max(len(r) for r in rows)
        want = [[coords[v] for v in r] + [None] * (w - len(r)) for r in rows]
        exp = "rows=" + enc(want)
        return None if c.impl_out == exp else f"expected {exp} got {c.impl_out}"
    return None


def oracle_read(c):
    p = c.payload
    ds = p["ds"]
    cell, rows, pos = want_rows(ds, p)
    j, loc, sel, name, l = target_info(ds, p["target"])
    fails = []
    if rows is None:
        return None if c.impl_out == "none" else f"no such construct expected, got {c.impl_out}"
    ex = c.extra or {}
    before = "rows=" + enc(rows)
    if p.get("norm") is None:
        if c.impl_out != before:
            fails.append(f"expected {before} got {c.impl_out}")
    else:
        if ex.get("before_norm") != before:
            fails.append(f"before normalise: expected {before} got {ex.get('before_norm')}")
        got = rows_of(c.impl_out)
        if got is None:
            fails.append(f"normalise did not return an array: {c.impl_out}")
        else:
            nf = check_norm(cell, p["norm"], rows, got)
            if nf:
                fails.append("normalise(start_index=%d): %s" % (p["norm"], nf))
            if ex.get("idem") is not True:
                fails.append(f"second normalisation changed the value ({ex.get('idem')})")
    if rows_of(c.impl_out) is not None or c.impl_out == "none":
        if p["what"] == "topo" and ex.get("cell") != {"point": "point", "edge": "edge", "face": "face"}[cell]:
            fails.append(f"cell type {ex.get('cell')}")
        if p["what"] == "cconn" and ex.get("connectivity") != "edge":
            fails.append(f"connectivity type {ex.get('connectivity')}")
        if ex.get("axis_sizes") != [len(pos)]:
            fails.append(f"domain axis sizes {ex.get('axis_sizes')}, expected [{len(pos)}]")
        if p["via"] != "domain":
            if ex.get("data") != [float(i) for i in pos]:
                fails.append(f"field data {ex.get('data')} are not the data of the selected cells {pos}")
            if ex.get("mesh_id") != (p.get("index") is None):
                fails.append(f"mesh id present: {ex.get('mesh_id')}")
    return " | ".join(fails) or None


def oracle_share(c):
    p = c.payload
    want = dict(ids_set=True, same_id=p["kind"] != "other-mesh", sub_has_mesh_id=False, sub_data=True)
    if p["kind"] == "same-mesh-same-location":
        want.update(equal_constructs=True, equals=True, independent=True)
    exp = json.dumps(want, sort_keys=True)
    return None if c.impl_out == exp else f"expected {exp} got {c.impl_out}"


def _norm_oracle(c, want_rows, cell):
    """Normalising what was read: value as specified, unchanged by a second normalisation."""
    facts = c.extra.get("norm") or {}
    for label, si in (("default", 0), ("start_index=1", 1)):
        f = facts.get(label)
        if f is None:
            return "normalise not evaluated"
        if not f["idem"]:
            return f"normalise({label}) of the read construct: second normalisation changed the value / raised ({f['value']})"
        if cell in ("face", "edge"):
            exp = "rows=" + enc(spec_norm(cell, si, want_rows))
        else:
            # a correctly read point/cell-connectivity array is already normal: only the base moves
            exp = "rows=" + enc([[None if v is None else v + si for v in r] for r in want_rows])
        if f["value"] != exp:
            return f"normalise({label}) of the read construct: expected {exp} got {f['value']}"
    f = facts.get("remove_empty_columns")
    if f is None or not f["idem"]:
        return f"normalise(remove_empty_columns=True) of the read construct: second normalisation changed the value / raised ({f and f['value']})"
    return None


# ====================================================================== datasets (streams C15.read, C15.share)
LOCS = ("node", "edge", "face")


def mesh_cells(m, loc):
    """Logical rows of the cells of a location (None: the mesh has no such cells)."""
    if loc == "node":
        return [[k] for k in range(m["n"])]
    return m.get("faces") if loc == "face" else m.get("edges")


_open_sigs = None


def finding_open(sig):
    """Is this known finding still open?  Inputs that end in an open finding are generated as a small,
    still present, share; once the finding is fixed they get their full share."""
    global _open_sigs
    if _open_sigs is None:
        _open_sigs = {k["signature"] for k in fw.known_findings() if k["property"] == "C15" and k.get("status") == "open"}
    return sig in _open_sigs


def gen_dataset(rng):
    """1-3 mesh topology variables in one file; later ones may share the connectivity variables of an
    earlier one (same logical mesh, own node coordinates); data variables; location index sets."""
    nm = rng.choices([1, 2, 3], [5, 4, 1])[0]
    meshes = []
    for j in range(nm):
        roots = [i for i, r in enumerate(meshes) if r["shares"] is None]
        if j > 0 and rng.random() < 0.4:
            i = rng.choice(roots)
            m = copy.deepcopy(meshes[i])
            m["shares"] = i
            m["x"] = [rng.randint(-90, 90) for _ in range(m["n"])]
            m["y"] = [rng.randint(-180, 180) for _ in range(m["n"])]
            m["face_coords"] = False
            m["edge_coords"] = False
            m["extra_conn"] = False
            # the attributes may be written although not needed; they must be when a variable is (other, cell)
            m["fdim_attr"] = rng.random() < 0.5
            m["edim_attr"] = rng.random() < 0.5
        else:
            m = gen_mesh(rng)
            m["shares"] = None
        m["sfx"] = "" if j == 0 else "_" + "bcd"[j - 1]
        m["nvar"] = {loc: rng.choice([1, 1, 2]) for loc in LOCS}
        meshes.append(m)
    lis = []
    nlis = rng.choice([0, 0, 0, 1, 1, 2])
    if finding_open("location-index-set-ignored") and rng.random() < 0.7:
        nlis = 0
    for _ in range(nlis):
        j = rng.randrange(nm)
        m = meshes[j]
        loc = rng.choice([l for l in LOCS if mesh_cells(m, l) is not None])
        ncell = len(mesh_cells(m, loc))
        idx = rng.sample(range(ncell), rng.randint(1, ncell))
        if rng.random() < 0.5:
            idx.sort()
        si = rng.choice([0, 1])
        lis.append(dict(mesh=j, loc=loc, si=si, si_attr=True if si else rng.random() < 0.5, idx=idx))
    # where the data variables on location index sets are defined: after the mesh (usual) or before it
    order = "lis-first" if lis and rng.random() < (0.12 if finding_open("location-index-set-before-mesh-raises-KeyError") else 0.3) else "mesh-first"
    return dict(meshes=meshes, lis=lis, order=order)


def root_of(ds, j):
    m = ds["meshes"][j]
    return ds["meshes"][m["shares"]] if m["shares"] is not None else m


def write_dataset(ds, path):
    """The file, hand-written with netCDF4 only."""
    import netCDF4
    nc = netCDF4.Dataset(path, "w")
    nc.Conventions = "CF-1.11"
    nc.createDimension("Two", 2)
    later = []  # variable creation thunks, in file order

    def conn_var(name, a, dims, si, si_attr, long_name):
        v = nc.createVariable(name, "i4", dims, fill_value=-99)
        v.long_name = long_name
        if si_attr:
            v.start_index = np.int32(si)
        v[...] = np.array([[-99 if x is None else x for x in r] for r in a], dtype="i4")

    def coord_var(name, std, units, dim, vals):
        v = nc.createVariable(name, "f8", (dim,))
        v.standard_name = std
        v.units = units
        v[...] = np.array(vals, dtype=float)

    def data_var(name, dim, size, attrs):
        d = nc.createVariable(name, "f8", (dim,))
        d.standard_name = "air_temperature"
        d.units = "K"
        for k, v in attrs.items():
            setattr(d, k, v)
        d[...] = np.arange(size, dtype=float)

    # dimensions first
    for j, m in enumerate(ds["meshes"]):
        if m["shares"] is not None:
            continue
        x = m["sfx"]
        nc.createDimension("nnode" + x, m["n"])
        if m.get("faces"):
            a = stored(m, "f")
            nc.createDimension("nface" + x, len(m["faces"]))
            nc.createDimension("fW" + x, len(a) if m["fcd"] == 1 else len(a[0]))
            if m.get("ff") is not None:
                a = stored(m, "ff")
                nc.createDimension("ffW" + x, len(a) if m["ffcd"] == 1 else len(a[0]))
        if m.get("edges") is not None:
            nc.createDimension("nedge" + x, len(m["edges"]))
    for k, l in enumerate(ds["lis"]):
        nc.createDimension(f"nsub{k}", len(l["idx"]))

    def mesh_vars(j, m):
        x = m["sfx"]
        r = root_of(ds, j)
        rx = r["sfx"]
        M = nc.createVariable("Mesh" + x, "i4", ())
        M.cf_role = "mesh_topology"
        M.topology_dimension = 2 if m.get("faces") else 1
        M.node_coordinates = f"node_x{x} node_y{x}"
        coord_var("node_x" + x, "longitude", "degrees_east", "nnode" + rx, m["x"])
        coord_var("node_y" + x, "latitude", "degrees_north", "nnode" + rx, m["y"])
        own = m["shares"] is None
        if m.get("faces"):
            M.face_node_connectivity = "face_nodes" + rx
            if own:
                conn_var("face_nodes" + x, stored(m, "f"), ("fW" + x, "nface" + x) if m["fcd"] == 1 else ("nface" + x, "fW" + x),
                         m["fsi"], m["fsi_attr"], "Maps every face to its corner nodes")
            if m["fcd"] == 1 or (m.get("ff") is not None and m["ffcd"] == 1) or m["fdim_attr"]:
                M.face_dimension = "nface" + rx
            if m.get("ff") is not None:
                M.face_face_connectivity = "face_links" + rx
                if own:
                    conn_var("face_links" + x, stored(m, "ff"), ("ffW" + x, "nface" + x) if m["ffcd"] == 1 else ("nface" + x, "ffW" + x),
                             m["ffsi"], m["ffsi_attr"], "neighbour faces for faces")
            if m.get("face_coords"):
                M.face_coordinates = f"face_x{x} face_y{x}"
                coord_var("face_x" + x, "longitude", "degrees_east", "nface" + rx, np.arange(len(m["faces"])) + 0.5)
                coord_var("face_y" + x, "latitude", "degrees_north", "nface" + rx, np.arange(len(m["faces"])) + 0.25)
        if m.get("edges") is not None:
            M.edge_node_connectivity = "edge_nodes" + rx
            if own:
                conn_var("edge_nodes" + x, stored(m, "e"), ("Two", "nedge" + x) if m["ecd"] == 1 else ("nedge" + x, "Two"),
                         m["esi"], m["esi_attr"], "Maps every edge to its two nodes")
            if m["ecd"] == 1 or m["edim_attr"]:
                M.edge_dimension = "nedge" + rx
            if m.get("edge_coords"):
                M.edge_coordinates = f"edge_x{x} edge_y{x}"
                coord_var("edge_x" + x, "longitude", "degrees_east", "nedge" + rx, np.arange(len(m["edges"])) + 0.5)
                coord_var("edge_y" + x, "latitude", "degrees_north", "nedge" + rx, np.arange(len(m["edges"])) + 0.25)
        for loc in LOCS:
            cells = mesh_cells(m, loc)
            if cells is None:
                continue
            for k in range(m["nvar"][loc]):
                data_var(var_name(m, loc, k), "n" + loc + rx, len(cells), dict(mesh="Mesh" + x, location=loc))

    def lis_vars(k, l):
        m = ds["meshes"][l["mesh"]]
        data_var(f"ldata{k}", f"nsub{k}", len(l["idx"]), dict(location_index_set=f"lis{k}"))
        L = nc.createVariable(f"lis{k}", "i4", (f"nsub{k}",))
        L.cf_role = "location_index_set"
        L.mesh = "Mesh" + m["sfx"]
        L.location = l["loc"]
        if l["si_attr"]:
            L.start_index = np.int32(l["si"])
        L[...] = np.array([i + l["si"] for i in l["idx"]], dtype="i4")

    if ds["order"] == "lis-first":
        for k, l in enumerate(ds["lis"]):
            lis_vars(k, l)
    for j, m in enumerate(ds["meshes"]):
        mesh_vars(j, m)
    if ds["order"] != "lis-first":
        for k, l in enumerate(ds["lis"]):
            lis_vars(k, l)
    nc.close()


def var_name(m, loc, k):
    return f"{loc[0]}data{m['sfx']}" + ("" if k == 0 else f"_{k + 1}")


def read_dataset(ds, domain):
    """cfdm.read of the file → {netCDF variable name: field} (domains: {(variable name, cell type): domain})."""
    key = ("ds", json.dumps(ds, sort_keys=True), domain)
    if key in _read_cache:
        return _read_cache[key]
    if len(_read_cache) > 4:
        _read_cache.clear()
    _file_counter[0] += 1
    path = os.path.join(scratch(), f"d_{os.getpid()}_{_file_counter[0]}.nc")
    write_dataset(ds, path)
    C = cfdm()
    out = {}
    try:
        import logging
        lg = logging.getLogger("cfdm")
        lvl = lg.level
        lg.setLevel(logging.ERROR)  # the "Ignoring the UGRID mesh" warning of the unpatched code
        try:
            fs = C.read(path, domain=domain)
        finally:
            lg.setLevel(lvl)
        for f in fs:
            name = f.nc_get_variable(None)
            if domain:
                dt = f.domain_topology(default=None)
                name = (name, dt.get_cell(None) if dt is not None else None)
            if name in out:
                out["dup"] = True
            out[name] = f
    except Exception as e:  # reading a valid UGRID file must not fail
        import traceback
        out["error"] = "raised:" + fw.exc_enum(e)
        out["tb"] = traceback.format_exc()[-600:]
    _read_cache[key] = out
    return out


def target_info(ds, t):
    """(mesh index, location, logical positions selected by a location index set or None, variable name)."""
    if "lis" in t:
        l = ds["lis"][t["lis"]]
        return l["mesh"], l["loc"], list(l["idx"]), f"ldata{t['lis']}", l
    m = ds["meshes"][t["mesh"]]
    return t["mesh"], t["loc"], None, var_name(m, t["loc"], t["k"]), None


def index_positions(index, n):
    """The positions that a Python/numpy index of a size-n axis selects."""
    if index is None:
        return None
    if index["kind"] == "slice":
        a, b, c = index["v"]
        return list(range(n))[slice(a, b, c)]
    return [i % n for i in index["v"]]


def py_index(index):
    if index["kind"] == "slice":
        return slice(*index["v"])
    return list(index["v"])


def _reverses(index, pos, bsize):
    """cfdm's rule (PropertiesDataBounds.__getitem__) for reversing the trailing dimension of 1-d/2-d
    bounds; used only to name the known finding and to tag cases."""
    if index is None:
        return False
    if index["kind"] == "slice":
        st = index["v"][2]
        return bool(st) and st < 0
    return bsize > 1 and pos[-1] < pos[0]


def gen_index(rng, n):
    """A non-empty selection of a size-n axis."""
    for _ in range(20):
        if rng.random() < 0.5:
            a = rng.choice([None, rng.randint(-n, n)])
            b = rng.choice([None, rng.randint(-n, n)])
            c = rng.choice([None, 1, 2, -1, -2, 3])
            index = dict(kind="slice", v=[a, b, c])
        else:
            k = rng.randint(1, n)
            v = rng.sample(range(n), k)
            if rng.random() < 0.4:
                v.sort()
            v = [i - n if rng.random() < 0.2 else i for i in v]
            index = dict(kind="list", v=v)
        if index_positions(index, n):
            return index
    return dict(kind="list", v=[0])


def conn_kv(pre, m, which, rx):
    a = stored(m, which)
    cdim = {"f": "nface", "ff": "nface", "e": "nedge"}[which] + rx
    odim = {"f": "fW" + rx, "ff": "ffW" + rx, "e": "Two"}[which]
    cd = m[which + "cd"]
    dims = f"{odim},{cdim}" if cd == 1 else f"{cdim},{odim}"
    return f"{pre}.d={dims} {pre}.si={m[which + 'si']} {pre}.a={enc(a)}"


def mk_read(p):
    ds = p["ds"]
    t = p["target"]
    j, loc, sel, name, l = target_info(ds, t)
    m = ds["meshes"][j]
    r = root_of(ds, j)
    rx = r["sfx"]
    what = p["what"]
    coords = m[p.get("coord") or "x"]
    fattr = m.get("faces") and (r["fcd"] == 1 or (r.get("ff") is not None and r["ffcd"] == 1) or m["fdim_attr"])
    eattr = m.get("edges") is not None and (r["ecd"] == 1 or m["edim_attr"])
    parts = [f"C15.read what={what} loc={loc} nn={m['n']} fdim={'nface' + rx if fattr else '_'} edim={'nedge' + rx if eattr else '_'}",
             f"coords={fw.fmt_list(coords)}"]
    if m.get("faces"):
        parts.append(conn_kv("fn", r, "f", rx))
        if m.get("ff") is not None:
            parts.append(conn_kv("ff", r, "ff", rx))
    if m.get("edges") is not None:
        parts.append(conn_kv("en", r, "e", rx))
    if l is not None:
        parts.append(f"lis.si={l['si']} lis.idx={fw.fmt_list([i + l['si'] for i in l['idx']])}")
    ncell = len(sel) if sel is not None else len(mesh_cells(m, loc))
    pos = index_positions(p.get("index"), ncell)
    if pos is not None:
        parts.append(f"pos={fw.fmt_list(pos)}")
        if p["index"]["kind"] == "slice":
            parts.append(f"step={p['index']['v'][2] or 1}")
    if p.get("norm") is not None:
        parts.append(f"norm={p['norm']}")
    line = " ".join(parts)
    which = {"topo": {"node": "e" if m.get("edges") is not None else "f", "edge": "e", "face": "f"}[loc], "cconn": "ff", "bounds": "f" if loc == "face" else "e"}[what]
    tags = [f"read:{what}:{loc}", f"read:si={r[which + 'si']}", f"read:cd={r[which + 'cd']}", "read:via:" + p["via"], f"read:meshes={len(ds['meshes'])}"]
    if m.get("faces") and m.get("ff") is not None and r["fcd"] != r["ffcd"]:
        tags.append("read:face-variables-stored-in-different-orders")
    if m["shares"] is not None:
        tags.append("read:mesh-shares-connectivity-variables")
    if t.get("k"):
        tags.append("read:second-data-variable")
    if l is not None:
        tags.append("read:location-index-set")
        tags.append(f"read:lis-si={l['si']}")
    if ds["order"] == "lis-first":
        tags.append("read:data-variable-before-mesh")
    if pos is not None:
        tags.append("read:subspace:" + p["index"]["kind"])
        if what == "bounds" and _reverses(p["index"], pos, 2):
            tags.append("read:bounds-reversing-index")
    if p.get("norm") is not None:
        tags.append("read:normalise")
    if m.get("padded_edge") or r.get("padded_edge"):
        tags.append("read:padded-edge")
    return Case("C15.read", p, line, key=line + p["via"] + name, nontrivial=ncell >= 2, tags=tags)


def mk_share(p):
    ds = p["ds"]
    tags = ["share:" + p["kind"]]
    return Case("C15.share", p, None, nontrivial=True, tags=tags)


def gen_dataset_cases(rng, ds):
    targets = []
    for j, m in enumerate(ds["meshes"]):
        for loc in LOCS:
            if mesh_cells(m, loc) is None:
                continue
            for k in range(m["nvar"][loc]):
                targets.append(dict(mesh=j, loc=loc, k=k))
    for k in range(len(ds["lis"])):
        targets.append(dict(lis=k))
    rng.shuffle(targets)
    lis_t = [t for t in targets if "lis" in t]
    chosen = lis_t + [t for t in targets if "lis" not in t][: max(2, 5 - len(lis_t))]
    if ds["order"] == "lis-first" and finding_open("location-index-set-before-mesh-raises-KeyError"):
        chosen = chosen[:2]  # the whole read fails: a couple of cases say so
    for t in chosen:
        j, loc, sel, name, l = target_info(ds, t)
        m = ds["meshes"][j]
        ncell = len(sel) if sel is not None else len(mesh_cells(m, loc))
        whats = ["topo"]
        if loc != "node" and root_of(ds, j)[("f" if loc == "face" else "e") + "si"] == 1 \
                and finding_open("edge-face-cells-start-index-1-not-shifted") and rng.random() < 0.6:
            whats = []
        if loc != "node":
            whats.append("bounds")
        if loc == "face" and m.get("ff") is not None:
            whats.append("cconn")
        for what in whats:
            via = "domain" if rng.random() < 0.12 else "file"
            base = dict(ds=ds, target=t, what=what, via=via)
            if what == "bounds":
                base["coord"] = rng.choice(["x", "y"])
            yield mk_read(base)
            if via == "file" and rng.random() < 0.6:
                ix = gen_index(rng, ncell)
                if what == "bounds" and _reverses(ix, index_positions(ix, ncell), 2) and rng.random() < 0.75:
                    # keep the known reversal of the bounds a small share of the bounds cases
                    ix = dict(kind="list", v=sorted(set(index_positions(ix, ncell))))
                q = dict(base, index=ix)
                if what != "bounds" and rng.random() < 0.6:
                    q["norm"] = rng.choice([0, 1])
                yield mk_read(q)
            elif what != "bounds" and rng.random() < 0.3:
                yield mk_read(dict(base, norm=rng.choice([0, 1])))
    # fields against each other
    pairs = []
    names = {}
    for j, m in enumerate(ds["meshes"]):
        for loc in LOCS:
            if mesh_cells(m, loc) is not None:
                names[(j, loc)] = [var_name(m, loc, k) for k in range(m["nvar"][loc])]
    for (j, loc), ns in names.items():
        if len(ns) == 2:
            pairs.append(dict(kind="same-mesh-same-location", a=ns[0], b=ns[1], loc=loc))
    keys = list(names)
    for _ in range(2):
        if len(keys) >= 2:
            (j1, l1), (j2, l2) = rng.sample(keys, 2)
            if j1 == j2:
                pairs.append(dict(kind="same-mesh-other-location", a=names[(j1, l1)][0], b=names[(j2, l2)][0]))
            else:
                pairs.append(dict(kind="other-mesh", a=names[(j1, l1)][0], b=names[(j2, l2)][0]))
    if any(m.get("padded_edge") for m in ds["meshes"]):
        return  # the point cells of such a mesh raise (known finding, seen by C15.read / C15.point)
    for pr in pairs[:2]:
        yield mk_share(dict(ds=ds, via="file", **pr))


# ---------------------------------------------------------------- expected values (oracle side, from the logical mesh)
def want_rows(ds, p):
    """(cell kind, rows the construct must hold before normalise) for a C15.read case; rows None = no such construct."""
    t = p["target"]
    j, loc, sel, name, l = target_info(ds, t)
    m = ds["meshes"][j]
    what = p["what"]
    if what == "topo":
        if loc == "node":
            rows = spec_point_rows(m, point_src(m), m["n"])
            cell = "point"
        else:
            cells = mesh_cells(m, loc)
            w = max(len(r) for r in cells)
            rows = [list(r) + [None] * (w - len(r)) for r in cells]
            cell = loc
    elif what == "cconn":
        rows = spec_cconn_rows(m) if (loc == "face" and m.get("ff") is not None) else None
        cell = "cc"
    else:
        cell = "bounds"
        if loc == "node":
            rows = None
        else:
            cells = mesh_cells(m, loc)
            coords = m[p.get("coord") or "x"]
            w = max(len(r) for r in cells)
            rows = [[coords[v] for v in r] + [None] * (w - len(r)) for r in cells]
    if rows is not None and sel is not None:
        rows = [rows[i] for i in sel]
    ncell = len(sel) if sel is not None else len(mesh_cells(m, loc))
    pos = index_positions(p.get("index"), ncell)
    if rows is not None and pos is not None:
        rows = [rows[i] for i in pos]
    return cell, rows, (pos if pos is not None else list(range(ncell)))


def check_norm(cell, start_index, data, got):
    """Is `got` the normalisation of `data`?  face/edge: exact.  point/cc: first column, kept ids as a
    multiset, padding at the end."""
    want = spec_norm(cell, start_index, data)
    if len(got) != len(data) or any(len(r) != len(data[0]) for r in got):
        return f"normalise changed the shape: {enc(got)}"
    if cell in ("face", "edge"):
        return None if got == want else f"expected rows={enc(want)} got rows={enc(got)}"
    for k, (g, w) in enumerate(zip(got, want)):
        if g[0] != w[0]:
            return f"row {k}: first column {g[0]} is not the cell's own normalised id {w[0]}"
        if sorted(v for v in g[1:] if v is not None) != w[1:]:
            return f"row {k}: connected ids {g[1:]} are not the relabelled connected ids {w[1:]}"
        t = [v is None for v in g]
        if t != sorted(t):
            return f"row {k}: padding is not at the end: {g}"
    return None


# ------------------------------------------------------------------ known findings
def old_point_rows(m, src, si, unknown_shape):
    """What the unpatched PointTopology.__getitem__ returns (used only to keep a
    known finding from hiding any *other* deviation)."""
    rows = m["edges"] if src == "edges" else m["faces"]
    if src == "faces" and len({len(r) for r in rows}) > 1:
        return "raised:TypeError"
    used = sorted({v for r in rows for v in r})
    nb = {k: set() for k in used}
    if src == "faces":
        for f in rows:
            for i in range(len(f)):
                a, b = f[i], f[(i + 1) % len(f)]
                nb[b].add(a)  # predecessor only
    else:
        if any(len(r) < 2 for r in rows):
            return "raised:TypeError"
        for a, b in rows:
            nb[a].add(b)
            nb[b].add(a)
    w = 1 + max(len(s) for s in nb.values())
    off = 1 if si else 0
    out = [[k + off] + sorted(v + off for v in nb[k]) + [None] * (w - 1 - len(nb[k])) for k in used]
    return "rows=" + enc(out)


def classify(c):
    """Signature of a known defect, else a coarse `unexpected:` group (never listed as a
    known finding, so it is always reported; grouping keeps one replay per stream/route)."""
    return _known(c) or f"unexpected:{c.stream}:{c.payload.get('via', 'memory')}"


def _known(c):
    p = c.payload
    if c.stream == "C15.point":
        m = p["mesh"]
        src = p.get("src") or point_src(m)
        w = "e" if src == "edges" else "f"
        rows = m["edges"] if src == "edges" else m["faces"]
        if src == "edges" and m.get("padded_edge") and c.impl_out == "raised:TypeError":
            return "point-cells-from-padded-edges-raise-TypeError"
        old = old_point_rows(m, src, m[w + "si"], p.get("unknown_shape"))
        if c.impl_out != old:
            return None  # not (only) the known behaviour: report it
        if old == "raised:TypeError":
            return "point-cells-from-padded-faces-raise-TypeError"
        if _unreferenced(m, src, p.get("unknown_shape")):
            return "point-cells-unreferenced-node-has-no-row"
        if m[w + "si"] == 1:
            return "point-cells-start-index-1-not-shifted"
        if src == "faces" and _boundary(rows):
            return "point-cells-from-faces-boundary-edge-neighbour-lost"
        return None
    if c.stream == "C15.read":
        return _known_read(c)
    if c.stream == "C15.share":
        ds = p["ds"]
        if ds["lis"] and ds["order"] == "lis-first" and c.impl_out == "raised:KeyError":
            return "location-index-set-before-mesh-raises-KeyError"
        return None
    if c.stream == "C15.cells":
        m = p["mesh"]
        w = "f" if p["loc"] == "face" else "e"
        rows = m["faces"] if w == "f" else m["edges"]
        if m[w + "si"] == 1 and c.impl_out == "rows=" + enc(padded(rows, 1)):
            # exactly the stored one-based values, and nothing else wrong (the oracle lists every failure)
            if " | " not in (c.oracle_fail or ""):
                return "edge-face-cells-start-index-1-not-shifted"
    return None


def _known_read(c):
    p = c.payload
    ds = p["ds"]
    j, loc, sel, name, l = target_info(ds, p["target"])
    m = ds["meshes"][j]
    r = root_of(ds, j)
    if ds["lis"] and ds["order"] == "lis-first" and c.impl_out == "raised:KeyError":
        return "location-index-set-before-mesh-raises-KeyError"
    if l is not None:
        # unpatched: the data variable gets no UGRID construct at all (axis and data are right)
        if c.impl_out == "none" and "domain axis" not in (c.oracle_fail or "") and "field data" not in (c.oracle_fail or ""):
            return "location-index-set-ignored"
        if p["via"] == "domain" and c.impl_out == "missing-field":
            return "location-index-set-ignored"
    cell, rows, pos = want_rows(ds, p)
    if rows is None:
        return None
    fail = c.oracle_fail or ""
    if p["what"] == "topo" and loc == "node" and point_src(m) == "edges" and r.get("padded_edge") and c.impl_out == "raised:TypeError":
        return "point-cells-from-padded-edges-raise-TypeError"
    if p["what"] == "topo" and loc in ("edge", "face"):
        w = "f" if loc == "face" else "e"
        if r[w + "si"] == 1:
            one = "rows=" + enc([[None if v is None else v + 1 for v in row] for row in rows])
            seen = c.impl_out if p.get("norm") is None else (c.extra or {}).get("before_norm")
            if seen == one and fail.count(" | ") == 0:
                return "edge-face-cells-start-index-1-not-shifted"
    if p["what"] == "bounds":
        cells = mesh_cells(m, loc)
        w = max(len(x) for x in cells)
        full = len(cells) * w
        flips = 0
        if sel is not None and full > 1 and sel[-1] < sel[0]:
            flips += 1  # (patched reader) bounds[index_set]
        n1 = len(sel) if sel is not None else len(cells)
        if p.get("index") is not None and _reverses(p["index"], index_positions(p["index"], n1), n1 * w):
            flips += 1
        if flips % 2 == 1 and c.impl_out == "rows=" + enc([row[::-1] for row in rows]) and " | " not in fail:
            return "ugrid-bounds-reversed-by-descending-subspace"
    if p["what"] == "cconn" and m["shares"] is not None and r["ffsi"] == 1:
        # first column zero-based, the touched cells still one-based
        old = "rows=" + enc([[row[0]] + [None if v is None else v + 1 for v in row[1:]] for row in rows])
        seen = c.impl_out if p.get("norm") is None else (c.extra or {}).get("before_norm")
        if seen == old:
            return "cell-connectivity-start-index-lost-for-second-mesh"
    return None
