"""C06 — data compressed by convention are seen uncompressed, exactly.

Streams
  C06.rc   cfdm.RaggedContiguousArray            -> Data.array / subspace        (model + oracle)
  C06.ri   cfdm.RaggedIndexedArray               -> Data.array / subspace        (model + oracle)
  C06.ric  cfdm.RaggedIndexedContiguousArray     -> Data.array / subspace        (model + oracle)
  C06.ga   cfdm.GatheredArray (leading/trailing dimensions, unsorted list)       (model + oracle)
  C06.cmp  Field.compress(method) of a masked 2-d/3-d field, then .array          (model + oracle)
  C06.rd   the same four encodings written to a netCDF file by the harness (netCDF4 only), read with
           cfdm.read: reader's count/index/list parsing                            (model + oracle)
  C06.fld  field with same-axes auxiliary coordinates (+bounds): compress, uncompress,
           equals, cfdm.write, independent netCDF4-only decode of the file       (oracle only)

The oracle is a short pure-Python/numpy CF decoder (`cf_*` below) that shares no code
with cfdm.  Every stream also checks, through the oracle, that the source stays
compressed while it is only read (`.array`, subspace, `equals`) and stops being
compressed when it is assigned to.
"""
import os
import tempfile

import numpy as np

from .. import fw
from ..fw import Case, fmt_list
from . import C03 as c03

REQUIRED = [
    "C06_decode_contiguous",
    "C06_decode_indexed",
    "C06_decode_indexed_contiguous",
    "C06_decode_gathered",
    "C06_gathered_hit",
    "C06_gathered_miss",
    "C06_subspace_contiguous",
    "C06_subspace_indexed",
    "C06_compress_contiguous_roundtrip",
    "C06_compress_indexed_roundtrip",
    "C06_compress_indexed_contiguous_roundtrip",
    "C06_extra_dimensions_ragged",
    "C06_extra_dimensions_gathered",
    "C06_indexed_old_code_counterexample",
    "C06_indexed_contiguous_old_code_counterexample",
    "C06_compress_old_code_counterexample",
    "C06_compress_indexed_contiguous_old_code_counterexample",
]
BUDGET = {"quick": 2400, "thorough": 100000}
RULE = (
    "count vectors with zeros / shorter than the number of rows, index vectors in any order with absent "
    "instances, list vectors unsorted and sparse over 1-3 compressed dimensions with 0-1 leading and 0-2 trailing "
    "dimensions, compressed values masked anywhere, dtypes i4/i8/f4/f8, uncompressed shapes larger than needed; "
    "every case optionally followed by a C03-style subspace; masked 2-d/3-d fields (all-masked rows, interior "
    "masked elements, empty profiles and instances) through Field.compress('contiguous'|'indexed'|"
    "'indexed_contiguous'), uncompress, equals and write + netCDF4-only decode. non-trivial = the compressed "
    "array is not empty (decode streams) / the field is not entirely masked (compress streams); distinct = "
    "distinct (stream, full input)"
)
ASSUMPTIONS = [
    "array values are small integers stored as i4/i8/f4/f8 (the model carries abstract elements)",
    "uncompressed shape large enough for the count/index/list variable (otherwise cfdm raises; excluded by the generators)",
    "list variables hold distinct values (CF 8.2); index values lie below the number of instances",
    "leading dimensions of a gathered array and the flattening of trailing dimensions are done by the driver around the proved per-sample decoders (C06_extra_dimensions_* state that this commutes)",
    "the netCDF encoding (count/index/list variables, sample dimension) is checked by an independent netCDF4 decode of files written by cfdm.write, not modelled in Lean",
    "the theorems are proved for the code as repaired by fixes/C06-*.patch; the code as it is has the decide counter-examples C06_*_old_code_counterexample and the open known findings",
]
QUICK_JOBS = 4

_cfdm = None


def cfdm():
    global _cfdm
    if _cfdm is None:
        import cfdm as m
        m.log_level("DISABLE")
        _cfdm = m
    return _cfdm


_scratch = None


def scratch():
    global _scratch
    if _scratch is None or not os.path.isdir(_scratch):
        _scratch = tempfile.mkdtemp(prefix="verif_c06_")
        import atexit, shutil
        atexit.register(shutil.rmtree, _scratch, True)
    return _scratch


def drop_scratch(path):
    """Remove a scratch file and its (then empty) directory: pool workers end without running
    atexit handlers, so nothing may be left for them."""
    global _scratch
    if os.path.exists(path):
        os.remove(path)
    try:
        os.rmdir(os.path.dirname(path))
        _scratch = None
    except OSError:
        pass


SENTINEL = -7  # underlying value of masked elements: shows up if a mask is lost
DTYPES = ["i4", "i8", "f4", "f8"]


# ---------------------------------------------------------------- helpers
def prod(l):
    r = 1
    for x in l:
        r *= x
    return r


def to_ma(flat, shape, dtype):
    """flat list with None for masked -> masked array of the shape."""
    data = np.array([SENTINEL if v is None else v for v in flat], dtype=dtype).reshape(shape)
    mask = np.array([v is None for v in flat], dtype=bool).reshape(shape)
    return np.ma.array(data, mask=mask)


def canon(a):
    a = np.ma.asanyarray(a)
    m = np.ma.getmaskarray(a).flatten()
    d = np.ma.getdata(a).flatten()
    return f"shape={fmt_list(a.shape)} data=" + fmt_list(["--" if mm else int(v) for v, mm in zip(d, m)])


def same(x, y):
    x = np.ma.asanyarray(x)
    y = np.ma.asanyarray(y)
    if x.shape != y.shape:
        return False
    mx, my = np.ma.getmaskarray(x), np.ma.getmaskarray(y)
    if not (mx == my).all():
        return False
    return bool((np.ma.getdata(x)[~mx] == np.ma.getdata(y)[~my]).all())


def mflat(flat):
    return "[" + ",".join("--" if v is None else str(v) for v in flat) + "]"


# ---------------------------------------------------------------- the CF decoder (oracle)
def cf_contiguous(count, shape, c):
    """CF 9.3.3; c has shape [N] + trail."""
    u = np.ma.masked_all(tuple(shape) + c.shape[1:], dtype=c.dtype)
    off = 0
    for i, n in enumerate(count):
        for j in range(n):
            if i < shape[0] and off + j < c.shape[0]:
                u[i, j] = c[off + j]
        off += n
    return u


def cf_indexed(index, shape, c):
    """CF 9.3.4: sample p belongs to instance index[p]; order is kept."""
    u = np.ma.masked_all(tuple(shape) + c.shape[1:], dtype=c.dtype)
    fill = [0] * shape[0]
    for p, i in enumerate(index):
        if i < shape[0]:
            u[i, fill[i]] = c[p]
            fill[i] += 1
    return u


def cf_indexed_contiguous(count, index, shape, c):
    """CF 9.3.5: profile p belongs to instance index[p] and has count[p] samples."""
    u = np.ma.masked_all(tuple(shape) + c.shape[1:], dtype=c.dtype)
    pfill = [0] * shape[0]
    off = 0
    for n, i in zip(count, index):
        j = pfill[i]
        pfill[i] += 1
        for k in range(n):
            u[i, j, k] = c[off + k]
        off += n
    return u


def cf_gathered(lst, lead, dims, c):
    """CF 8.2; c has shape lead + [n] + trail."""
    nl = len(lead)
    trail = c.shape[nl + 1:]
    u = np.ma.masked_all(tuple(lead) + (prod(dims),) + tuple(trail), dtype=c.dtype)
    for k, q in enumerate(lst):
        u[(slice(None),) * nl + (q,)] = c[(slice(None),) * nl + (k,)]
    return u.reshape(tuple(lead) + tuple(dims) + tuple(trail))


def trailing_count(row):
    """Number of leading elements up to the last unmasked one (row: 1-d masked array)."""
    m = np.ma.getmaskarray(row)
    n = len(m)
    while n and m[n - 1]:
        n -= 1
    return n


# ---------------------------------------------------------------- generators
def gen_values(rng, n, pmask):
    return [None if rng.random() < pmask else rng.randint(0, 99) for _ in range(n)]


def gen_trail(rng):
    return rng.choice([[], [], [], [2], [3], [1], [2, 2]])


def gen_ix(rng, shape):
    if rng.random() < 0.45 or any(n == 0 for n in shape):
        return None
    for _ in range(20):
        ix = c03.gen_index(rng, shape)
        if not c03._neg_start_below(ix, shape):  # a C03 known finding, not ours
            return [list(t) for t in ix]
    return None


def gen_rc(rng):
    nrows = rng.randint(1, 5)
    ncols = rng.randint(1, 5)
    style = rng.random()
    nc = nrows if style < 0.85 else rng.randint(0, nrows)
    count = []
    for _ in range(nc):
        r = rng.random()
        count.append(0 if r < 0.3 else ncols if r < 0.45 else rng.randint(0, ncols))
    if rng.random() < 0.05:
        count = [0] * nc
    trail = gen_trail(rng)
    N = sum(count)
    c = gen_values(rng, N * prod(trail), rng.choice([0, 0.15, 0.4]))
    return dict(count=count, shape=[nrows, ncols], trail=trail, c=c, dtype=rng.choice(DTYPES),
                ix=gen_ix(rng, [nrows, ncols] + trail))


def gen_ri(rng):
    nrows = rng.randint(1, 5)
    ncols = rng.randint(1, 5)
    present = [i for i in range(nrows) if rng.random() < 0.65]
    index = []
    for i in present:
        index += [i] * rng.randint(1, ncols)
    r = rng.random()
    if r < 0.6:
        rng.shuffle(index)
    elif r < 0.75:
        index.sort(reverse=True)
    trail = gen_trail(rng)
    c = gen_values(rng, len(index) * prod(trail), rng.choice([0, 0.15, 0.4]))
    return dict(index=index, shape=[nrows, ncols], trail=trail, c=c, dtype=rng.choice(DTYPES),
                ix=gen_ix(rng, [nrows, ncols] + trail))


def gen_ric(rng):
    ninst = rng.randint(1, 4)
    maxp = rng.randint(1, 3)
    nelem = rng.randint(1, 4)
    index = []
    for i in range(ninst):
        if rng.random() < 0.7:
            index += [i] * rng.randint(1, maxp)
    r = rng.random()
    if r < 0.6:
        rng.shuffle(index)
    elif r < 0.75:
        index.sort(reverse=True)
    count = []
    for _ in index:
        q = rng.random()
        count.append(0 if q < 0.25 else nelem if q < 0.4 else rng.randint(0, nelem))
    trail = rng.choice([[], [], [], [2]])
    c = gen_values(rng, sum(count) * prod(trail), rng.choice([0, 0.15, 0.4]))
    return dict(count=count, index=index, shape=[ninst, maxp, nelem], trail=trail, c=c, dtype=rng.choice(DTYPES),
                ix=gen_ix(rng, [ninst, maxp, nelem] + trail))


def gen_ga(rng):
    dims = [rng.randint(1, 4) for _ in range(rng.choice([1, 2, 2, 2, 3]))]
    P = prod(dims)
    k = rng.choice([0, P, rng.randint(0, P), rng.randint(0, P)])
    lst = rng.sample(range(P), k)
    r = rng.random()
    if r < 0.35:
        lst.sort()
    elif r < 0.45:
        lst.sort(reverse=True)
    lead = rng.choice([[], [], [2], [3], [1]])
    trail = rng.choice([[], [], [2], [3], [1, 2]])
    c = gen_values(rng, prod(lead) * len(lst) * prod(trail), rng.choice([0, 0.15, 0.4]))
    return dict(list=lst, lead=lead, dims=dims, trail=trail, c=c, dtype=rng.choice(DTYPES),
                ix=gen_ix(rng, lead + dims + trail))


def gen_masked_rows(rng, nrows, ncols, clean):
    """Rows of a 2-d masked array as flat list; `clean` avoids the inputs of the known findings:
    no masked element before an unmasked one in a row, no all-masked row before a non-empty one."""
    counts = []
    for _ in range(nrows):
        r = rng.random()
        counts.append(0 if r < 0.25 else ncols if r < 0.45 else rng.randint(0, ncols))
    if clean:
        counts = [n for n in counts if n] + [0] * counts.count(0)
    flat = []
    for n in counts:
        row = [rng.randint(0, 99) for _ in range(n)] + [None] * (ncols - n)
        if not clean:
            for j in range(n - 1):
                if rng.random() < 0.2:
                    row[j] = None
        flat += row
    return flat


def gen_cmp(rng, clean=None):
    method = rng.choice(["contiguous", "indexed", "indexed_contiguous"])
    if clean is None:
        clean = rng.random() < 0.3
    if method == "indexed_contiguous":
        shape = [rng.randint(1, 3), rng.randint(1, 3), rng.randint(1, 4)]
        a = []
        insts = []
        for _ in range(shape[0]):
            insts.append(gen_masked_rows(rng, shape[1], shape[2], clean))
        if clean:
            empty = [x for x in insts if all(v is None for v in x)]
            insts = [x for x in insts if not all(v is None for v in x)] + empty
        for x in insts:
            a += x
    else:
        shape = [rng.randint(1, 5), rng.randint(1, 5)]
        a = gen_masked_rows(rng, shape[0], shape[1], clean)
    return dict(method=method, shape=shape, a=a, dtype=rng.choice(DTYPES), clean=clean)


def gen_fld(rng):
    p = gen_cmp(rng, clean=rng.random() < 0.5)
    p["aux"] = rng.choice(["none", "same", "same"] if p["clean"] else ["none", "same", "longer", "shorter"])
    p["bounds"] = rng.random() < 0.4
    p["aseed"] = rng.randrange(1 << 30)
    p["write"] = rng.random() < 0.7
    # netCDF name clashes at the moment the count/index variable is written: the instance axis (or, for
    # indexed contiguous arrays, the outer axis) already owns the name the sample / feature dimension wants
    p["clash"] = rng.choice([None, None, None, "element", "sample", "feature"])
    # a second compressed field with OTHER counts in the same file (0: none, 1: written after, 2: before)
    # (not for indexed contiguous arrays: two of those in one file hit writer/reader defects in how fields
    #  share count/index variables — property C09's subject, recorded there)
    p["second"] = 0 if p["method"] == "indexed_contiguous" else rng.choice([0, 0, 1, 2])
    return p


def gen_rd(rng):
    kind = rng.choice(["rc", "ri", "ric", "ga"])
    p = {"rc": gen_rc, "ri": gen_ri, "ric": gen_ric, "ga": gen_ga}[kind](rng)
    p["kind"] = kind
    p["ix"] = None
    if len(p["trail"]) > 1:
        p["trail"] = p["trail"][:1]
        p["c"] = p["c"][: len(p["c"]) // 2] if kind != "ga" else p["c"]
    if kind == "ga":
        p["lead"] = p["lead"][:1]
        p["c"] = gen_values(rng, prod(p["lead"]) * len(p["list"]) * prod(p["trail"]), rng.choice([0, 0.15, 0.4]))
    else:
        n = sum(p["count"]) if kind in ("rc", "ric") else len(p["index"])
        p["c"] = gen_values(rng, n * prod(p["trail"]), rng.choice([0, 0.15, 0.4]))
    # the shape a reader derives: instances from the file, elements from the largest count
    if kind == "rc":
        p["shape"] = [len(p["count"]), max(p["count"], default=0)]
    elif kind == "ri":
        occ = [p["index"].count(i) for i in range(p["shape"][0])]
        p["shape"] = [p["shape"][0], max(occ, default=0)]
    elif kind == "ric":
        occ = [p["index"].count(i) for i in range(p["shape"][0])]
        p["shape"] = [p["shape"][0], max(occ, default=0), max(p["count"], default=0)]
    return p


def gen(rng, tier, n):
    w = [("rc", 0.18), ("ri", 0.18), ("ric", 0.18), ("ga", 0.15), ("cmp", 0.14), ("rd", 0.1), ("fld", 0.07)]
    for kind, frac in w:
        for _ in range(max(2, int(n * frac))):
            if kind == "rc":
                yield mk("C06.rc", gen_rc(rng))
            elif kind == "ri":
                yield mk("C06.ri", gen_ri(rng))
            elif kind == "ric":
                yield mk("C06.ric", gen_ric(rng))
            elif kind == "ga":
                yield mk("C06.ga", gen_ga(rng))
            elif kind == "cmp":
                yield mk("C06.cmp", gen_cmp(rng))
            elif kind == "rd":
                yield mk("C06.rd", gen_rd(rng))
            else:
                yield mk("C06.fld", gen_fld(rng))


def norm_ix(ix):
    if ix is None:
        return None
    return [tuple(list(t[:1]) + [list(x) if isinstance(x, (list, tuple)) else x for x in t[1:]]) for t in ix]


def mk(stream, p):
    p = dict(p)
    if "ix" in p:
        p["ix"] = norm_ix(p["ix"])
    ixs = "" if p.get("ix") is None else " ix=" + c03.enc_ix(p["ix"])
    tags = []
    if stream == "C06.rd":
        inner = mk("C06." + p["kind"], {k: v for k, v in p.items() if k != "kind"})
        tags = ["rd:" + p["kind"]] + [t for t in inner.tags]
        if not p["c"]:
            tags.append("rd:no-samples")
        return Case(stream, p, inner.line, key="rd " + inner.line, nontrivial=inner.nontrivial, tags=tags)
    if stream == "C06.rc":
        line = f"C06.rc count={fmt_list(p['count'])} shape={fmt_list(p['shape'])} trail={fmt_list(p['trail'])} c={mflat(p['c'])}{ixs}"
        nontrivial = sum(p["count"]) > 0
        if 0 in p["count"]:
            tags.append("rc:zero-count")
        if len(p["count"]) < p["shape"][0]:
            tags.append("rc:count-shorter-than-rows")
    elif stream == "C06.ri":
        line = f"C06.ri index={fmt_list(p['index'])} shape={fmt_list(p['shape'])} trail={fmt_list(p['trail'])} c={mflat(p['c'])}{ixs}"
        nontrivial = len(p["index"]) > 0
        if absent_below_max(p["index"]):
            tags.append("ri:absent-instance")
        if p["index"] != sorted(p["index"]):
            tags.append("ri:unsorted")
    elif stream == "C06.ric":
        line = (f"C06.ric count={fmt_list(p['count'])} index={fmt_list(p['index'])} shape={fmt_list(p['shape'])} "
                f"trail={fmt_list(p['trail'])} c={mflat(p['c'])}{ixs}")
        nontrivial = sum(p["count"]) > 0
        if absent_below_max(p["index"]):
            tags.append("ric:absent-instance")
        if 0 in p["count"]:
            tags.append("ric:zero-count")
        if p["index"] != sorted(p["index"]):
            tags.append("ric:unsorted")
        if p["trail"] and ic_trailing(p["shape"], p["trail"]):
            tags.append("ric:trailing-dim-longer-than-elements")
    elif stream == "C06.ga":
        line = (f"C06.ga list={fmt_list(p['list'])} lead={fmt_list(p['lead'])} dims={fmt_list(p['dims'])} "
                f"trail={fmt_list(p['trail'])} c={mflat(p['c'])}{ixs}")
        nontrivial = len(p["list"]) > 0
        if p["list"] != sorted(p["list"]):
            tags.append("ga:unsorted")
        if p["lead"]:
            tags.append("ga:leading-dim")
    elif stream == "C06.cmp":
        line = f"C06.cmp method={p['method']} shape={fmt_list(p['shape'])} a={mflat(p['a'])}"
        nontrivial = any(v is not None for v in p["a"])
        tags += ["cmp:" + p["method"]] + ["cmp:" + t for t in triggers(p)]
    else:
        line = None
        nontrivial = any(v is not None for v in p["a"])
        tags += ["fld:" + p["method"], "fld:aux=" + p["aux"]] + ["fld:" + t for t in triggers(p)]
        if p["write"]:
            tags.append("fld:write")
    if p.get("trail"):
        tags.append("trailing-dims")
    if p.get("ix") is not None:
        tags.append("subspace")
    return Case(stream, p, line, key=(line or stream + repr(sorted(p.items(), key=str))), nontrivial=nontrivial, tags=tags)


def from_payload(stream, payload):
    return mk(stream, payload)


# ---------------------------------------------------------------- implementation
def build(stream, p):
    """The compressed cfdm.Data, built through the public constructors."""
    C = cfdm()
    trail = p["trail"]
    if stream == "C06.ga":
        n = len(p["list"])
        carr = to_ma(p["c"], p["lead"] + [n] + trail, p["dtype"])
        nl = len(p["lead"])
        arr = C.GatheredArray(
            compressed_array=C.Data(carr), shape=tuple(p["lead"] + p["dims"] + trail),
            compressed_dimensions={nl: tuple(range(nl, nl + len(p["dims"])))},
            list_variable=C.List(data=C.Data(np.array(p["list"], dtype=int))))
        return C.Data(arr), carr
    N = len(p["c"]) // prod(trail)
    carr = to_ma(p["c"], [N] + trail, p["dtype"])
    shape = tuple(p["shape"] + trail)
    if stream == "C06.rc":
        arr = C.RaggedContiguousArray(compressed_array=C.Data(carr), shape=shape,
                                      count_variable=C.Count(data=C.Data(np.array(p["count"], dtype=int))))
    elif stream == "C06.ri":
        arr = C.RaggedIndexedArray(compressed_array=C.Data(carr), shape=shape,
                                   index_variable=C.Index(data=C.Data(np.array(p["index"], dtype=int))))
    else:
        arr = C.RaggedIndexedContiguousArray(
            compressed_array=C.Data(carr), shape=shape,
            count_variable=C.Count(data=C.Data(np.array(p["count"], dtype=int))),
            index_variable=C.Index(data=C.Data(np.array(p["index"], dtype=int))))
    return C.Data(arr), carr


CTYPE = {"C06.rc": "ragged contiguous", "C06.ri": "ragged indexed", "C06.ric": "ragged indexed contiguous",
         "C06.ga": "gathered"}


def make_field(p, arr):
    C = cfdm()
    f = C.Field()
    f.set_properties({"standard_name": "air_temperature", "featureType": "timeSeries" if len(p["shape"]) == 2 else "timeSeriesProfile"})
    axes = [f.set_construct(C.DomainAxis(n)) for n in arr.shape]
    f.set_data(C.Data(arr), axes=axes)
    return f, axes


def impl(c):
    C = cfdm()
    p = c.payload
    if c.stream in CTYPE:
        d, carr = build(c.stream, p)
        ex = dict(ctype0=d.get_compression_type())
        full = d.array
        ex["full"] = full
        ex["ctype_after_array"] = d.get_compression_type()
        ex["dtype"] = str(d.dtype)
        out = canon(full)
        if p.get("ix") is not None:
            try:
                sub = d[c03.py_ix(p["ix"])]
                out = canon(sub.array)
            except Exception as e:
                out = "raised:" + fw.exc_enum(e)
            ex["ctype_after_subspace"] = d.get_compression_type()
        # equality with the uncompressed data, and with a perturbed copy
        e = C.Data(full.copy())
        ex["eq"] = bool(d.equals(e)) and bool(e.equals(d))
        if full.size and not np.ma.getmaskarray(full).all():
            g = full.copy()
            pos = tuple(np.argwhere(~np.ma.getmaskarray(g))[0])
            g[pos] = g[pos] + 1
            ex["neq"] = not d.equals(C.Data(g))
            h = full.copy()
            h[pos] = np.ma.masked
            ex["neq_mask"] = not d.equals(C.Data(h))
        ex["compressed_same"] = same(d.compressed_array, carr)
        # assignment uncompresses
        if full.size:
            d2 = d.copy()
            pos = tuple(0 for _ in full.shape)
            d2[pos] = 55
            ex["ctype_after_set"] = d2.get_compression_type()
            want = full.copy()
            want[pos] = 55
            ex["set_ok"] = same(d2.array, want)
            ex["src_after_copy_set"] = d.get_compression_type()
        c.extra = ex
        return out
    if c.stream == "C06.cmp":
        arr = to_ma(p["a"], p["shape"], p["dtype"])
        f, _ = make_field(p, arr)
        g = f.compress(p["method"])
        ex = dict(ctype=g.data.get_compression_type(), src_ctype=f.data.get_compression_type())
        ex["count"] = None if g.data.get_count(None) is None else g.data.get_count().array.tolist()
        ex["index"] = None if g.data.get_index(None) is None else g.data.get_index().array.tolist()
        ex["carr"] = g.data.compressed_array
        full = g.array
        ex["full"] = full
        u = g.uncompress()
        ex["unc_ctype"] = u.data.get_compression_type()
        ex["unc_same"] = same(u.array, full)
        ex["ctype_after"] = g.data.get_compression_type()
        c.extra = ex
        return canon(full)
    if c.stream == "C06.fld":
        return impl_fld(c)
    if c.stream == "C06.rd":
        path = os.path.join(scratch(), f"r_{os.getpid()}.nc")
        try:
            write_file_independently(path, p)
            fs = C.read(path)
            fs = [f for f in fs if f.get_property("standard_name", None) == "air_temperature"]
            if len(fs) != 1:
                c.extra = dict(fail=f"{len(fs)} fields read")
                return "fail"
            d = fs[0].data
            full = d.array
            c.extra = dict(full=full, ctype=d.get_compression_type())
            return canon(full)
        finally:
            drop_scratch(path)
    raise fw.HarnessError("unknown stream " + c.stream)


def write_file_independently(path, p):
    """A CF-netCDF file holding the compressed array of the case, written with netCDF4 only."""
    import netCDF4
    kind = p["kind"]
    trail = p["trail"]
    ds = netCDF4.Dataset(path, "w")
    try:
        ds.Conventions = "CF-1.8"
        tdims = []
        for k, t in enumerate(trail):
            ds.createDimension(f"t{k}", t)
            tdims.append(f"t{k}")
        fill = -99
        if kind == "ga":
            n = len(p["list"])
            ldims = []
            for k, t in enumerate(p["lead"]):
                ds.createDimension(f"l{k}", t)
                ldims.append(f"l{k}")
            names = []
            for k, t in enumerate(p["dims"]):
                ds.createDimension(f"d{k}", t)
                names.append(f"d{k}")
            ds.createDimension("points", n)
            lv = ds.createVariable("points", "i4", ("points",))
            lv.compress = " ".join(names)
            lv[...] = np.array(p["list"], dtype="i4")
            v = ds.createVariable("temp", p["dtype"], tuple(ldims + ["points"] + tdims), fill_value=fill)
            v.standard_name = "air_temperature"
            v[...] = to_ma(p["c"], p["lead"] + [n] + trail, p["dtype"])
            return
        N = len(p["c"]) // prod(trail)
        ds.featureType = "timeSeries" if kind in ("rc", "ri") else "timeSeriesProfile"
        ds.createDimension("station", p["shape"][0])
        ds.createDimension("obs", N)
        if kind == "rc":
            cv = ds.createVariable("row_size", "i4", ("station",))
            cv.sample_dimension = "obs"
            cv[...] = np.array(p["count"], dtype="i4")
        elif kind == "ri":
            iv = ds.createVariable("station_index", "i4", ("obs",))
            iv.instance_dimension = "station"
            iv[...] = np.array(p["index"], dtype="i4")
        else:
            ds.createDimension("profile", len(p["count"]))
            cv = ds.createVariable("row_size", "i4", ("profile",))
            cv.sample_dimension = "obs"
            cv[...] = np.array(p["count"], dtype="i4")
            iv = ds.createVariable("station_index", "i4", ("profile",))
            iv.instance_dimension = "station"
            iv[...] = np.array(p["index"], dtype="i4")
        v = ds.createVariable("temp", p["dtype"], tuple(["obs"] + tdims), fill_value=fill)
        v.standard_name = "air_temperature"
        v[...] = to_ma(p["c"], [N] + trail, p["dtype"])
    finally:
        ds.close()


def aux_array(p, arr):
    """An auxiliary coordinate array on the same axes whose trailing mask relates to the data's as asked."""
    r = np.random.RandomState(p["aseed"] % (1 << 31))
    rows = arr.reshape(-1, arr.shape[-1])
    a = np.ma.array(np.arange(rows.size, dtype="f8").reshape(rows.shape) + 1000, mask=False)
    for i in range(rows.shape[0]):
        n = trailing_count(rows[i])
        if p["aux"] == "longer":
            n = min(rows.shape[1], n + r.randint(0, 2))
        elif p["aux"] == "shorter":
            n = max(0, n - r.randint(0, 2))
        a[i, n:] = np.ma.masked
    return a.reshape(arr.shape)


def impl_fld(c):
    C = cfdm()
    p = c.payload
    arr = to_ma(p["a"], p["shape"], p["dtype"])
    f, axes = make_field(p, arr)
    aux = None
    if p["aux"] != "none":
        aux = aux_array(p, arr)
        x = C.AuxiliaryCoordinate(properties={"standard_name": "altitude", "units": "m"}, data=C.Data(aux))
        if p["bounds"]:
            b = np.ma.masked_all(aux.shape + (2,), dtype="f8")
            b[..., 0] = aux - 0.5
            b[..., 1] = aux + 0.5
            x.set_bounds(C.Bounds(data=C.Data(b)))
        f.set_construct(x, axes=axes)
    # a coordinate on the instance axis only: must be left alone
    st = C.AuxiliaryCoordinate(properties={"long_name": "station"}, data=C.Data(np.arange(arr.shape[0]) * 10.0))
    f.set_construct(st, axes=[axes[0]])
    ex = dict(fail=None, aux=aux)

    def fail(msg):
        if ex["fail"] is None:
            ex["fail"] = msg

    g = f.compress(p["method"])
    want_type = "ragged " + p["method"].replace("_", " ")
    if g.data.get_compression_type() != want_type:
        fail(f"compression type {g.data.get_compression_type()!r}")
    if f.data.get_compression_type() != "":
        fail("compress(inplace=False) compressed the source")
    if not same(g.array, arr):
        fail("field data after compress differ from the original")
    if aux is not None:
        ga = g.auxiliary_coordinate("altitude")
        if not same(ga.array, aux):
            fail("same-axes auxiliary coordinate after compress differs from the original")
        if ga.data.get_compression_type() != want_type:
            fail("same-axes auxiliary coordinate not compressed")
        if p["bounds"] and not same(ga.bounds.array, f.auxiliary_coordinate("altitude").bounds.array):
            fail("bounds of the same-axes auxiliary coordinate differ after compress")
    if not same(g.auxiliary_coordinate("long_name=station").array, st.array):
        fail("instance-axis coordinate changed by compress")
    if g.data.get_compression_type() != want_type:
        fail("reading the array uncompressed the data")
    try:
        if not g.equals(f) or not f.equals(g):
            fail("compressed field does not equal the original")
    except Exception as e:
        fail("equals raised " + repr(e)[:100])
    u = g.uncompress()
    if u.data.get_compression_type() != "" or not same(u.array, arr):
        fail("uncompress: still compressed or array differs")
    if aux is not None and (u.auxiliary_coordinate("altitude").data.get_compression_type() != ""
                            or not same(u.auxiliary_coordinate("altitude").array, aux)):
        fail("uncompress: auxiliary coordinate still compressed or differs")
    ex["file"] = None
    if p["write"]:
        path = os.path.join(scratch(), f"f_{os.getpid()}.nc")
        try:
            towrite = [g]
            if p.get("clash"):
                g.domain_axis(axes[0]).nc_set_dimension(p["clash"])
            if p.get("second"):
                # same shape, other counts: the rows in reverse order with one more trailing element masked
                arr2 = np.ma.array(arr[..., ::-1, :].copy()) if arr.ndim == 2 else np.ma.array(arr[:, ::-1, :].copy())
                arr2[..., -1] = np.ma.masked
                f2, _ = make_field(p, arr2)
                f2.set_property("standard_name", "air_pressure")
                g2 = f2.compress(p["method"])
                towrite = [g, g2] if p["second"] == 1 else [g2, g]
            C.write(towrite, path)
            ex["file"] = read_file_independently(path, p, arr.shape)
            h = C.read(path)
            if len(towrite) == 1 and len(h) != 1:
                fail(f"cfdm.read returned {len(h)} fields")
            # (with a second field in the file only the DATA of this one are C06's business: whether the two
            #  fields' coordinates interfere is property C09)
            h = [x for x in h if x.get_property("standard_name", None) == "air_temperature"]
            if len(h) != 1:
                fail(f"cfdm.read returned {len(h)} air_temperature fields")
            else:
                h = h[0]
                if h.data.get_compression_type() != want_type:
                    fail("re-read field is not compressed: " + repr(h.data.get_compression_type()))
                if not same_up_to_padding(h.array, arr):
                    fail("re-read field data differ from the original")
        except Exception as e:
            fail("write/read raised " + repr(e)[:200])
        finally:
            drop_scratch(path)
    c.extra = ex
    return "ok" if ex["fail"] is None else "fail"


def same_up_to_padding(x, y):
    """Equal after removing trailing all-masked hyper-rows on every axis (a reader sizes the
    uncompressed array by the largest count)."""
    x = np.ma.asanyarray(x)
    y = np.ma.asanyarray(y)
    if x.ndim != y.ndim:
        return False
    shape = [max(a, b) for a, b in zip(x.shape, y.shape)]

    def pad(z):
        u = np.ma.masked_all(shape, dtype=z.dtype)
        u[tuple(slice(0, n) for n in z.shape)] = z
        return u
    return same(pad(x), pad(y))


def read_file_independently(path, p, shape):
    """netCDF4-only decode of the written dataset (no cfdm)."""
    import netCDF4
    ds = netCDF4.Dataset(path)
    try:
        out = dict(vars={})
        dvar = [v for v in ds.variables.values() if getattr(v, "standard_name", None) == "air_temperature"]
        if len(dvar) != 1:
            return dict(error="no single data variable")
        dvar = dvar[0]
        out["data_dims"] = list(dvar.dimensions)
        if dvar.ndim != 1:
            return dict(error=f"data variable written with dimensions {dvar.dimensions}: not compressed")
        sample = dvar.dimensions[0]
        countv = [v for v in ds.variables.values() if getattr(v, "sample_dimension", None) == sample]
        indexv = [v for v in ds.variables.values() if hasattr(v, "instance_dimension")]
        c = np.ma.asanyarray(dvar[...])
        alt = [v for v in ds.variables.values() if getattr(v, "standard_name", None) == "altitude"]
        ac = None
        if alt:
            if alt[0].dimensions != dvar.dimensions:
                return dict(error="auxiliary coordinate variable not on the sample dimension")
            ac = np.ma.asanyarray(alt[0][...])
        m = p["method"]
        if m == "contiguous":
            if len(countv) != 1 or indexv:
                return dict(error="expected exactly one count variable and no index variable")
            count = [int(x) for x in countv[0][...]]
            if len(ds.dimensions[countv[0].dimensions[0]]) > shape[0]:
                return dict(error="more instances in the file than in the field")
            dec = lambda a: cf_contiguous(count, shape, a)
        elif m == "indexed":
            # (another field of the same file may have an index variable of its own, on its own sample dimension)
            indexv = [v for v in indexv if v.dimensions == (sample,)]
            if len(indexv) != 1 or countv:
                return dict(error="expected exactly one index variable on the sample dimension and no count variable")
            index = [int(x) for x in indexv[0][...]]
            dec = lambda a: cf_indexed(index, shape, a)
        else:
            if len(countv) != 1:
                return dict(error="expected one count variable naming the sample dimension")
            indexv = [v for v in indexv if v.dimensions == countv[0].dimensions]
            if len(indexv) != 1:
                return dict(error="expected one index variable on the count variable's dimension")
            count = [int(x) for x in countv[0][...]]
            index = [int(x) for x in indexv[0][...]]
            dec = lambda a: cf_indexed_contiguous(count, index, shape, a)
        out["data"] = dec(c)
        out["aux"] = None if ac is None else dec(ac)
        return out
    finally:
        ds.close()


def agree(c):
    return c.impl_out == c.model_out


# ---------------------------------------------------------------- oracle
def spec_array(stream, p):
    trail = p["trail"]
    if stream == "C06.ga":
        c = to_ma(p["c"], p["lead"] + [len(p["list"])] + trail, p["dtype"])
        return cf_gathered(p["list"], p["lead"], p["dims"], c)
    N = len(p["c"]) // prod(trail)
    c = to_ma(p["c"], [N] + trail, p["dtype"])
    if stream == "C06.rc":
        return cf_contiguous(p["count"], p["shape"], c)
    if stream == "C06.ri":
        return cf_indexed(p["index"], p["shape"], c)
    return cf_indexed_contiguous(p["count"], p["index"], p["shape"], c)


def oracle(c):
    """Verdict of the independent oracle.  Afterwards `c.extra` is replaced by a short string
    (the full uncompressed array the implementation showed), which is what survives the trip
    from a worker process to `classify`."""
    r = _oracle(c)
    ex = c.extra if isinstance(c.extra, dict) else None
    if ex is not None and "full" in ex:
        c.extra = "full:" + canon(ex["full"])
    elif ex is not None:
        c.extra = "fail:" + str(ex.get("fail"))
    return r


def _oracle(c):
    p = c.payload
    ex = c.extra if isinstance(c.extra, dict) else None
    if c.stream in CTYPE:
        if ex is None:
            return "implementation raised: " + str(c.impl_out)
        u = spec_array(c.stream, p)
        if not same(ex["full"], u):
            return f"uncompressed array differs from the CF definition: got {canon(ex['full'])} want {canon(u)}"
        if ex["dtype"] != str(np.dtype(p["dtype"])):
            return f"dtype {ex['dtype']} != {p['dtype']}"
        if p.get("ix") is not None:
            pos = c03.expand([tuple(t) for t in p["ix"]], list(u.shape))
            r = u
            for ax, q in enumerate(pos):
                r = np.ma.take(r, q, axis=ax) if len(q) else r[(slice(None),) * ax + (slice(0, 0),)]
            if c.impl_out != canon(r):
                return f"subspace differs from the per-axis take of the CF array: got {c.impl_out} want {canon(r)}"
            if ex["ctype_after_subspace"] != CTYPE[c.stream]:
                return "subspacing uncompressed the source"
        if ex["ctype0"] != CTYPE[c.stream] or ex["ctype_after_array"] != CTYPE[c.stream]:
            return f"compression type {ex['ctype0']!r} / after .array {ex['ctype_after_array']!r}"
        if not ex["eq"]:
            return "compressed data do not equal the same data uncompressed"
        if not ex.get("neq", True) or not ex.get("neq_mask", True):
            return "compressed data equal a different array"
        if not ex["compressed_same"]:
            return "compressed_array is not the array that was supplied"
        if "ctype_after_set" in ex:
            if ex["ctype_after_set"] != "":
                return "data still compressed after assignment"
            if not ex["set_ok"]:
                return "array after assignment is not the uncompressed array with the element replaced"
            if ex["src_after_copy_set"] != CTYPE[c.stream]:
                return "assigning to a copy uncompressed the original"
        return None
    if c.stream == "C06.rd":
        if ex is None:
            return "implementation raised: " + str(c.impl_out)
        if ex.get("fail"):
            return ex["fail"]
        u = spec_array("C06." + p["kind"], p)
        if not same(ex["full"], u):
            return f"array read from the file differs from the CF definition: got {canon(ex['full'])} want {canon(u)}"
        if ex["ctype"] != CTYPE["C06." + p["kind"]]:
            return f"data read from the file have compression type {ex['ctype']!r}"
        return None
    if c.stream == "C06.cmp":
        if ex is None:
            return "implementation raised: " + str(c.impl_out)
        arr = to_ma(p["a"], p["shape"], p["dtype"])
        want_type = "ragged " + p["method"].replace("_", " ")
        if not same(ex["full"], arr):
            return f"array after compress differs from the original: got {canon(ex['full'])} want {canon(arr)}"
        if ex["ctype"] != want_type or ex["ctype_after"] != want_type:
            return f"compression type {ex['ctype']!r}"
        if ex["src_ctype"] != "":
            return "compress(inplace=False) compressed the source"
        if ex["unc_ctype"] != "" or not ex["unc_same"]:
            return "uncompress: still compressed or array changed"
        # the count/index variables and the compressed array decode independently to the same array
        carr = np.ma.asanyarray(ex["carr"])
        if p["method"] == "contiguous":
            u = cf_contiguous(ex["count"], p["shape"], carr)
        elif p["method"] == "indexed":
            u = cf_indexed(ex["index"], p["shape"], carr)
        else:
            u = cf_indexed_contiguous(ex["count"], ex["index"], p["shape"], carr)
        if not same(u, arr):
            return "independent decode of the count/index variables and compressed array differs from the original"
        return None
    if c.stream == "C06.fld":
        if ex is None:
            return "implementation raised: " + str(c.impl_out) + " " + str(c.extra)[-300:]
        if ex["fail"]:
            return ex["fail"]
        if p["write"]:
            fl = ex["file"]
            if fl is None or "error" in fl:
                return "file: " + str(fl)
            arr = to_ma(p["a"], p["shape"], p["dtype"])
            if not same(fl["data"], arr):
                return "independent decode of the written file differs from the original field data"
            if ex["aux"] is not None and (fl["aux"] is None or not same(fl["aux"], ex["aux"])):
                return "independent decode of the written auxiliary coordinate differs"
        return None
    return None


# ---------------------------------------------------------------- findings
def absent_below_max(index):
    """Some instance below the largest one that occurs has no sample: np.unique(index) != range(k)."""
    s = sorted(set(index))
    return s != list(range(len(s)))


def rows_of(p):
    ncols = p["shape"][-1]
    a = p["a"]
    return [a[i:i + ncols] for i in range(0, len(a), ncols)]


def triggers(p):
    """Which inputs of the known compress findings does a compress case contain?  Computed from the
    payload alone.  `used` are the counts the code as it is now derives: from the same-axes auxiliary
    coordinate if there is one, else from the field data."""
    rows = rows_of(p)
    cnt = []
    for r in rows:
        n = len(r)
        while n and r[n - 1] is None:
            n -= 1
        cnt.append(n)
    used = cnt
    out = []
    if p.get("aux", "none") != "none":
        arr = to_ma(p["a"], p["shape"], p["dtype"])
        aux = aux_array(p, arr).reshape(-1, arr.shape[-1])
        used = [trailing_count(x) for x in aux]
        if any(u < n for u, n in zip(used, cnt)):
            out.append("aux-shorter")
    if any(any(v is None for v in r[:u]) for r, u in zip(rows, used)):
        out.append("interior-mask")
    written = bool(p.get("write"))
    if p["method"] in ("contiguous", "indexed"):
        if any(a == 0 and any(b > 0 for b in used[i + 1:]) for i, a in enumerate(used)):
            out.append("empty-row-before-nonempty")
        elif written and p["method"] == "contiguous" and 0 in used:
            out.append("empty-row-written")
    else:
        mp = p["shape"][1]
        per = [used[i:i + mp] for i in range(0, len(used), mp)]
        if any(any(a == 0 and any(b > 0 for b in x[j + 1:]) for j, a in enumerate(x)) for x in per):
            out.append("empty-profile-before-nonempty")
        ne = [any(x) for x in per]
        if any((not a) and any(ne[i + 1:]) for i, a in enumerate(ne)):
            out.append("empty-instance-before-nonempty")
    return out


# -- what the code as it is now computes (used only to decide whether a failure is one of the known ones)
def old_decode_indexed(index, shape, c):
    u = np.ma.masked_all(tuple(shape) + c.shape[1:], dtype=c.dtype)
    for r, i in enumerate(sorted(set(index))):
        if r >= shape[0]:
            break
        pos = [k for k, x in enumerate(index) if x == i]
        if pos:
            u[r, :len(pos)] = c[pos]
    return u


def old_decode_ic(count, index, shape, c):
    u = np.ma.masked_all(tuple(shape) + c.shape[1:], dtype=c.dtype)
    cps = np.cumsum(count).tolist() if count else []
    rows = []
    for i in sorted(set(index)):
        locs = [k for k, x in enumerate(index) if x == i]
        for j in locs:
            rows.append((0 if not j else cps[j - 1], cps[j]))
        rows += [(0, 0)] * (shape[1] - len(locs))
    for r, (a, b) in enumerate(rows[: shape[0] * shape[1]]):
        if b > a:
            u[r // shape[1], r % shape[1], : b - a] = c[a:b]
    return u


def old_compress(p):
    """Array seen after Field.compress as coded now: interior masks are lost (the value under the
    mask shows), zero counts are dropped, instances are placed by rank."""
    arr = to_ma(p["a"], p["shape"], p["dtype"])
    rows = arr.reshape(-1, arr.shape[-1])
    cnt = [trailing_count(r) for r in rows]
    packed = np.concatenate([np.ma.getdata(r)[:n] for r, n in zip(rows, cnt)] + [np.zeros(0, dtype=arr.dtype)])
    packed = np.ma.array(packed, mask=False)
    if p["method"] == "contiguous":
        return cf_contiguous([n for n in cnt if n], p["shape"], packed)
    if p["method"] == "indexed":
        index = [i for i, n in enumerate(cnt) for _ in range(n)]
        return old_decode_indexed(index, p["shape"], packed)
    mp = p["shape"][1]
    index = []
    for i in range(p["shape"][0]):
        index += [i] * sum(n > 0 for n in cnt[i * mp:(i + 1) * mp])
    return old_decode_ic([n for n in cnt if n], index, p["shape"], packed)


def ic_trailing(shape, trail):
    """RaggedIndexedContiguousArray.subarrays slices a trailing dimension with the extent of the
    dimension before it: harmless only when that extent is not smaller."""
    ext = [shape[2]] + list(trail)
    return any(a < b for a, b in zip(ext, ext[1:]))


def classify(c):
    """Signature of a known finding, or None.  For the streams that have a model the failure must
    be *exactly* what the code as it is now is known to compute (`old_*`); anything else stays
    unclassified and is reported."""
    p = c.payload
    full = c.extra[5:] if isinstance(c.extra, str) and c.extra.startswith("full:") else None
    msg = c.extra[5:] if isinstance(c.extra, str) and c.extra.startswith("fail:") else ""
    raised = str(c.impl_out).startswith("raised:ValueError")
    kind = p.get("kind") if c.stream == "C06.rd" else c.stream[4:]
    if c.stream in ("C06.ri", "C06.ric", "C06.rd") and kind in ("ri", "ric"):
        if kind == "ric" and raised and p["trail"] and ic_trailing(p["shape"], p["trail"]):
            return "indexed-contiguous-trailing-dimension-longer-than-elements"
        if c.stream == "C06.rd" and raised and not (p["index"] if kind == "ri" else p["count"]):
            return "read-ragged-dataset-without-samples"
        if full is not None and absent_below_max(p["index"]):
            trail = p["trail"]
            N = len(p["c"]) // prod(trail)
            carr = to_ma(p["c"], [N] + trail, p["dtype"])
            old = (old_decode_indexed(p["index"], p["shape"], carr) if kind == "ri"
                   else old_decode_ic(p["count"], p["index"], p["shape"], carr))
            if full == canon(old):
                return "indexed-decode-instance-without-samples"
    if c.stream == "C06.rd" and kind == "rc" and raised and not p["count"]:
        return "read-ragged-dataset-without-samples"
    if c.stream == "C06.cmp" and full is not None:
        t = triggers(p)
        if t and full == canon(old_compress(p)):
            return sig_for(p, t)
    if c.stream == "C06.fld":
        if (p["method"] == "indexed_contiguous" and p["aux"] != "none" and p["bounds"] and p["shape"][2] < 2
                and raised):
            # the bounds of the same-axes coordinate have a trailing dimension of size 2
            return "indexed-contiguous-trailing-dimension-longer-than-elements"
        both = msg + " " + str(getattr(c, "oracle_fail", "") or "")
        if (p.get("clash") or p.get("second")) and any(s in both for s in ("write/read raised", "re-read", "cfdm.read returned", "file: ", "independent decode of the written")):
            # fixed in /repo (known_findings.json): reported again if it returns
            return "written-sample-or-feature-dimension-name-not-the-unique-one"
        t = triggers(p)
        if t:
            return sig_for(p, t)
        if (p["write"] and p["method"] != "contiguous" and all(v is None for v in p["a"])
                and "zero-size array" in msg):
            return "read-ragged-dataset-without-samples"
    # not one of the known findings: group the report by stream (this signature is never listed
    # in known_findings.json, so it is always a VIOLATION)
    return "unexplained:" + c.stream


def _evaluate(c):
    try:
        c.impl_out = impl(c)
    except Exception as e:
        c.impl_out = "raised:" + fw.exc_enum(e)
        c.extra = None
    try:
        c.oracle_fail = oracle(c)
    except Exception as e:
        c.oracle_fail = "oracle raised " + repr(e)[:200]
    return c.oracle_fail


def shrink(c, run):
    """Smaller failing input with the same signature: drop the subspace, drop the trailing
    dimensions (keeping the first element of every sample), drop the leading dimension."""
    if c.stream not in CTYPE:
        return None
    sig = classify(c)
    best = c
    for step in ("ix", "trail", "lead"):
        p = dict(best.payload)
        if step == "ix":
            if p.get("ix") is None:
                continue
            p["ix"] = None
        elif step == "trail":
            t = prod(p["trail"])
            if t == 1 and not p["trail"]:
                continue
            p["c"] = p["c"][::t]
            p["trail"] = []
        else:
            if c.stream != "C06.ga" or not p["lead"]:
                continue
            p["c"] = p["c"][: len(p["c"]) // prod(p["lead"])]
            p["lead"] = []
        cand = mk(c.stream, p)
        if _evaluate(cand) and classify(cand) == sig:
            best = cand
    return best if best is not c else None


def sig_for(p, t):
    if "interior-mask" in t:
        return "compress-interior-masked-element-unmasked"
    if "aux-shorter" in t:
        return "compress-count-from-shorter-auxiliary-coordinate"
    if (p["method"] == "indexed" and "empty-row-before-nonempty" in t) or "empty-instance-before-nonempty" in t:
        return "indexed-decode-instance-without-samples"
    return "compress-zero-count-dropped"
