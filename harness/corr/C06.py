"""C06 — data compressed by convention are seen uncompressed, exactly.

Streams
  C06.rc   cfdm.RaggedContiguousArray            -> Data.array / subspace        (model + oracle)
  C06.ri   cfdm.RaggedIndexedArray               -> Data.array / subspace        (model + oracle)
  C06.ric  cfdm.RaggedIndexedContiguousArray     -> Data.array / subspace        (model + oracle)
  C06.ga   cfdm.GatheredArray (leading/trailing dimensions, unsorted list)       (model + oracle)
  C06.cmp  Field.compress(method) of a masked 2-d/3-d field with metadata constructs on the same axes
           (shared counts) and on the (instance, profile) axes, then every .array  (model + oracle)
  C06.rd   the same four encodings written to a netCDF file by the harness (netCDF4 only, several
           featureTypes, optional DSG coordinate variables), read with cfdm.read: the reader's
           count/index/list parsing and the shape it derives                      (model + oracle)
  C06.enc  a compressed field built ab initio (given count / index / list variable, compressed arrays,
           pinned netCDF names; coordinates on the sample, instance and profile dimensions), written
           with cfdm.write: the dataset as netCDF4 shows it and what cfdm.read presents  (model + oracle)
  C06.st   a history of Data operations (array, subspace, copy, assignment, transpose / squeeze /
           insert_dimension / to_memory / uncompress in place or not, equals, write) on a compressed
           Data: what every operation shows, which objects are still compressed after every
           operation, every final array                                          (model + oracle)
  C06.fld  field with same-axes auxiliary coordinates (+bounds): compress, uncompress,
           equals, cfdm.write, independent netCDF4-only decode of the file       (oracle only)

The oracle is a short pure-Python/numpy CF decoder (`cf_*` below) that shares no code
with cfdm.  Every stream also checks, through the oracle, that the source stays
compressed while it is only read (`.array`, subspace, `equals`) and stops being
compressed when it is assigned to.
"""
import os
import tempfile

import numpy as np

from .. import fw
from ..fw import Case, fmt_list
from . import C03 as c03

REQUIRED = [
    "C06_decode_contiguous",
    "C06_decode_indexed",
    "C06_decode_indexed_contiguous",
    "C06_decode_gathered",
    "C06_gathered_hit",
    "C06_gathered_miss",
    "C06_subspace_contiguous",
    "C06_subspace_indexed",
    "C06_compress_contiguous_roundtrip",
    "C06_compress_indexed_roundtrip",
    "C06_compress_indexed_contiguous_roundtrip",
    "C06_extra_dimensions_ragged",
    "C06_extra_dimensions_gathered",
    "C06_indexed_old_code_counterexample",
    "C06_indexed_contiguous_old_code_counterexample",
    "C06_compress_old_code_counterexample",
    "C06_compress_indexed_contiguous_old_code_counterexample",
    "C06_decode_gathered_nd",
    "C06_gathered_nd_hit",
    "C06_gathered_nd_miss",
    "C06_read_contiguous",
    "C06_read_indexed",
    "C06_read_indexed_contiguous",
    "C06_read_shape_sufficient",
    "C06_compress_counts_contiguous_roundtrip",
    "C06_compress_counts_indexed_roundtrip",
    "C06_compress_counts_indexed_contiguous_roundtrip",
    "C06_counts_fit_needed",
    "C06_compress_joint_roundtrip",
    "C06_compress_joint_indexed_contiguous_roundtrip",
    "C06_compress_profile_metadata_roundtrip_partial",
    "C06_compress_profile_metadata_counterexample",
    "C06_file_ragged",
    "C06_file_writable_iff",
    "C06_file_mixed_compression_not_writable",
    "C06_file_gathered",
    "C06_compress_count_old_code_counterexample",
    "C06_history_refines_spec",
    "C06_history_seen_uncompressed",
    "C06_stays_compressed",
    "C06_assignment_uncompresses",
    "C06_compressed_array_unaltered",
    "C06_history_decoder_irrelevant",
    "C06_history_shows_cf_arrays",
]
BUDGET = {"quick": 2400, "thorough": 100000}
RULE = (
    "count vectors with zeros / shorter than the number of rows, index vectors in any order with absent "
    "instances, list vectors unsorted and sparse over 1-3 compressed dimensions with 0-3 leading and 0-2 trailing "
    "dimensions, compressed values masked anywhere, dtypes i4/i8/f4/f8, uncompressed shapes larger than needed; "
    "every case optionally followed by a C03-style subspace and by an assembly from subarrays(shapes=random chunks); "
    "masked 2-d/3-d fields (all-masked rows, interior masked elements, empty profiles and instances) with 0-2 "
    "metadata constructs on the same axes (masks unrelated to the data's) and an (instance, profile) coordinate "
    "through Field.compress('contiguous'|'indexed'|'indexed_contiguous'), re-compression, uncompress, equals and "
    "write + netCDF4-only decode (name clashes, a second field with other / the same counts); histories of 3-12 "
    "Data operations (array, subspace, copy, assignment, transpose/squeeze/insert_dimension/to_memory/uncompress "
    "in place or not, equals, write) on a compressed Data and on everything they return; compressed fields built "
    "ab initio with pinned netCDF names, DSG coordinates on the sample / instance / profile dimension, with and "
    "without featureType, written by cfdm.write and read back; files written with netCDF4 only (five featureTypes, "
    "DSG coordinate variables) read with cfdm.read. non-trivial = the compressed array is not empty (decode, "
    "history, encoding streams) / the field is not entirely masked (compress streams); distinct = distinct "
    "(stream, full input)"
)
ASSUMPTIONS = [
    "array values are small integers stored as i4/i8/f4/f8 (the model carries abstract elements)",
    "uncompressed shape large enough for the count/index/list variable (otherwise cfdm raises; excluded by the generators; cfdm.read derives a sufficient shape itself: C06_read_*)",
    "list variables hold distinct values (CF 8.2); index values lie below the number of instances",
    "trailing dimensions of ragged arrays are carried as whole samples (C06_extra_dimensions_ragged: mapping over elements commutes with decoding); leading and trailing dimensions of gathered arrays are inside the proved model (C06_decode_gathered_nd)",
    "the numpy operations of the history model (take, assign, transpose, squeeze, expand_dims, equality) are a parameter of the theorems; the driver instantiates them with Arr definitions that the stream C06.st compares with cfdm and, independently, with numpy on every run",
    "the netCDF encoding model covers dimensions, variables, their dimensions, the sample_dimension / instance_dimension / compress attributes, featureType and the values; netCDF names are taken as given (hypothesis WF of C06_file_*; that _netcdf_name makes them unique is sampled by stream C06.fld); other attributes, bounds, data types and storage are compared by the oracle only",
    "the theorems are about the code at /repo HEAD (repairs 82a1a24, 8c31532, d324c79, f1a0d65, d4c0294, 0eac4fa, dd549ba applied); the C06_*_old_code_counterexample theorems document the code before those repairs; four findings are open (known_findings.json)",
]
QUICK_JOBS = 4

_cfdm = None


def cfdm():
    global _cfdm
    if _cfdm is None:
        import cfdm as m
        m.log_level("DISABLE")
        _cfdm = m
    return _cfdm


_scratch = None


def scratch():
    global _scratch
    if _scratch is None or not os.path.isdir(_scratch):
        _scratch = tempfile.mkdtemp(prefix="verif_c06_")
        import atexit, shutil
        atexit.register(shutil.rmtree, _scratch, True)
    return _scratch


def drop_scratch(path):
    """Remove a scratch file and its (then empty) directory: pool workers end without running
    atexit handlers, so nothing may be left for them."""
    global _scratch
    if os.path.exists(path):
        os.remove(path)
    try:
        os.rmdir(os.path.dirname(path))
        _scratch = None
    except OSError:
        pass


SENTINEL = -7  # underlying value of masked elements: shows up if a mask is lost
DTYPES = ["i4", "i8", "f4", "f8"]


# ---------------------------------------------------------------- helpers
def prod(l):
    r = 1
    for x in l:
        r *= x
    return r


def to_ma(flat, shape, dtype):
    """flat list with None for masked -> masked array of the shape."""
    data = np.array([SENTINEL if v is None else v for v in flat], dtype=dtype).reshape(shape)
    mask = np.array([v is None for v in flat], dtype=bool).reshape(shape)
    return np.ma.array(data, mask=mask)


def canon(a):
    a = np.ma.asanyarray(a)
    m = np.ma.getmaskarray(a).flatten()
    d = np.ma.getdata(a).flatten()
    return f"shape={fmt_list(a.shape)} data=" + fmt_list(["--" if mm else int(v) for v, mm in zip(d, m)])


def same(x, y):
    x = np.ma.asanyarray(x)
    y = np.ma.asanyarray(y)
    if x.shape != y.shape:
        return False
    mx, my = np.ma.getmaskarray(x), np.ma.getmaskarray(y)
    if not (mx == my).all():
        return False
    return bool((np.ma.getdata(x)[~mx] == np.ma.getdata(y)[~my]).all())


def mflat(flat):
    return "[" + ",".join("--" if v is None else str(v) for v in flat) + "]"


# ---------------------------------------------------------------- the CF decoder (oracle)
def cf_contiguous(count, shape, c):
    """CF 9.3.3; c has shape [N] + trail."""
    u = np.ma.masked_all(tuple(shape) + c.shape[1:], dtype=c.dtype)
    off = 0
    for i, n in enumerate(count):
        for j in range(n):
            if i < shape[0] and off + j < c.shape[0]:
                u[i, j] = c[off + j]
        off += n
    return u


def cf_indexed(index, shape, c):
    """CF 9.3.4: sample p belongs to instance index[p]; order is kept."""
    u = np.ma.masked_all(tuple(shape) + c.shape[1:], dtype=c.dtype)
    fill = [0] * shape[0]
    for p, i in enumerate(index):
        if i < shape[0]:
            u[i, fill[i]] = c[p]
            fill[i] += 1
    return u


def cf_indexed_contiguous(count, index, shape, c):
    """CF 9.3.5: profile p belongs to instance index[p] and has count[p] samples."""
    u = np.ma.masked_all(tuple(shape) + c.shape[1:], dtype=c.dtype)
    pfill = [0] * shape[0]
    off = 0
    for n, i in zip(count, index):
        j = pfill[i]
        pfill[i] += 1
        for k in range(n):
            u[i, j, k] = c[off + k]
        off += n
    return u


def cf_gathered(lst, lead, dims, c):
    """CF 8.2; c has shape lead + [n] + trail."""
    nl = len(lead)
    trail = c.shape[nl + 1:]
    u = np.ma.masked_all(tuple(lead) + (prod(dims),) + tuple(trail), dtype=c.dtype)
    for k, q in enumerate(lst):
        u[(slice(None),) * nl + (q,)] = c[(slice(None),) * nl + (k,)]
    return u.reshape(tuple(lead) + tuple(dims) + tuple(trail))


def trailing_count(row):
    """Number of leading elements up to the last unmasked one (row: 1-d masked array)."""
    m = np.ma.getmaskarray(row)
    n = len(m)
    while n and m[n - 1]:
        n -= 1
    return n


# ---------------------------------------------------------------- generators
def gen_values(rng, n, pmask):
    return [None if rng.random() < pmask else rng.randint(0, 99) for _ in range(n)]


def gen_trail(rng):
    return rng.choice([[], [], [], [2], [3], [1], [2, 2]])


def gen_chunks(rng, shape):
    """A partition of every dimension into chunk sizes, for `subarrays(shapes=...)`."""
    if rng.random() < 0.5:
        return None
    out = []
    for n in shape:
        parts = []
        left = n
        while left > 0:
            k = rng.randint(1, left)
            parts.append(k)
            left -= k
        out.append(parts if parts else [0])
    return out


def gen_ix(rng, shape):
    if rng.random() < 0.45 or any(n == 0 for n in shape):
        return None
    for _ in range(20):
        ix = c03.gen_index(rng, shape)
        if not c03._neg_start_below(ix, shape):  # a C03 known finding, not ours
            return [list(t) for t in ix]
    return None


def gen_rc(rng):
    nrows = rng.randint(1, 5)
    ncols = rng.randint(1, 5)
    style = rng.random()
    nc = nrows if style < 0.85 else rng.randint(0, nrows)
    count = []
    for _ in range(nc):
        r = rng.random()
        count.append(0 if r < 0.3 else ncols if r < 0.45 else rng.randint(0, ncols))
    if rng.random() < 0.05:
        count = [0] * nc
    trail = gen_trail(rng)
    N = sum(count)
    c = gen_values(rng, N * prod(trail), rng.choice([0, 0.15, 0.4]))
    chunks = gen_chunks(rng, [nrows, ncols] + trail)
    return dict(count=count, shape=[nrows, ncols], trail=trail, c=c, dtype=rng.choice(DTYPES),
                ix=gen_ix(rng, [nrows, ncols] + trail), chunks=chunks)


def gen_ri(rng):
    nrows = rng.randint(1, 5)
    ncols = rng.randint(1, 5)
    present = [i for i in range(nrows) if rng.random() < 0.65]
    index = []
    for i in present:
        index += [i] * rng.randint(1, ncols)
    r = rng.random()
    if r < 0.6:
        rng.shuffle(index)
    elif r < 0.75:
        index.sort(reverse=True)
    trail = gen_trail(rng)
    c = gen_values(rng, len(index) * prod(trail), rng.choice([0, 0.15, 0.4]))
    chunks = gen_chunks(rng, [nrows, ncols] + trail)
    return dict(index=index, shape=[nrows, ncols], trail=trail, c=c, dtype=rng.choice(DTYPES),
                ix=gen_ix(rng, [nrows, ncols] + trail), chunks=chunks)


def gen_ric(rng):
    ninst = rng.randint(1, 4)
    maxp = rng.randint(1, 3)
    nelem = rng.randint(1, 4)
    index = []
    for i in range(ninst):
        if rng.random() < 0.7:
            index += [i] * rng.randint(1, maxp)
    r = rng.random()
    if r < 0.6:
        rng.shuffle(index)
    elif r < 0.75:
        index.sort(reverse=True)
    count = []
    for _ in index:
        q = rng.random()
        count.append(0 if q < 0.25 else nelem if q < 0.4 else rng.randint(0, nelem))
    trail = rng.choice([[], [], [], [2]])
    c = gen_values(rng, sum(count) * prod(trail), rng.choice([0, 0.15, 0.4]))
    chunks = gen_chunks(rng, [ninst, maxp, nelem] + trail)
    return dict(count=count, index=index, shape=[ninst, maxp, nelem], trail=trail, c=c, dtype=rng.choice(DTYPES),
                ix=gen_ix(rng, [ninst, maxp, nelem] + trail), chunks=chunks)


def gen_ga(rng):
    dims = [rng.randint(1, 4) for _ in range(rng.choice([1, 2, 2, 2, 3]))]
    P = prod(dims)
    k = rng.choice([0, P, rng.randint(0, P), rng.randint(0, P)])
    lst = rng.sample(range(P), k)
    r = rng.random()
    if r < 0.35:
        lst.sort()
    elif r < 0.45:
        lst.sort(reverse=True)
    lead = rng.choice([[], [], [2], [3], [1], [2, 2], [1, 3], [2, 1, 2]])
    trail = rng.choice([[], [], [2], [3], [1, 2], [2, 2]])
    c = gen_values(rng, prod(lead) * len(lst) * prod(trail), rng.choice([0, 0.15, 0.4]))
    chunks = gen_chunks(rng, lead + dims + trail)
    return dict(list=lst, lead=lead, dims=dims, trail=trail, c=c, dtype=rng.choice(DTYPES),
                ix=gen_ix(rng, lead + dims + trail), chunks=chunks)


def gen_masked_rows(rng, nrows, ncols, clean):
    """Rows of a 2-d masked array as flat list; `clean` avoids the inputs of the known findings:
    no masked element before an unmasked one in a row, no all-masked row before a non-empty one."""
    counts = []
    for _ in range(nrows):
        r = rng.random()
        counts.append(0 if r < 0.25 else ncols if r < 0.45 else rng.randint(0, ncols))
    if clean:
        counts = [n for n in counts if n] + [0] * counts.count(0)
    flat = []
    for n in counts:
        row = [rng.randint(0, 99) for _ in range(n)] + [None] * (ncols - n)
        if not clean:
            for j in range(n - 1):
                if rng.random() < 0.2:
                    row[j] = None
        flat += row
    return flat


def row_counts(flat, ncols):
    """Trailing-mask count of every row of a flat masked array."""
    out = []
    for i in range(0, len(flat), ncols):
        r = flat[i:i + ncols]
        n = len(r)
        while n and r[n - 1] is None:
            n -= 1
        out.append(n)
    return out


def n_profiles(cnt):
    n = len(cnt)
    while n and not cnt[n - 1]:
        n -= 1
    return n


def gen_cmp(rng, clean=None, extras=True):
    method = rng.choice(["contiguous", "indexed", "indexed_contiguous"])
    if clean is None:
        clean = rng.random() < 0.3
    if method == "indexed_contiguous":
        shape = [rng.randint(1, 3), rng.randint(1, 3), rng.randint(1, 4)]
        a = []
        insts = []
        for _ in range(shape[0]):
            insts.append(gen_masked_rows(rng, shape[1], shape[2], clean))
        if clean:
            empty = [x for x in insts if all(v is None for v in x)]
            insts = [x for x in insts if not all(v is None for v in x)] + empty
        for x in insts:
            a += x
    else:
        shape = [rng.randint(1, 5), rng.randint(1, 5)]
        a = gen_masked_rows(rng, shape[0], shape[1], clean)
    p = dict(method=method, shape=shape, a=a, dtype=rng.choice(DTYPES), clean=clean)
    if not extras:
        return p
    # metadata constructs on the same axes, each with a mask of its own (shorter, longer, unrelated):
    # all of them are packed with ONE count vector
    nrows = prod(shape[:-1])
    auxs = []
    for _ in range(rng.choice([0, 0, 1, 1, 2])):
        x = gen_masked_rows(rng, nrows, shape[-1], False)
        auxs.append([None if v is None else 1000 + v for v in x])
    p["auxs"] = auxs
    # indexed contiguous: a coordinate on the (instance, profile) axes
    p["p2"] = None
    if method == "indexed_contiguous" and rng.random() < 0.6:
        cnt = [max(t) for t in zip(*[row_counts(x, shape[2]) for x in [a] + auxs])]
        mp = shape[1]
        beyond = rng.random() < 0.15
        p2 = []
        for i in range(shape[0]):
            npf = n_profiles(cnt[i * mp:(i + 1) * mp])
            row = [(None if rng.random() < 0.2 else 2000 + rng.randint(0, 99)) if j < npf else None
                   for j in range(mp)]
            if beyond and npf < mp:
                row[rng.randint(npf, mp - 1)] = 2000 + rng.randint(0, 99)
            p2 += row
        p["p2"] = p2
    return p


def p2_beyond(p):
    """The (instance, profile) coordinate has a value on a profile beyond the last profile of its
    instance that has any data (in the field or a same-axes construct)."""
    if p.get("p2") is None:
        return False
    shape = p["shape"]
    cnt = [max(t) for t in zip(*[row_counts(x, shape[2]) for x in [p["a"]] + list(p.get("auxs") or [])])]
    mp = shape[1]
    for i in range(shape[0]):
        npf = n_profiles(cnt[i * mp:(i + 1) * mp])
        if any(v is not None for v in p["p2"][i * mp + npf:(i + 1) * mp]):
            return True
    return False


def gen_fld(rng):
    p = gen_cmp(rng, clean=rng.random() < 0.5, extras=False)
    p["aux"] = rng.choice(["none", "same", "same"] if p["clean"] else ["none", "same", "longer", "shorter"])
    p["bounds"] = rng.random() < 0.4
    p["aseed"] = rng.randrange(1 << 30)
    p["write"] = rng.random() < 0.7
    # netCDF name clashes at the moment the count/index variable is written: the instance axis (or, for
    # indexed contiguous arrays, the outer axis) already owns the name the sample / feature dimension wants
    p["clash"] = rng.choice([None, None, None, "element", "sample", "feature"])
    # a second compressed field with OTHER counts in the same file (0: none, 1: written after, 2: before)
    # (not for indexed contiguous arrays: two of those in one file hit writer/reader defects in how fields
    #  share count/index variables — property C09's subject, recorded there)
    # 3 / 4: a second field with the SAME counts, written after / before (the count and index variables are
    # then shared between the two data variables)
    p["second"] = rng.choice([0, 0, 3, 4]) if p["method"] == "indexed_contiguous" else rng.choice([0, 0, 1, 2, 3, 4])
    return p


def gen_rd(rng):
    kind = rng.choice(["rc", "ri", "ric", "ga"])
    p = {"rc": gen_rc, "ri": gen_ri, "ric": gen_ric, "ga": gen_ga}[kind](rng)
    p["kind"] = kind
    p["ix"] = None
    # the global featureType attribute (it only chooses the NAME of the element dimension) and, sometimes,
    # DSG coordinate variables: one on the sample dimension, one on the instance dimension
    p["ft"] = rng.choice(["timeSeries", "trajectory", "profile", "point", "TimeSeries"] if kind in ("rc", "ri")
                         else ["timeSeriesProfile", "trajectoryProfile"])
    p["coords"] = kind != "ga" and not p["trail"] and rng.random() < 0.5
    # the shape a reader derives: instances from the file, elements from the largest count.  It is
    # computed here for the ORACLE only; the model line carries no shape (the model derives it).
    if kind == "rc":
        p["shape"] = [len(p["count"]), max(p["count"], default=0)]
    elif kind == "ri":
        occ = [p["index"].count(i) for i in range(p["shape"][0])]
        p["shape"] = [p["shape"][0], max(occ, default=0)]
    elif kind == "ric":
        occ = [p["index"].count(i) for i in range(p["shape"][0])]
        p["shape"] = [p["shape"][0], max(occ, default=0), max(p["count"], default=0)]
    return p


def _st_index(rng, shape, simple):
    """A C03 index expression that selects at least one element on every axis."""
    kinds = ("i", "s", "s") if simple else ("i", "s", "s", "l", "l", "b")
    for _ in range(30):
        ix = c03.gen_index(rng, shape, kinds)
        if c03._neg_start_below(ix, shape):
            continue
        if simple and any(t[0] == "s" and t[3] is not None and t[3] < 0 for t in ix):
            continue
        pos = c03.expand([tuple(t) for t in ix], list(shape))
        if all(len(q) > 0 for q in pos):
            return ix, [len(q) for q in pos]
    return [("e",)], list(shape)


def gen_st(rng):
    """A compressed Data and a history of operations on it and on what they return.  Shapes are
    tracked so that every operation is valid (a few are deliberately not: they must raise and
    change nothing).  Operations (i, j = object numbers; object 0 is the compressed Data, every
    returned Data gets the next number):
      A i            d.array                 G i ix         d[ix]            C i    d.copy()
      S i ix v       d[ix] = v (None=masked) T i axes inpl  d.transpose      Q i axes inpl  d.squeeze
      D i pos inpl   d.insert_dimension      M i inpl       d.to_memory      U i inpl       d.uncompress
      E i j          d.equals(e)             W i            cfdm.write of a field holding d"""
    kind = rng.choice(["rc", "ri", "ric", "ga"])
    for _ in range(50):
        p = {"rc": gen_rc, "ri": gen_ri, "ric": gen_ric, "ga": gen_ga}[kind](rng)
        full = (p["lead"] + p["dims"] + p["trail"]) if kind == "ga" else (p["shape"] + p["trail"])
        # (a count variable shorter than the instance dimension can be decoded, not written)
        if prod(full) <= 60 and len(full) <= 4 and (kind != "rc" or len(p["count"]) == p["shape"][0]):
            break
    p["kind"] = kind
    p["ix"] = None
    shapes = [list(full)]
    ops = []

    def result(i, new, inplace):
        if inplace:
            shapes[i] = list(new)
        else:
            shapes.append(list(new))

    for _ in range(rng.randint(3, 12)):
        i = 0 if rng.random() < 0.45 else rng.randrange(len(shapes))
        sh = shapes[i]
        nd = len(sh)
        inplace = int(rng.random() < 0.4)
        r = rng.random()
        if r < 0.10:
            ops.append(["A", i])
        elif r < 0.24:
            ix, new = _st_index(rng, sh, False)
            ops.append(["G", i, norm_ix(ix)])
            shapes.append(new)
        elif r < 0.34:
            ops.append(["C", i])
            shapes.append(list(sh))
        elif r < 0.46:
            ix, _ = _st_index(rng, sh, True)
            ops.append(["S", i, norm_ix(ix), None if rng.random() < 0.25 else rng.randint(100, 199)])
        elif r < 0.60:
            q = rng.random()
            if q < 0.35:
                ops.append(["T", i, None, inplace])
                result(i, sh[::-1], inplace)
            elif q < 0.55:
                ops.append(["T", i, list(range(nd)), inplace])
                result(i, sh, inplace)
            elif q < 0.95:
                perm = list(range(nd))
                rng.shuffle(perm)
                ops.append(["T", i, perm, inplace])
                result(i, [sh[k] for k in perm], inplace)
            else:
                ops.append(["T", i, [0] * nd if nd > 1 else [1], inplace])      # not a permutation: ValueError
        elif r < 0.72:
            ones = [k for k, n in enumerate(sh) if n == 1]
            big = [k for k, n in enumerate(sh) if n > 1]
            q = rng.random()
            if q < 0.5:
                axes, drop = None, ones
            elif q < 0.9 or not big:
                drop = [k for k in ones if rng.random() < 0.6]
                axes = list(drop)
            else:
                ops.append(["Q", i, [rng.choice(big)], inplace])                # ValueError
                continue
            new = [n for k, n in enumerate(sh) if k not in drop]
            if not new:
                continue            # (0-d data are not generated)
            ops.append(["Q", i, axes, inplace])
            result(i, new, inplace)
        elif r < 0.80:
            if nd >= 5:
                continue
            pos = rng.randint(0, nd)
            ops.append(["D", i, pos, inplace])
            result(i, sh[:pos] + [1] + sh[pos:], inplace)
        elif r < 0.86:
            ops.append(["M", i, inplace])
            if not inplace:
                shapes.append(list(sh))
        elif r < 0.91:
            ops.append(["U", i, inplace])
            if not inplace:
                shapes.append(list(sh))
        elif r < 0.96:
            ops.append(["E", i, rng.randrange(len(shapes))])
        else:
            ops.append(["W", i])
    p["prog"] = ops
    return p


def st_token(op):
    k = op[0]
    if k in ("A", "C", "W"):
        return f"{k}/{op[1]}"
    if k == "G":
        return f"G/{op[1]}/{c03.enc_ix(norm_ix(op[2]))}"
    if k == "S":
        return f"S/{op[1]}/{c03.enc_ix(norm_ix(op[2]))}/{'--' if op[3] is None else op[3]}"
    if k in ("T", "Q"):
        axes = "_" if op[2] is None else ",".join(str(a) for a in op[2])
        return f"{k}/{op[1]}/{axes}/{int(op[3])}"
    if k == "D":
        return f"D/{op[1]}/{op[2]}/{int(op[3])}"
    if k in ("M", "U"):
        return f"{k}/{op[1]}/{int(op[2])}"
    if k == "E":
        return f"E/{op[1]}/{op[2]}"
    raise fw.HarnessError("unknown operation " + repr(op))


ENC_NAMES = dict(inst=["station", "traj", "dim"], sample=["obs", "element", "sample"],
                 profile=["prof", "feature"], countvar=["row_size", "count"], indexvar=["stn_index", "index"])


def gen_enc(rng):
    """A compressed field built ab initio (count / index / list variables and compressed arrays given,
    every netCDF name pinned), written with cfdm.write and read back.  Constructs: the field data
    'temp', 0-2 DSG coordinates on the same axes, 0-1 coordinate on the instance axis, for indexed
    contiguous arrays 0-1 coordinate on the (instance, profile) axes."""
    kind = rng.choice(["rc", "ri", "ric", "ga"])
    if kind == "ga":
        q = gen_ga(rng)
        lead = [[n, k] for n, k in zip(["time", "z", "w"], q["lead"])]
        dims = [[n, k] for n, k in zip(["lat", "lon", "lev"], q["dims"])]
        trail = [[n, k] for n, k in zip(["t0", "t1"], q["trail"])]
        n = prod(q["lead"]) * len(q["list"]) * prod(q["trail"])
        cons = [["temp", q["c"]]]
        if rng.random() < 0.4:
            cons.insert(0, ["alt", [None if v is None else 1000 + v for v in gen_values(rng, n, 0.2)]])
        return dict(kind="ga", lead=lead, dims=dims, trail=trail, listvar=rng.choice(["landpoint", "list"]),
                    list=q["list"], cons=cons, dtype=q["dtype"])
    while True:
        q = {"rc": gen_rc, "ri": gen_ri, "ric": gen_ric}[kind](rng)
        if kind != "rc" or len(q["count"]) == q["shape"][0]:
            break
    count = q.get("count", [])
    index = q.get("index", [])
    N = sum(count) if kind in ("rc", "ric") else len(index)
    p = dict(kind=kind, ft=int(rng.random() < 0.9), ninst=q["shape"][0], shape=q["shape"], count=count, index=index,
             dtype=q["dtype"])
    for k, pool in ENC_NAMES.items():
        p[k] = rng.choice(pool)
    cons = []
    if rng.random() < 0.5:
        cons.append(["lat", "instance", 0, [50 + i for i in range(p["ninst"])]])
    for name in ["alt", "aux2"][: rng.choice([0, 1, 1, 2])]:
        cons.append([name, "data", 1, [None if v is None else 1000 + v for v in gen_values(rng, N, 0.15)]])
    if kind == "ric" and rng.random() < 0.6:
        cons.append(["ptime", "profile", 1, [None if v is None else 2000 + v for v in gen_values(rng, len(index), 0.15)]])
    cons.append(["temp", "data", 1, gen_values(rng, N, rng.choice([0, 0.15, 0.4]))])
    # a construct that was assigned to (no longer compressed) among compressed ones
    # (not the field data themselves: a field whose own data are not compressed is an ordinary field)
    others = [i for i, c in enumerate(cons) if c[1] == "data" and c[0] != "temp"]
    if others and rng.random() < 0.08:
        cons[rng.choice(others)][2] = 0
    p["cons"] = cons
    return p


def gen(rng, tier, n):
    w = [("rc", 0.13), ("ri", 0.13), ("ric", 0.13), ("ga", 0.13), ("cmp", 0.13), ("rd", 0.1), ("fld", 0.07),
         ("st", 0.10), ("enc", 0.08)]
    for kind, frac in w:
        for _ in range(max(2, int(n * frac))):
            if kind == "rc":
                yield mk("C06.rc", gen_rc(rng))
            elif kind == "ri":
                yield mk("C06.ri", gen_ri(rng))
            elif kind == "ric":
                yield mk("C06.ric", gen_ric(rng))
            elif kind == "ga":
                yield mk("C06.ga", gen_ga(rng))
            elif kind == "cmp":
                yield mk("C06.cmp", gen_cmp(rng))
            elif kind == "rd":
                yield mk("C06.rd", gen_rd(rng))
            elif kind == "st":
                yield mk("C06.st", gen_st(rng))
            elif kind == "enc":
                yield mk("C06.enc", gen_enc(rng))
            else:
                yield mk("C06.fld", gen_fld(rng))


def norm_ix(ix):
    if ix is None:
        return None
    return [tuple(list(t[:1]) + [list(x) if isinstance(x, (list, tuple)) else x for x in t[1:]]) for t in ix]


def mk(stream, p):
    p = dict(p)
    if "ix" in p:
        p["ix"] = norm_ix(p["ix"])
    ixs = "" if p.get("ix") is None else " ix=" + c03.enc_ix(p["ix"])
    tags = []
    if stream == "C06.rd":
        inner = mk("C06." + p["kind"], {k: v for k, v in p.items() if k != "kind"})
        tags = ["rd:" + p["kind"]] + [t for t in inner.tags]
        if not p["c"]:
            tags.append("rd:no-samples")
        if p.get("coords"):
            tags.append("rd:dsg-coordinates")
        if p.get("ft"):
            tags.append("rd:featureType=" + p["ft"])
        k = p["kind"]
        line = f"C06.rd kind={k}"
        if k in ("ri", "ric"):
            line += f" ninst={p['shape'][0]}"
        if k in ("rc", "ric"):
            line += f" count={fmt_list(p['count'])}"
        if k in ("ri", "ric"):
            line += f" index={fmt_list(p['index'])}"
        if k == "ga":
            line += f" list={fmt_list(p['list'])} lead={fmt_list(p['lead'])} dims={fmt_list(p['dims'])}"
        line += f" trail={fmt_list(p['trail'])} c={mflat(p['c'])}"
        return Case(stream, p, line, key=line, nontrivial=inner.nontrivial, tags=tags)
    if stream == "C06.enc":
        if p["kind"] == "ga":
            named = lambda l: ",".join(f"{n}:{k}" for n, k in l)
            line = (f"C06.enc kind=ga lead={named(p['lead'])} dims={named(p['dims'])} trail={named(p['trail'])} "
                    f"listvar={p['listvar']} list={fmt_list(p['list'])} cons="
                    + ";".join(f"{n}:{mflat(v)}" for n, v in p["cons"]))
            tags = ["enc:ga", f"enc:constructs={len(p['cons'])}"]
            return Case(stream, p, line, key=line, nontrivial=len(p["list"]) > 0, tags=tags)
        line = (f"C06.enc kind={p['kind']} ft={p['ft']} inst={p['inst']} ninst={p['ninst']} sample={p['sample']} "
                f"profile={p['profile']} countvar={p['countvar']} indexvar={p['indexvar']} "
                f"count={fmt_list(p['count'])} index={fmt_list(p['index'])} cons="
                + ";".join(f"{n}:{sp}:{cp}:{mflat(v)}" for n, sp, cp, v in p["cons"]))
        tags = ["enc:" + p["kind"], f"enc:constructs={len(p['cons'])}"] + sorted({"enc:span=" + c[1] for c in p["cons"]})
        if not p["ft"]:
            tags.append("enc:no-featureType")
        if enc_mixed(p):
            tags.append("enc:uncompressed-construct-among-compressed")
        return Case(stream, p, line, key=line, nontrivial=len(p["cons"][-1][3]) > 0, tags=tags)
    if stream == "C06.st":
        inner = mk("C06." + p["kind"], {k: v for k, v in p.items() if k not in ("kind", "prog")})
        line = ("C06.st kind=" + p["kind"] + inner.line[len("C06." + p["kind"]):] + " prog="
                + "|".join(st_token(o) for o in p["prog"]))
        kinds = sorted({o[0] + ("!" if o[0] in "TQDMU" and o[-1] else "") for o in p["prog"]})
        tags = ["st:" + p["kind"], f"st:ops>={min(len(p['prog']) // 4 * 4, 12)}"] + ["st:op=" + k for k in kinds]
        return Case(stream, p, line, key=line, nontrivial=inner.nontrivial, tags=tags)
    if stream == "C06.rc":
        line = f"C06.rc count={fmt_list(p['count'])} shape={fmt_list(p['shape'])} trail={fmt_list(p['trail'])} c={mflat(p['c'])}{ixs}"
        nontrivial = sum(p["count"]) > 0
        if 0 in p["count"]:
            tags.append("rc:zero-count")
        if len(p["count"]) < p["shape"][0]:
            tags.append("rc:count-shorter-than-rows")
    elif stream == "C06.ri":
        line = f"C06.ri index={fmt_list(p['index'])} shape={fmt_list(p['shape'])} trail={fmt_list(p['trail'])} c={mflat(p['c'])}{ixs}"
        nontrivial = len(p["index"]) > 0
        if absent_below_max(p["index"]):
            tags.append("ri:absent-instance")
        if p["index"] != sorted(p["index"]):
            tags.append("ri:unsorted")
    elif stream == "C06.ric":
        line = (f"C06.ric count={fmt_list(p['count'])} index={fmt_list(p['index'])} shape={fmt_list(p['shape'])} "
                f"trail={fmt_list(p['trail'])} c={mflat(p['c'])}{ixs}")
        nontrivial = sum(p["count"]) > 0
        if absent_below_max(p["index"]):
            tags.append("ric:absent-instance")
        if 0 in p["count"]:
            tags.append("ric:zero-count")
        if p["index"] != sorted(p["index"]):
            tags.append("ric:unsorted")
        if p["trail"] and ic_trailing(p["shape"], p["trail"]):
            tags.append("ric:trailing-dim-longer-than-elements")
    elif stream == "C06.ga":
        line = (f"C06.ga list={fmt_list(p['list'])} lead={fmt_list(p['lead'])} dims={fmt_list(p['dims'])} "
                f"trail={fmt_list(p['trail'])} c={mflat(p['c'])}{ixs}")
        nontrivial = len(p["list"]) > 0
        if p["list"] != sorted(p["list"]):
            tags.append("ga:unsorted")
        if p["lead"]:
            tags.append("ga:leading-dim")
        if len(p["lead"]) > 1:
            tags.append("ga:several-leading-dims")
        if p["lead"] and p["trail"]:
            tags.append("ga:leading-and-trailing-dims")
    elif stream == "C06.cmp":
        line = f"C06.cmp method={p['method']} shape={fmt_list(p['shape'])} a={mflat(p['a'])}"
        if p.get("auxs"):
            line += " aux=" + "|".join(mflat(x) for x in p["auxs"])
        if p.get("p2") is not None:
            line += " p2=" + mflat(p["p2"])
        nontrivial = any(v is not None for v in p["a"])
        tags += ["cmp:" + p["method"]] + ["cmp:" + t for t in triggers(p)]
        if p.get("auxs"):
            tags.append(f"cmp:same-axes-constructs={len(p['auxs'])}")
            own = row_counts(p["a"], p["shape"][-1])
            oth = [row_counts(x, p["shape"][-1]) for x in p["auxs"]]
            if any(any(o[i] > own[i] for o in oth) for i in range(len(own))):
                tags.append("cmp:construct-longer-than-data")
            if any(any(o[i] < own[i] for o in oth) for i in range(len(own))):
                tags.append("cmp:construct-shorter-than-data")
        if p.get("p2") is not None:
            tags.append("cmp:profile-coordinate")
            if p2_beyond(p):
                tags.append("cmp:profile-coordinate-beyond-data")
    else:
        line = None
        nontrivial = any(v is not None for v in p["a"])
        tags += ["fld:" + p["method"], "fld:aux=" + p["aux"]] + ["fld:" + t for t in triggers(p)]
        if p["write"]:
            tags.append("fld:write")
            if p.get("second") in (3, 4):
                tags.append("fld:second-field-shares-count-variables")
            elif p.get("second"):
                tags.append("fld:second-field-other-counts")
    if p.get("trail"):
        tags.append("trailing-dims")
    if p.get("chunks"):
        tags.append("chunked-subarrays")
    if p.get("ix") is not None:
        tags.append("subspace")
    return Case(stream, p, line, key=(line or stream + repr(sorted(p.items(), key=str))), nontrivial=nontrivial, tags=tags)


def from_payload(stream, payload):
    return mk(stream, payload)


# ---------------------------------------------------------------- implementation
def build(stream, p):
    """The compressed cfdm.Data, built through the public constructors."""
    C = cfdm()
    trail = p["trail"]
    if stream == "C06.ga":
        n = len(p["list"])
        carr = to_ma(p["c"], p["lead"] + [n] + trail, p["dtype"])
        nl = len(p["lead"])
        arr = C.GatheredArray(
            compressed_array=C.Data(carr), shape=tuple(p["lead"] + p["dims"] + trail),
            compressed_dimensions={nl: tuple(range(nl, nl + len(p["dims"])))},
            list_variable=C.List(data=C.Data(np.array(p["list"], dtype=int))))
        return C.Data(arr), carr
    N = len(p["c"]) // prod(trail)
    carr = to_ma(p["c"], [N] + trail, p["dtype"])
    shape = tuple(p["shape"] + trail)
    if stream == "C06.rc":
        arr = C.RaggedContiguousArray(compressed_array=C.Data(carr), shape=shape,
                                      count_variable=C.Count(data=C.Data(np.array(p["count"], dtype=int))))
    elif stream == "C06.ri":
        arr = C.RaggedIndexedArray(compressed_array=C.Data(carr), shape=shape,
                                   index_variable=C.Index(data=C.Data(np.array(p["index"], dtype=int))))
    else:
        arr = C.RaggedIndexedContiguousArray(
            compressed_array=C.Data(carr), shape=shape,
            count_variable=C.Count(data=C.Data(np.array(p["count"], dtype=int))),
            index_variable=C.Index(data=C.Data(np.array(p["index"], dtype=int))))
    return C.Data(arr), carr


CTYPE = {"C06.rc": "ragged contiguous", "C06.ri": "ragged indexed", "C06.ric": "ragged indexed contiguous",
         "C06.ga": "gathered"}


def make_field(p, arr):
    C = cfdm()
    f = C.Field()
    f.set_properties({"standard_name": "air_temperature", "featureType": "timeSeries" if len(p["shape"]) == 2 else "timeSeriesProfile"})
    axes = [f.set_construct(C.DomainAxis(n)) for n in arr.shape]
    f.set_data(C.Data(arr), axes=axes)
    return f, axes


def impl(c):
    C = cfdm()
    p = c.payload
    if c.stream in CTYPE:
        d, carr = build(c.stream, p)
        ex = dict(ctype0=d.get_compression_type())
        full = d.array
        ex["full"] = full
        ex["ctype_after_array"] = d.get_compression_type()
        ex["dtype"] = str(d.dtype)
        out = canon(full)
        if p.get("ix") is not None:
            try:
                sub = d[c03.py_ix(p["ix"])]
                out = canon(sub.array)
            except Exception as e:
                out = "raised:" + fw.exc_enum(e)
            ex["ctype_after_subspace"] = d.get_compression_type()
        # equality with the uncompressed data, and with a perturbed copy
        e = C.Data(full.copy())
        ex["eq"] = bool(d.equals(e)) and bool(e.equals(d))
        if full.size and not np.ma.getmaskarray(full).all():
            g = full.copy()
            pos = tuple(np.argwhere(~np.ma.getmaskarray(g))[0])
            g[pos] = g[pos] + 1
            ex["neq"] = not d.equals(C.Data(g))
            h = full.copy()
            h[pos] = np.ma.masked
            ex["neq_mask"] = not d.equals(C.Data(h))
        ex["compressed_same"] = same(d.compressed_array, carr)
        if p.get("chunks") and full.size:
            # assemble the array from `subarrays(shapes=<chunks>)` exactly as CompressedArray.__getitem__ does
            # with its default single chunk per dimension
            A = d.source()
            u = np.ma.masked_all(full.shape, dtype=full.dtype)
            Sub = A.get_Subarray()
            kw = {**A.conformed_data(), **A.subarray_parameters()}
            for u_indices, u_shape, c_indices, _ in zip(*A.subarrays(shapes=[tuple(x) for x in p["chunks"]])):
                u[u_indices] = Sub(indices=c_indices, shape=u_shape, **kw)[...]
            ex["chunked_ok"] = same(u, full)
        # assignment uncompresses
        if full.size:
            d2 = d.copy()
            pos = tuple(0 for _ in full.shape)
            d2[pos] = 55
            ex["ctype_after_set"] = d2.get_compression_type()
            want = full.copy()
            want[pos] = 55
            ex["set_ok"] = same(d2.array, want)
            ex["src_after_copy_set"] = d.get_compression_type()
        c.extra = ex
        return out
    if c.stream == "C06.cmp":
        arr = to_ma(p["a"], p["shape"], p["dtype"])
        f, axes = make_field(p, arr)
        auxs = [to_ma(x, p["shape"], "f8") for x in (p.get("auxs") or [])]
        for k, x in enumerate(auxs):
            # different construct types: all of them are "metadata constructs spanning the same axes"
            if k == 0:
                con = C.AuxiliaryCoordinate(properties={"long_name": "aux0"}, data=C.Data(x))
            else:
                con = C.FieldAncillary(properties={"long_name": f"aux{k}"}, data=C.Data(x))
            f.set_construct(con, axes=axes)
        p2 = None
        if p.get("p2") is not None:
            p2 = to_ma(p["p2"], p["shape"][:2], "f8")
            f.set_construct(C.AuxiliaryCoordinate(properties={"long_name": "ptime"}, data=C.Data(p2)), axes=axes[:2])
        g = f.compress(p["method"])
        ex = dict(ctype=g.data.get_compression_type(), src_ctype=f.data.get_compression_type())
        ex["aux_full"] = [g.construct(f"long_name=aux{k}").array for k in range(len(auxs))]
        ex["aux_ctype"] = [g.construct(f"long_name=aux{k}").data.get_compression_type() for k in range(len(auxs))]
        if p2 is not None:
            ex["p2_full"] = g.construct("long_name=ptime").array
            ex["p2_ctype"] = g.construct("long_name=ptime").data.get_compression_type()
        ex["count"] = None if g.data.get_count(None) is None else g.data.get_count().array.tolist()
        ex["index"] = None if g.data.get_index(None) is None else g.data.get_index().array.tolist()
        ex["carr"] = g.data.compressed_array
        full = g.array
        ex["full"] = full
        u = g.uncompress()
        ex["unc_ctype"] = u.data.get_compression_type()
        ex["unc_same"] = same(u.array, full)
        ex["ctype_after"] = g.data.get_compression_type()
        # compressing again by the same method is a no-op, by another method a re-compression
        again = g.compress(p["method"])
        ex["again_ok"] = again.data.get_compression_type() == ex["ctype"] and same(again.array, full)
        if len(p["shape"]) == 2:
            other = "indexed" if p["method"] == "contiguous" else "contiguous"
            r = g.compress(other)
            ex["other_ok"] = (r.data.get_compression_type() == "ragged " + other and same(r.array, full)
                              and all(same(r.construct(f"long_name=aux{k}").array, ex["aux_full"][k])
                                      for k in range(len(auxs))))
        c.extra = ex
        return " ; ".join([canon(full)] + [canon(x) for x in ex["aux_full"]]
                          + ([canon(ex["p2_full"])] if p2 is not None else []))
    if c.stream == "C06.fld":
        return impl_fld(c)
    if c.stream == "C06.st":
        return impl_st(c)
    if c.stream == "C06.enc":
        return impl_enc(c)
    if c.stream == "C06.rd":
        path = os.path.join(scratch(), f"r_{os.getpid()}.nc")
        try:
            write_file_independently(path, p)
            fs = C.read(path)
            fs = [f for f in fs if f.get_property("standard_name", None) == "air_temperature"]
            if len(fs) != 1:
                c.extra = dict(fail=f"{len(fs)} fields read")
                return "fail"
            d = fs[0].data
            full = d.array
            c.extra = dict(full=full, ctype=d.get_compression_type())
            if p.get("coords"):
                alt = find_by_ncvar(fs, "alt")
                lat = find_by_ncvar(fs, "lat")
                c.extra["alt"] = None if alt is None else (alt.array, alt.get_compression_type())
                c.extra["lat"] = None if lat is None else lat.array
            return canon(full)
        finally:
            drop_scratch(path)
    raise fw.HarnessError("unknown stream " + c.stream)


def st_transcript(obs, flags_after, final):
    """The canonical transcript of a history (same layout as the model driver's)."""
    return ("obs=" + " | ".join(f"{o} {fl}" for o, fl in zip(obs, flags_after))
            + " final=" + " | ".join(("c:" if comp else "p:") + canon(a) for comp, a in final))


def written_compressed(C, p, d):
    """cfdm.write of a field that holds `d`; looked at with netCDF4 only: is there a count, index
    or list variable?"""
    import netCDF4
    f = C.Field()
    f.set_properties({"standard_name": "air_temperature",
                      "featureType": "timeSeriesProfile" if p["kind"] == "ric" else "timeSeries"})
    axes = [f.set_construct(C.DomainAxis(n)) for n in d.shape]
    f.set_data(d, axes=axes, copy=False)
    path = os.path.join(scratch(), f"s_{os.getpid()}.nc")
    try:
        C.write(f, path)
        ds = netCDF4.Dataset(path)
        try:
            return any(a in v.ncattrs() for v in ds.variables.values()
                       for a in ("sample_dimension", "instance_dimension", "compress"))
        finally:
            ds.close()
    finally:
        drop_scratch(path)


def impl_st(c):
    C = cfdm()
    p = c.payload
    d, carr = build("C06." + p["kind"], p)
    heap = [d]
    obs, flags = [], []
    for op in p["prog"]:
        k, i = op[0], op[1]
        x = heap[i]
        o = "ok"
        try:
            if k == "A":
                o = canon(x.array)
            elif k == "G":
                heap.append(x[c03.py_ix(norm_ix(op[2]))])
            elif k == "C":
                heap.append(x.copy())
            elif k == "S":
                x[c03.py_ix(norm_ix(op[2]))] = C.masked if op[3] is None else op[3]
            elif k == "T":
                r = x.transpose(axes=op[2], inplace=bool(op[3]))
                if not op[3]:
                    heap.append(r)
            elif k == "Q":
                r = x.squeeze(axes=op[2], inplace=bool(op[3]))
                if not op[3]:
                    heap.append(r)
            elif k == "D":
                r = x.insert_dimension(position=op[2], inplace=bool(op[3]))
                if not op[3]:
                    heap.append(r)
            elif k == "M":
                r = x.to_memory(inplace=bool(op[2]))
                if not op[2]:
                    heap.append(r)
            elif k == "U":
                r = x.uncompress(inplace=bool(op[2]))
                if not op[2]:
                    heap.append(r)
            elif k == "E":
                o = str(bool(x.equals(heap[op[2]])))
            elif k == "W":
                o = "written:compressed" if written_compressed(C, p, x) else "written:plain"
        except Exception as e:
            o = "raised:" + fw.exc_enum(e)
        obs.append(o)
        flags.append("".join("c" if y.get_compression_type() else "p" for y in heap))
    final = [(bool(y.get_compression_type()), y.array) for y in heap]
    # the compressed array under every object that still is compressed is the one supplied
    c.extra = dict(full=heap[0].array, untouched_ok=all(
        same(y.compressed_array, carr) for y in heap if y.get_compression_type()))
    return st_transcript(obs, flags, final)


def oracle_st(c):
    """numpy on the CF array, and the property's rule for the flags: an object is still compressed
    iff it was created compressed (object 0), or copied / brought to memory / returned unchanged
    from such an object, and has not been assigned to or changed in place since."""
    p = c.payload
    u = spec_array("C06." + p["kind"], p)
    heap = [(True, u)]
    obs, flags = [], []
    for op in p["prog"]:
        k, i = op[0], op[1]
        comp, a = heap[i]
        o = "ok"

        def put(new, changed, inplace):
            e = (comp and not changed, new)
            if inplace:
                heap[i] = e
            else:
                heap.append(e)
        if k == "A":
            o = canon(a)
        elif k == "G":
            pos = c03.expand([tuple(t) for t in norm_ix(op[2])], list(a.shape))
            r = a
            for ax, q in enumerate(pos):
                r = np.ma.take(r, q, axis=ax)
            heap.append((False, r))
        elif k == "C":
            heap.append((comp, a.copy()))
        elif k == "S":
            pos = c03.expand([tuple(t) for t in norm_ix(op[2])], list(a.shape))
            b = np.ma.array(a.copy(), mask=np.ma.getmaskarray(a).copy())
            b[np.ix_(*pos)] = np.ma.masked if op[3] is None else op[3]
            heap[i] = (False, b)
        elif k == "T":
            nd = a.ndim
            axes = list(range(nd))[::-1] if op[2] is None else list(op[2])
            if sorted(axes) != list(range(nd)):
                o = "raised:ValueError"
            else:
                put(np.ma.transpose(a, axes), axes != list(range(nd)), op[3])
        elif k == "Q":
            axes = [k2 for k2, n in enumerate(a.shape) if n == 1] if op[2] is None else list(op[2])
            if any(a.shape[k2] != 1 for k2 in axes):
                o = "raised:ValueError"
            else:
                put(a.reshape([n for k2, n in enumerate(a.shape) if k2 not in axes]), bool(axes), op[3])
        elif k == "D":
            put(np.ma.expand_dims(a, op[2]), True, op[3])
        elif k == "M":
            put(a, False, op[2])
        elif k == "U":
            put(a, True, op[2])
        elif k == "E":
            o = str(same(a, heap[op[2]][1]))
        elif k == "W":
            o = "written:compressed" if comp else "written:plain"
        obs.append(o)
        flags.append("".join("c" if x[0] else "p" for x in heap))
    want = st_transcript(obs, flags, heap)
    if c.impl_out != want:
        return f"history differs from numpy on the CF array / the compression rule: got {c.impl_out} want {want}"
    ex = c.extra if isinstance(c.extra, dict) else {}
    if not ex.get("untouched_ok", False):
        return "the compressed array under a still-compressed object is not the one supplied"
    return None


def enc_mixed(p):
    return p["kind"] != "ga" and any(sp == "data" and not cp for _, sp, cp, _ in p["cons"])


def enc_shape(p):
    """In-memory uncompressed shape of the field data (one column more than needed, so that the
    reader's shrinking to the largest count is exercised)."""
    if p["kind"] == "rc":
        return [p["ninst"], max(p["count"], default=0) + 1]
    occ = max([p["index"].count(i) for i in range(p["ninst"])], default=0)
    if p["kind"] == "ri":
        return [p["ninst"], occ + 1]
    return [p["ninst"], occ + 1, max(p["count"], default=0) + 1]


def canon_file(path):
    """The dataset as netCDF4 shows it, in the model's canonical text."""
    import netCDF4
    ds = netCDF4.Dataset(path)
    try:
        ds.set_auto_maskandscale(True)
        dims = sorted(f"{n}:{len(d)}" for n, d in ds.dimensions.items())
        vs = []
        for n, v in ds.variables.items():
            attrs = ""
            special = False
            for a in ("sample_dimension", "instance_dimension", "compress"):
                if a in v.ncattrs():
                    attrs += f"{a}={v.getncattr(a)},"
                    special = True
            arr = np.ma.asanyarray(v[...])
            if special:
                vals = fmt_list([int(x) for x in np.ma.getdata(arr).flatten()])
            else:
                m = np.ma.getmaskarray(arr).flatten()
                d = np.ma.getdata(arr).flatten()
                vals = "[" + ",".join("--" if mm else str(int(x)) for x, mm in zip(d, m)) + "]"
            vs.append(f"{n}({','.join(v.dimensions)}){{{attrs}}}={vals}")
        ft = int("featureType" in ds.ncattrs())
        return f"featureType={ft} dims={','.join(dims)} vars={';'.join(sorted(vs))}"
    finally:
        ds.close()


def find_by_ncvar(fields, name):
    for f in fields:
        if f.nc_get_variable(None) == name:
            return f.data
        for c in f.constructs.filter_by_data(todict=True).values():
            if c.nc_get_variable(None) == name:
                return c.data
    return None


def impl_enc(c):
    C = cfdm()
    p = c.payload
    f = C.Field()
    f.nc_set_variable("temp")
    if p["kind"] == "ga":
        lead = [k for _, k in p["lead"]]
        dims = [k for _, k in p["dims"]]
        trail = [k for _, k in p["trail"]]
        f.set_properties({"standard_name": "air_temperature"})
        axes = []
        for n, k in p["lead"] + p["dims"] + p["trail"]:
            da = C.DomainAxis(k)
            da.nc_set_dimension(n)
            axes.append(f.set_construct(da))
        nl = len(lead)

        def gathered(vals, dtype):
            lv = C.List(data=C.Data(np.array(p["list"], dtype=int)))
            lv.nc_set_variable(p["listvar"])
            carr = to_ma(vals, lead + [len(p["list"])] + trail, dtype)
            return C.Data(C.GatheredArray(compressed_array=C.Data(carr), shape=tuple(lead + dims + trail),
                                          compressed_dimensions={nl: tuple(range(nl, nl + len(dims)))},
                                          list_variable=lv))
        for n, vals in p["cons"]:
            if n == "temp":
                f.set_data(gathered(vals, p["dtype"]), axes=axes)
            else:
                x = C.AuxiliaryCoordinate(properties={"long_name": n}, data=gathered(vals, "f8"))
                x.nc_set_variable(n)
                f.set_construct(x, axes=axes)
        names = [n for n, _ in p["cons"]]
    else:
        kind = p["kind"]
        shape = enc_shape(p)
        props = {"standard_name": "air_temperature"}
        if p["ft"]:
            props["featureType"] = "timeSeriesProfile" if kind == "ric" else "timeSeries"
        f.set_properties(props)
        axes = []
        for k, n in enumerate(shape):
            da = C.DomainAxis(n)
            if k == 0:
                da.nc_set_dimension(p["inst"])
            axes.append(f.set_construct(da))

        def count_var():
            v = C.Count(data=C.Data(np.array(p["count"], dtype=int)))
            v.nc_set_variable(p["countvar"])
            v.nc_set_sample_dimension(p["sample"])
            if kind == "ric":
                v.nc_set_dimension(p["profile"])
            return v

        def index_var():
            v = C.Index(data=C.Data(np.array(p["index"], dtype=int)))
            v.nc_set_variable(p["indexvar"])
            v.nc_set_dimension(p["sample"] if kind == "ri" else p["profile"])
            return v

        def ragged(vals, dtype, span):
            carr = C.Data(to_ma(vals, [len(vals)], dtype))
            if span == "profile":
                return C.RaggedIndexedArray(compressed_array=carr, shape=tuple(shape[:2]), index_variable=index_var())
            if kind == "rc":
                return C.RaggedContiguousArray(compressed_array=carr, shape=tuple(shape), count_variable=count_var())
            if kind == "ri":
                return C.RaggedIndexedArray(compressed_array=carr, shape=tuple(shape), index_variable=index_var())
            return C.RaggedIndexedContiguousArray(compressed_array=carr, shape=tuple(shape),
                                                  count_variable=count_var(), index_variable=index_var())
        for n, span, comp, vals in p["cons"]:
            dtype = p["dtype"] if n == "temp" else "f8"
            if span == "instance":
                d = C.Data(to_ma(vals, [len(vals)], dtype))
                cax = axes[:1]
            else:
                d = C.Data(ragged(vals, dtype, span))
                if not comp:
                    d = C.Data(d.array)          # what an assignment leaves: a numpy array
                cax = axes[:2] if span == "profile" else axes
            if n == "temp":
                f.set_data(d, axes=cax)
            else:
                x = C.AuxiliaryCoordinate(properties={"long_name": n}, data=d)
                x.nc_set_variable(n)
                f.set_construct(x, axes=cax)
        names = [n for n, _, _, _ in p["cons"]]
    path = os.path.join(scratch(), f"e_{os.getpid()}.nc")
    try:
        try:
            C.write(f, path)
        except Exception as e:
            c.extra = dict(fail="write raised " + repr(e)[:200])
            return "write-fails"
        out = "file=" + canon_file(path)
        h = C.read(path)
        parts = []
        for n in names:
            d = find_by_ncvar(h, n)
            parts.append(f"{n}:none" if d is None else f"{n}:{canon(d.array)}")
        c.extra = dict(fail=None, nfields=len(h))
        return out + " read=" + ";".join(parts)
    finally:
        drop_scratch(path)


def oracle_enc(c):
    """Independent of the model: the written file must decode (CF decoder on what netCDF4 shows) to the
    arrays the field had in memory, and cfdm.read must present those arrays (up to the reader's shape)."""
    p = c.payload
    if c.impl_out == "write-fails":
        return "cfdm.write of the field failed: " + str((c.extra or {}).get("fail"))
    # what the field holds in memory, per construct
    want = {}
    if p["kind"] == "ga":
        lead = [k for _, k in p["lead"]]
        dims = [k for _, k in p["dims"]]
        trail = [k for _, k in p["trail"]]
        for n, vals in p["cons"]:
            carr = to_ma(vals, lead + [len(p["list"])] + trail, "f8")
            want[n] = cf_gathered(p["list"], lead, dims, carr)
    else:
        kind = p["kind"]
        # the reader's shape
        if kind == "rc":
            shape = [p["ninst"], max(p["count"], default=0)]
        else:
            occ = max([p["index"].count(i) for i in range(p["ninst"])], default=0)
            shape = [p["ninst"], occ] + ([max(p["count"], default=0)] if kind == "ric" else [])
        for n, span, comp, vals in p["cons"]:
            carr = to_ma(vals, [len(vals)], "f8")
            if span == "instance":
                want[n] = carr
            elif span == "profile":
                want[n] = cf_indexed(p["index"], shape[:2], carr)
            elif not p["ft"]:
                want[n] = None          # without featureType a reader cannot know: not claimed
            elif kind == "rc":
                want[n] = cf_contiguous(p["count"], shape, carr)
            elif kind == "ri":
                want[n] = cf_indexed(p["index"], shape, carr)
            else:
                want[n] = cf_indexed_contiguous(p["count"], p["index"], shape, carr)
            if span == "profile" and not p["ft"]:
                want[n] = None
    got = dict(x.split(":", 1) for x in c.impl_out.split(" read=", 1)[1].split(";"))
    for n, w in want.items():
        if w is None:
            continue
        if got.get(n) != canon(w):
            return f"cfdm.read presents {n} as {got.get(n)}, the CF definition gives {canon(w)}"
    # the file itself: compressed variables are on the sample dimension
    text = c.impl_out.split(" read=", 1)[0]
    if p["kind"] != "ga":
        for n, span, comp, vals in p["cons"]:
            dim = {"data": p["sample"], "instance": p["inst"], "profile": p["profile"]}[span]
            if f"{n}({dim})" not in text:
                return f"variable {n} is not written on dimension {dim}: {text}"
    else:
        if f"{p['listvar']}({p['listvar']}){{compress=" + " ".join(n for n, _ in p["dims"]) + ",}" not in text:
            return "list variable with its compress attribute not found: " + text
    return None


def write_file_independently(path, p):
    """A CF-netCDF file holding the compressed array of the case, written with netCDF4 only."""
    import netCDF4
    kind = p["kind"]
    trail = p["trail"]
    ds = netCDF4.Dataset(path, "w")
    try:
        ds.Conventions = "CF-1.8"
        tdims = []
        for k, t in enumerate(trail):
            ds.createDimension(f"t{k}", t)
            tdims.append(f"t{k}")
        fill = -99
        if kind == "ga":
            n = len(p["list"])
            ldims = []
            for k, t in enumerate(p["lead"]):
                ds.createDimension(f"l{k}", t)
                ldims.append(f"l{k}")
            names = []
            for k, t in enumerate(p["dims"]):
                ds.createDimension(f"d{k}", t)
                names.append(f"d{k}")
            ds.createDimension("points", n)
            lv = ds.createVariable("points", "i4", ("points",))
            lv.compress = " ".join(names)
            lv[...] = np.array(p["list"], dtype="i4")
            v = ds.createVariable("temp", p["dtype"], tuple(ldims + ["points"] + tdims), fill_value=fill)
            v.standard_name = "air_temperature"
            v[...] = to_ma(p["c"], p["lead"] + [n] + trail, p["dtype"])
            return
        N = len(p["c"]) // prod(trail)
        ds.featureType = p.get("ft") or ("timeSeries" if kind in ("rc", "ri") else "timeSeriesProfile")
        ds.createDimension("station", p["shape"][0])
        ds.createDimension("obs", N)
        if kind == "rc":
            cv = ds.createVariable("row_size", "i4", ("station",))
            cv.sample_dimension = "obs"
            cv[...] = np.array(p["count"], dtype="i4")
        elif kind == "ri":
            iv = ds.createVariable("station_index", "i4", ("obs",))
            iv.instance_dimension = "station"
            iv[...] = np.array(p["index"], dtype="i4")
        else:
            ds.createDimension("profile", len(p["count"]))
            cv = ds.createVariable("row_size", "i4", ("profile",))
            cv.sample_dimension = "obs"
            cv[...] = np.array(p["count"], dtype="i4")
            iv = ds.createVariable("station_index", "i4", ("profile",))
            iv.instance_dimension = "station"
            iv[...] = np.array(p["index"], dtype="i4")
        v = ds.createVariable("temp", p["dtype"], tuple(["obs"] + tdims), fill_value=fill)
        v.standard_name = "air_temperature"
        v[...] = to_ma(p["c"], [N] + trail, p["dtype"])
        if p.get("coords"):
            v.coordinates = "alt lat"
            a = ds.createVariable("alt", "f8", ("obs",), fill_value=-99.0)
            a.standard_name = "altitude"
            a[...] = to_ma([None if x is None else 1000 + k for k, x in enumerate(p["c"])], [N], "f8")
            la = ds.createVariable("lat", "f8", ("station",))
            la.standard_name = "latitude"
            la[...] = np.arange(p["shape"][0]) + 50.0
    finally:
        ds.close()


def aux_array(p, arr):
    """An auxiliary coordinate array on the same axes whose trailing mask relates to the data's as asked."""
    r = np.random.RandomState(p["aseed"] % (1 << 31))
    rows = arr.reshape(-1, arr.shape[-1])
    a = np.ma.array(np.arange(rows.size, dtype="f8").reshape(rows.shape) + 1000, mask=False)
    for i in range(rows.shape[0]):
        n = trailing_count(rows[i])
        if p["aux"] == "longer":
            n = min(rows.shape[1], n + r.randint(0, 2))
        elif p["aux"] == "shorter":
            n = max(0, n - r.randint(0, 2))
        a[i, n:] = np.ma.masked
    return a.reshape(arr.shape)


def impl_fld(c):
    C = cfdm()
    p = c.payload
    arr = to_ma(p["a"], p["shape"], p["dtype"])
    f, axes = make_field(p, arr)
    aux = None
    if p["aux"] != "none":
        aux = aux_array(p, arr)
        x = C.AuxiliaryCoordinate(properties={"standard_name": "altitude", "units": "m"}, data=C.Data(aux))
        if p["bounds"]:
            b = np.ma.masked_all(aux.shape + (2,), dtype="f8")
            b[..., 0] = aux - 0.5
            b[..., 1] = aux + 0.5
            x.set_bounds(C.Bounds(data=C.Data(b)))
        f.set_construct(x, axes=axes)
    # a coordinate on the instance axis only: must be left alone
    st = C.AuxiliaryCoordinate(properties={"long_name": "station"}, data=C.Data(np.arange(arr.shape[0]) * 10.0))
    f.set_construct(st, axes=[axes[0]])
    ex = dict(fail=None, aux=aux)

    def fail(msg):
        if ex["fail"] is None:
            ex["fail"] = msg

    g = f.compress(p["method"])
    want_type = "ragged " + p["method"].replace("_", " ")
    if g.data.get_compression_type() != want_type:
        fail(f"compression type {g.data.get_compression_type()!r}")
    if f.data.get_compression_type() != "":
        fail("compress(inplace=False) compressed the source")
    if not same(g.array, arr):
        fail("field data after compress differ from the original")
    if aux is not None:
        ga = g.auxiliary_coordinate("altitude")
        if not same(ga.array, aux):
            fail("same-axes auxiliary coordinate after compress differs from the original")
        if ga.data.get_compression_type() != want_type:
            fail("same-axes auxiliary coordinate not compressed")
        if p["bounds"] and not same(ga.bounds.array, f.auxiliary_coordinate("altitude").bounds.array):
            fail("bounds of the same-axes auxiliary coordinate differ after compress")
    if not same(g.auxiliary_coordinate("long_name=station").array, st.array):
        fail("instance-axis coordinate changed by compress")
    if g.data.get_compression_type() != want_type:
        fail("reading the array uncompressed the data")
    try:
        if not g.equals(f) or not f.equals(g):
            fail("compressed field does not equal the original")
    except Exception as e:
        fail("equals raised " + repr(e)[:100])
    u = g.uncompress()
    if u.data.get_compression_type() != "" or not same(u.array, arr):
        fail("uncompress: still compressed or array differs")
    if aux is not None and (u.auxiliary_coordinate("altitude").data.get_compression_type() != ""
                            or not same(u.auxiliary_coordinate("altitude").array, aux)):
        fail("uncompress: auxiliary coordinate still compressed or differs")
    ex["file"] = None
    if p["write"]:
        path = os.path.join(scratch(), f"f_{os.getpid()}.nc")
        try:
            towrite = [g]
            if p.get("clash"):
                g.domain_axis(axes[0]).nc_set_dimension(p["clash"])
            if p.get("second"):
                # same shape, other counts: the rows in reverse order with one more trailing element masked
                if p["second"] in (3, 4):
                    # same mask, other values, no coordinates of its own
                    arr2 = np.ma.array(np.ma.getdata(arr) + 1, mask=np.ma.getmaskarray(arr).copy())
                    if aux is not None:
                        # (the counts of g also cover its coordinate: give the second field the same extent)
                        arr2 = np.ma.array(np.ma.getdata(arr2), mask=np.ma.getmaskarray(arr) & np.ma.getmaskarray(aux))
                else:
                    arr2 = np.ma.array(arr[..., ::-1, :].copy()) if arr.ndim == 2 else np.ma.array(arr[:, ::-1, :].copy())
                    arr2[..., -1] = np.ma.masked
                f2, _ = make_field(p, arr2)
                f2.set_property("standard_name", "air_pressure")
                g2 = f2.compress(p["method"])
                towrite = [g, g2] if p["second"] in (1, 3) else [g2, g]
            C.write(towrite, path)
            ex["file"] = read_file_independently(path, p, arr.shape)
            h = C.read(path)
            if len(towrite) == 1 and len(h) != 1:
                fail(f"cfdm.read returned {len(h)} fields")
            # (with a second field in the file only the DATA of this one are C06's business: whether the two
            #  fields' coordinates interfere is property C09)
            h = [x for x in h if x.get_property("standard_name", None) == "air_temperature"]
            if len(h) != 1:
                fail(f"cfdm.read returned {len(h)} air_temperature fields")
            else:
                h = h[0]
                if h.data.get_compression_type() != want_type:
                    fail("re-read field is not compressed: " + repr(h.data.get_compression_type()))
                if not same_up_to_padding(h.array, arr):
                    fail("re-read field data differ from the original")
                if len(towrite) == 1:
                    # the metadata constructs of the compressed field through write and read: the DSG
                    # coordinate on the same axes (with its bounds) comes back compressed and equal, the
                    # coordinate on the instance axis unchanged
                    if aux is not None:
                        ha = h.auxiliary_coordinate("altitude", default=None)
                        if ha is None:
                            fail("re-read field has no altitude coordinate")
                        else:
                            if ha.data.get_compression_type() != want_type:
                                fail("re-read same-axes coordinate is not compressed")
                            if not same_up_to_padding(ha.array, aux):
                                fail("re-read same-axes coordinate differs from the original")
                            if p["bounds"] and (not ha.has_bounds() or not same_up_to_padding(
                                    ha.bounds.array, f.auxiliary_coordinate("altitude").bounds.array)):
                                fail("re-read bounds of the same-axes coordinate differ from the original")
                    hs = h.auxiliary_coordinate("long_name=station", default=None)
                    if hs is None or not same(hs.array, st.array):
                        fail("re-read instance-axis coordinate lost or changed")
        except Exception as e:
            fail("write/read raised " + repr(e)[:200])
        finally:
            drop_scratch(path)
    c.extra = ex
    return "ok" if ex["fail"] is None else "fail"


def same_up_to_padding(x, y):
    """Equal after removing trailing all-masked hyper-rows on every axis (a reader sizes the
    uncompressed array by the largest count)."""
    x = np.ma.asanyarray(x)
    y = np.ma.asanyarray(y)
    if x.ndim != y.ndim:
        return False
    shape = [max(a, b) for a, b in zip(x.shape, y.shape)]

    def pad(z):
        u = np.ma.masked_all(shape, dtype=z.dtype)
        u[tuple(slice(0, n) for n in z.shape)] = z
        return u
    return same(pad(x), pad(y))


def read_file_independently(path, p, shape):
    """netCDF4-only decode of the written dataset (no cfdm)."""
    import netCDF4
    ds = netCDF4.Dataset(path)
    try:
        out = dict(vars={})
        dvar = [v for v in ds.variables.values() if getattr(v, "standard_name", None) == "air_temperature"]
        if len(dvar) != 1:
            return dict(error="no single data variable")
        dvar = dvar[0]
        out["data_dims"] = list(dvar.dimensions)
        if dvar.ndim != 1:
            return dict(error=f"data variable written with dimensions {dvar.dimensions}: not compressed")
        sample = dvar.dimensions[0]
        countv = [v for v in ds.variables.values() if getattr(v, "sample_dimension", None) == sample]
        indexv = [v for v in ds.variables.values() if hasattr(v, "instance_dimension")]
        c = np.ma.asanyarray(dvar[...])
        alt = [v for v in ds.variables.values() if getattr(v, "standard_name", None) == "altitude"]
        ac = None
        if alt:
            if alt[0].dimensions != dvar.dimensions:
                return dict(error="auxiliary coordinate variable not on the sample dimension")
            ac = np.ma.asanyarray(alt[0][...])
        m = p["method"]
        if m == "contiguous":
            if len(countv) != 1 or indexv:
                return dict(error="expected exactly one count variable and no index variable")
            count = [int(x) for x in countv[0][...]]
            if len(ds.dimensions[countv[0].dimensions[0]]) > shape[0]:
                return dict(error="more instances in the file than in the field")
            dec = lambda a: cf_contiguous(count, shape, a)
        elif m == "indexed":
            # (another field of the same file may have an index variable of its own, on its own sample dimension)
            indexv = [v for v in indexv if v.dimensions == (sample,)]
            if len(indexv) != 1 or countv:
                return dict(error="expected exactly one index variable on the sample dimension and no count variable")
            index = [int(x) for x in indexv[0][...]]
            dec = lambda a: cf_indexed(index, shape, a)
        else:
            if len(countv) != 1:
                return dict(error="expected one count variable naming the sample dimension")
            indexv = [v for v in indexv if v.dimensions == countv[0].dimensions]
            if len(indexv) != 1:
                return dict(error="expected one index variable on the count variable's dimension")
            count = [int(x) for x in countv[0][...]]
            index = [int(x) for x in indexv[0][...]]
            dec = lambda a: cf_indexed_contiguous(count, index, shape, a)
        out["data"] = dec(c)
        out["aux"] = None if ac is None else dec(ac)
        return out
    finally:
        ds.close()


def agree(c):
    return c.impl_out == c.model_out


# ---------------------------------------------------------------- oracle
def spec_array(stream, p):
    trail = p["trail"]
    if stream == "C06.ga":
        c = to_ma(p["c"], p["lead"] + [len(p["list"])] + trail, p["dtype"])
        return cf_gathered(p["list"], p["lead"], p["dims"], c)
    N = len(p["c"]) // prod(trail)
    c = to_ma(p["c"], [N] + trail, p["dtype"])
    if stream == "C06.rc":
        return cf_contiguous(p["count"], p["shape"], c)
    if stream == "C06.ri":
        return cf_indexed(p["index"], p["shape"], c)
    return cf_indexed_contiguous(p["count"], p["index"], p["shape"], c)


def oracle(c):
    """Verdict of the independent oracle.  Afterwards `c.extra` is replaced by a short string
    (the full uncompressed array the implementation showed), which is what survives the trip
    from a worker process to `classify`."""
    r = _oracle(c)
    ex = c.extra if isinstance(c.extra, dict) else None
    if ex is not None and "full" in ex:
        c.extra = "full:" + canon(ex["full"])
    elif ex is not None:
        c.extra = "fail:" + str(ex.get("fail"))
    return r


def _oracle(c):
    p = c.payload
    ex = c.extra if isinstance(c.extra, dict) else None
    if c.stream in CTYPE:
        if ex is None:
            return "implementation raised: " + str(c.impl_out)
        u = spec_array(c.stream, p)
        if not same(ex["full"], u):
            return f"uncompressed array differs from the CF definition: got {canon(ex['full'])} want {canon(u)}"
        if ex["dtype"] != str(np.dtype(p["dtype"])):
            return f"dtype {ex['dtype']} != {p['dtype']}"
        if p.get("ix") is not None:
            pos = c03.expand([tuple(t) for t in p["ix"]], list(u.shape))
            r = u
            for ax, q in enumerate(pos):
                r = np.ma.take(r, q, axis=ax) if len(q) else r[(slice(None),) * ax + (slice(0, 0),)]
            if c.impl_out != canon(r):
                return f"subspace differs from the per-axis take of the CF array: got {c.impl_out} want {canon(r)}"
            if ex["ctype_after_subspace"] != CTYPE[c.stream]:
                return "subspacing uncompressed the source"
        if ex["ctype0"] != CTYPE[c.stream] or ex["ctype_after_array"] != CTYPE[c.stream]:
            return f"compression type {ex['ctype0']!r} / after .array {ex['ctype_after_array']!r}"
        if not ex["eq"]:
            return "compressed data do not equal the same data uncompressed"
        if not ex.get("neq", True) or not ex.get("neq_mask", True):
            return "compressed data equal a different array"
        if not ex["compressed_same"]:
            return "compressed_array is not the array that was supplied"
        if not ex.get("chunked_ok", True):
            return "the array assembled from subarrays(shapes=chunks) differs from the array assembled from one chunk"
        if "ctype_after_set" in ex:
            if ex["ctype_after_set"] != "":
                return "data still compressed after assignment"
            if not ex["set_ok"]:
                return "array after assignment is not the uncompressed array with the element replaced"
            if ex["src_after_copy_set"] != CTYPE[c.stream]:
                return "assigning to a copy uncompressed the original"
        return None
    if c.stream == "C06.st":
        if ex is None:
            return "implementation raised: " + str(c.impl_out)
        return oracle_st(c)
    if c.stream == "C06.enc":
        if ex is None:
            return "implementation raised: " + str(c.impl_out)
        return oracle_enc(c)
    if c.stream == "C06.rd":
        if ex is None:
            return "implementation raised: " + str(c.impl_out)
        if ex.get("fail"):
            return ex["fail"]
        u = spec_array("C06." + p["kind"], p)
        if not same(ex["full"], u):
            return f"array read from the file differs from the CF definition: got {canon(ex['full'])} want {canon(u)}"
        if ex["ctype"] != CTYPE["C06." + p["kind"]]:
            return f"data read from the file have compression type {ex['ctype']!r}"
        if p.get("coords"):
            # the DSG coordinate on the sample dimension is decoded like the data, the one on the
            # instance dimension is left alone
            q = dict(p)
            q["c"] = [None if x is None else 1000 + k for k, x in enumerate(p["c"])]
            q["dtype"] = "f8"
            want = spec_array("C06." + p["kind"], q)
            if ex.get("alt") is None or not same(ex["alt"][0], want):
                return ("coordinate on the sample dimension differs from the CF definition: got "
                        + ("nothing" if ex.get("alt") is None else canon(ex["alt"][0])) + " want " + canon(want))
            if ex["alt"][1] != CTYPE["C06." + p["kind"]]:
                return f"coordinate on the sample dimension has compression type {ex['alt'][1]!r}"
            if ex.get("lat") is None or not same(ex["lat"], np.arange(p["shape"][0]) + 50.0):
                return "coordinate on the instance dimension changed or lost"
        return None
    if c.stream == "C06.cmp":
        if ex is None:
            return "implementation raised: " + str(c.impl_out)
        arr = to_ma(p["a"], p["shape"], p["dtype"])
        want_type = "ragged " + p["method"].replace("_", " ")
        if not same(ex["full"], arr):
            return f"array after compress differs from the original: got {canon(ex['full'])} want {canon(arr)}"
        if ex["ctype"] != want_type or ex["ctype_after"] != want_type:
            return f"compression type {ex['ctype']!r}"
        if ex["src_ctype"] != "":
            return "compress(inplace=False) compressed the source"
        if ex["unc_ctype"] != "" or not ex["unc_same"]:
            return "uncompress: still compressed or array changed"
        # the count/index variables and the compressed array decode independently to the same array
        carr = np.ma.asanyarray(ex["carr"])
        if p["method"] == "contiguous":
            u = cf_contiguous(ex["count"], p["shape"], carr)
        elif p["method"] == "indexed":
            u = cf_indexed(ex["index"], p["shape"], carr)
        else:
            u = cf_indexed_contiguous(ex["count"], ex["index"], p["shape"], carr)
        if not same(u, arr):
            return "independent decode of the count/index variables and compressed array differs from the original"
        if not ex.get("again_ok", True):
            return "compressing an already compressed field by the same method changed it"
        if not ex.get("other_ok", True):
            return "re-compressing a compressed field by the other method changed an array or left the old type"
        for k, x in enumerate(p.get("auxs") or []):
            if not same(ex["aux_full"][k], to_ma(x, p["shape"], "f8")):
                return (f"same-axes construct {k} after compress differs from the original: got "
                        f"{canon(ex['aux_full'][k])} want {canon(to_ma(x, p['shape'], 'f8'))}")
            if ex["aux_ctype"][k] != want_type:
                return f"same-axes construct {k} has compression type {ex['aux_ctype'][k]!r}"
        if p.get("p2") is not None:
            if ex["p2_ctype"] != "ragged indexed":
                return f"(instance, profile) coordinate has compression type {ex['p2_ctype']!r}"
            want = to_ma(p["p2"], p["shape"][:2], "f8")
            if not same(ex["p2_full"], want):
                return (f"(instance, profile) coordinate after compress differs from the original: got "
                        f"{canon(ex['p2_full'])} want {canon(want)}")
        return None
    if c.stream == "C06.fld":
        if ex is None:
            return "implementation raised: " + str(c.impl_out) + " " + str(c.extra)[-300:]
        if ex["fail"]:
            return ex["fail"]
        if p["write"]:
            fl = ex["file"]
            if fl is None or "error" in fl:
                return "file: " + str(fl)
            arr = to_ma(p["a"], p["shape"], p["dtype"])
            if not same(fl["data"], arr):
                return "independent decode of the written file differs from the original field data"
            if ex["aux"] is not None and (fl["aux"] is None or not same(fl["aux"], ex["aux"])):
                return "independent decode of the written auxiliary coordinate differs"
        return None
    return None


# ---------------------------------------------------------------- findings
def absent_below_max(index):
    """Some instance below the largest one that occurs has no sample: np.unique(index) != range(k)."""
    s = sorted(set(index))
    return s != list(range(len(s)))


def rows_of(p):
    ncols = p["shape"][-1]
    a = p["a"]
    return [a[i:i + ncols] for i in range(0, len(a), ncols)]


def triggers(p):
    """Which inputs of the known compress findings does a compress case contain?  Computed from the
    payload alone.  `used` are the counts the code as it is now derives: from the same-axes auxiliary
    coordinate if there is one, else from the field data."""
    rows = rows_of(p)
    cnt = []
    for r in rows:
        n = len(r)
        while n and r[n - 1] is None:
            n -= 1
        cnt.append(n)
    used = cnt
    out = []
    if p.get("aux", "none") != "none":
        arr = to_ma(p["a"], p["shape"], p["dtype"])
        aux = aux_array(p, arr).reshape(-1, arr.shape[-1])
        used = [trailing_count(x) for x in aux]
        if any(u < n for u, n in zip(used, cnt)):
            out.append("aux-shorter")
    if any(any(v is None for v in r[:u]) for r, u in zip(rows, used)):
        out.append("interior-mask")
    written = bool(p.get("write"))
    if p["method"] in ("contiguous", "indexed"):
        if any(a == 0 and any(b > 0 for b in used[i + 1:]) for i, a in enumerate(used)):
            out.append("empty-row-before-nonempty")
        elif written and p["method"] == "contiguous" and 0 in used:
            out.append("empty-row-written")
    else:
        mp = p["shape"][1]
        per = [used[i:i + mp] for i in range(0, len(used), mp)]
        if any(any(a == 0 and any(b > 0 for b in x[j + 1:]) for j, a in enumerate(x)) for x in per):
            out.append("empty-profile-before-nonempty")
        ne = [any(x) for x in per]
        if any((not a) and any(ne[i + 1:]) for i, a in enumerate(ne)):
            out.append("empty-instance-before-nonempty")
    return out


# -- what the code as it is now computes (used only to decide whether a failure is one of the known ones)
def old_decode_indexed(index, shape, c):
    u = np.ma.masked_all(tuple(shape) + c.shape[1:], dtype=c.dtype)
    for r, i in enumerate(sorted(set(index))):
        if r >= shape[0]:
            break
        pos = [k for k, x in enumerate(index) if x == i]
        if pos:
            u[r, :len(pos)] = c[pos]
    return u


def old_decode_ic(count, index, shape, c):
    u = np.ma.masked_all(tuple(shape) + c.shape[1:], dtype=c.dtype)
    cps = np.cumsum(count).tolist() if count else []
    rows = []
    for i in sorted(set(index)):
        locs = [k for k, x in enumerate(index) if x == i]
        for j in locs:
            rows.append((0 if not j else cps[j - 1], cps[j]))
        rows += [(0, 0)] * (shape[1] - len(locs))
    for r, (a, b) in enumerate(rows[: shape[0] * shape[1]]):
        if b > a:
            u[r // shape[1], r % shape[1], : b - a] = c[a:b]
    return u


def old_compress(p):
    """Array seen after Field.compress as coded now: interior masks are lost (the value under the
    mask shows), zero counts are dropped, instances are placed by rank."""
    arr = to_ma(p["a"], p["shape"], p["dtype"])
    rows = arr.reshape(-1, arr.shape[-1])
    cnt = [trailing_count(r) for r in rows]
    packed = np.concatenate([np.ma.getdata(r)[:n] for r, n in zip(rows, cnt)] + [np.zeros(0, dtype=arr.dtype)])
    packed = np.ma.array(packed, mask=False)
    if p["method"] == "contiguous":
        return cf_contiguous([n for n in cnt if n], p["shape"], packed)
    if p["method"] == "indexed":
        index = [i for i, n in enumerate(cnt) for _ in range(n)]
        return old_decode_indexed(index, p["shape"], packed)
    mp = p["shape"][1]
    index = []
    for i in range(p["shape"][0]):
        index += [i] * sum(n > 0 for n in cnt[i * mp:(i + 1) * mp])
    return old_decode_ic([n for n in cnt if n], index, p["shape"], packed)


def ic_trailing(shape, trail):
    """RaggedIndexedContiguousArray.subarrays slices a trailing dimension with the extent of the
    dimension before it: harmless only when that extent is not smaller."""
    ext = [shape[2]] + list(trail)
    return any(a < b for a, b in zip(ext, ext[1:]))


def axis_on_shared_sample_dimension(p):
    """Input of the open finding `axis-takes-over-sample-dimension-of-earlier-field`: the field is written
    AFTER another compressed field, and its instance axis asks for the netCDF name of one of that field's
    DSG dimensions (sample dimension 'sample' / 'element', profile dimension 'feature') and has exactly
    that dimension's size."""
    if p.get("second") not in (2, 4) or not p.get("clash"):
        return False
    arr = to_ma(p["a"], p["shape"], p["dtype"])
    if p["second"] == 4:
        m2 = np.ma.getmaskarray(arr)
        if p.get("aux", "none") != "none":
            m2 = m2 & np.ma.getmaskarray(aux_array(p, arr))
        arr2 = np.ma.array(np.ma.getdata(arr), mask=m2)
    else:
        arr2 = np.ma.array(arr[..., ::-1, :].copy()) if arr.ndim == 2 else np.ma.array(arr[:, ::-1, :].copy())
        arr2[..., -1] = np.ma.masked
    cnt2 = [trailing_count(r) for r in arr2.reshape(-1, arr2.shape[-1])]
    sizes = {}
    if p["method"] == "indexed":
        sizes["sample"] = sum(cnt2)
    elif p["method"] == "contiguous":
        sizes["element"] = sum(cnt2)
    else:
        mp = p["shape"][1]
        sizes["element"] = sum(cnt2)
        sizes["feature"] = sum(n_profiles(cnt2[i * mp:(i + 1) * mp]) for i in range(p["shape"][0]))
    return sizes.get(p["clash"]) == p["shape"][0]


def classify(c):
    """Signature of a known finding, or None.  For the streams that have a model the failure must
    be *exactly* what the code as it is now is known to compute (`old_*`); anything else stays
    unclassified and is reported."""
    p = c.payload
    full = c.extra[5:] if isinstance(c.extra, str) and c.extra.startswith("full:") else None
    msg = c.extra[5:] if isinstance(c.extra, str) and c.extra.startswith("fail:") else ""
    raised = str(c.impl_out).startswith("raised:ValueError")
    kind = p.get("kind") if c.stream == "C06.rd" else c.stream[4:]
    if c.stream in ("C06.ri", "C06.ric", "C06.rd") and kind in ("ri", "ric"):
        if kind == "ric" and raised and p["trail"] and ic_trailing(p["shape"], p["trail"]):
            return "indexed-contiguous-trailing-dimension-longer-than-elements"
        if c.stream == "C06.rd" and raised and not (p["index"] if kind == "ri" else p["count"]):
            return "read-ragged-dataset-without-samples"
        if full is not None and absent_below_max(p["index"]):
            trail = p["trail"]
            N = len(p["c"]) // prod(trail)
            carr = to_ma(p["c"], [N] + trail, p["dtype"])
            old = (old_decode_indexed(p["index"], p["shape"], carr) if kind == "ri"
                   else old_decode_ic(p["count"], p["index"], p["shape"], carr))
            if full == canon(old):
                return "indexed-decode-instance-without-samples"
    if c.stream == "C06.rd" and kind == "rc" and raised and not p["count"]:
        return "read-ragged-dataset-without-samples"
    if (c.stream == "C06.cmp" and p2_beyond(p)
            and "(instance, profile) coordinate after compress differs" in str(getattr(c, "oracle_fail", "") or "")):
        return "compress-indexed-contiguous-profile-coordinate-beyond-last-profile-with-data"
    if c.stream == "C06.cmp" and full is not None:
        t = triggers(p)
        if t and full == canon(old_compress(p)):
            return sig_for(p, t)
    if c.stream == "C06.fld":
        if (p["method"] == "indexed_contiguous" and p["aux"] != "none" and p["bounds"] and p["shape"][2] < 2
                and raised):
            # the bounds of the same-axes coordinate have a trailing dimension of size 2
            return "indexed-contiguous-trailing-dimension-longer-than-elements"
        both = msg + " " + str(getattr(c, "oracle_fail", "") or "")
        if axis_on_shared_sample_dimension(p) and "not compressed: can't get compressed array" in both:
            return "axis-takes-over-sample-dimension-of-earlier-field"
        if (p["write"] and all(v is None for v in p["a"]) and p["aux"] != "none" and p["bounds"]
                and "Chunksize for dimension position 0" in both):
            # the residual case of that finding: the bounds (trailing dimension of size 2) of the coordinate
            # of an entirely missing field lie on a sample dimension of size 0
            return "read-ragged-dataset-without-samples"
        if (p.get("clash") or p.get("second")) and any(s in both for s in ("write/read raised", "re-read", "cfdm.read returned", "file: ", "independent decode of the written")):
            # fixed in /repo (known_findings.json): reported again if it returns
            return "written-sample-or-feature-dimension-name-not-the-unique-one"
        t = triggers(p)
        if t:
            return sig_for(p, t)
        if (p["write"] and p["method"] != "contiguous" and all(v is None for v in p["a"])
                and "zero-size array" in msg):
            return "read-ragged-dataset-without-samples"
    if c.stream == "C06.enc" and enc_mixed(p) and c.impl_out == "write-fails":
        return "write-field-with-uncompressed-construct-among-compressed"
    # not one of the known findings: group the report by stream (this signature is never listed
    # in known_findings.json, so it is always a VIOLATION)
    return "unexplained:" + c.stream


def _evaluate(c):
    try:
        c.impl_out = impl(c)
    except Exception as e:
        c.impl_out = "raised:" + fw.exc_enum(e)
        c.extra = None
    try:
        c.oracle_fail = oracle(c)
    except Exception as e:
        c.oracle_fail = "oracle raised " + repr(e)[:200]
    return c.oracle_fail


def shrink(c, run):
    """Smaller failing input with the same signature: drop the subspace, drop the trailing
    dimensions (keeping the first element of every sample), drop the leading dimension."""
    if c.stream not in CTYPE:
        return None
    sig = classify(c)
    best = c
    for step in ("ix", "trail", "lead"):
        p = dict(best.payload)
        if step == "ix":
            if p.get("ix") is None:
                continue
            p["ix"] = None
        elif step == "trail":
            t = prod(p["trail"])
            if t == 1 and not p["trail"]:
                continue
            p["c"] = p["c"][::t]
            p["trail"] = []
        else:
            if c.stream != "C06.ga" or not p["lead"]:
                continue
            p["c"] = p["c"][: len(p["c"]) // prod(p["lead"])]
            p["lead"] = []
        cand = mk(c.stream, p)
        if _evaluate(cand) and classify(cand) == sig:
            best = cand
    return best if best is not c else None


def sig_for(p, t):
    if "interior-mask" in t:
        return "compress-interior-masked-element-unmasked"
    if "aux-shorter" in t:
        return "compress-count-from-shorter-auxiliary-coordinate"
    if (p["method"] == "indexed" and "empty-row-before-nonempty" in t) or "empty-instance-before-nonempty" in t:
        return "indexed-decode-instance-without-samples"
    return "compress-zero-count-dropped"
