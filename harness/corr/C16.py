"""C16 — subsampled coordinates are reconstituted by the stated interpolation.

Streams (one case = one subsampled coordinate, optionally with bounds tie points)
  C16.r1   one subsampled dimension, interpolation 'linear' or 'quadratic' (with/without w; the
           model receives w AS STORED - own dimension order, any subset of the dimensions - and
           conforms / selects it itself)
  C16.r2   two subsampled dimensions, interpolation 'bi_linear'
  C16.g1 / C16.g2   the same coordinates, observable = `x[index]` (SubsampledArray.__getitem__
           with its first/last element shortcut, reached directly or through cfdm.Data)
  C16.rd   a netCDF file written with netCDF4 and read with cfdm.read, observable = what the
           reader hands to SubsampledArray (shape, tie point indices per position, parameter
           dimensions, which coordinate variables are subsampled)
Receivers (tag recv:*): the `cfdm.SubsampledArray` itself, `cfdm.Data` over it, an
auxiliary coordinate construct with bounds, and a netCDF file hand-written with netCDF4
and read back with `cfdm.read`.

Observables: `.shape`, the whole array (`[...]` / `.array`) and one subspace (`[ix]`,
`first_element()` / `last_element()` for `Data`).  The model line carries the whole array
of the observed variable (coordinates or bounds) as integers scaled by `scale`.
"""
import itertools
import math
import os
import shutil
import tempfile
from fractions import Fraction

import numpy as np

from .. import fw
from ..fw import Case, fmt_list
from . import c16_geo as geo

REQUIRED = [
    "C16_partition",
    "C16_shape",
    "C16_reconstitution",
    "C16_tie_exact",
    "C16_shared_agree",
    "C16_linear_formula",
    "C16_bilinear_formula",
    "C16_bilinear_reconstitution",
    "C16_quadratic_formula",
    "C16_bounds_reconstitution",
    "C16_bounds_contiguous",
    "C16_bilinear_bounds_reconstitution",
    "C16_bilinear_bounds_corners",
    "C16_bilinear_bounds_contiguous_0",
    "C16_bilinear_bounds_contiguous_1",
    "C16_getitem_1d",
    "C16_getitem_1d_bounds",
    "C16_getitem_2d",
    "C16_subspace_1d",
    "C16_conform_parameter",
    "C16_parameter_row",
    "C16_quadratic_stored_parameter",
    "C16_parse_mapping_roundtrip",
    "C16_coordinate_interpolation_roundtrip",
    "C16_read_parameter_dimensions",
    "C16_read_parameter_dimensions_nodup",
    "C16_read_tie_point_indices",
    "C16_read_shape",
    "C16_read_dependent_tie_points",
    "C16_qll_reconstitution",
    "C16_qll_tie_exact",
    "C16_bqll_reconstitution",
    "C16_bqll_corners",
    "C16_bqll_tie_exact",
]
BUDGET = {"quick": 3600, "thorough": 40000}
QUICK_JOBS = 8
RULE = (
    "tie-point index vectors: 1-3 continuous areas x 2-4 tie points per area x gaps 2-6 (adjacent indices = "
    "area boundary), a few vectors with a single-tie-point area (model correspondence only); 1 subsampled "
    "dimension (linear, quadratic with w stored in its own dimension order over any subset of the tie point "
    "dimensions - with or without the interpolation subarea dimension, down to a scalar -, quadratic without "
    "w) and 2 subsampled dimensions (bi_linear); 0-2 non-interpolated dimensions of size 1-3 in any "
    "position; coordinates or bounds tie points observed; tie-point values integers/2^k; receivers "
    "SubsampledArray / Data / coordinate construct / netCDF file; one subspace per case (ints, slices, lists, "
    "bool, first/last-element index and near misses of it); stream g: the subspace itself is the compared "
    "observable; stream rd: the reader's hand-over (shape, tie point index positions, parameter dimensions). "
    "streams q1/q2: quadratic_latitude_longitude / bi_quadratic_latitude_longitude with latitude and "
    "longitude tie points on a quarter degree grid, ce/ca terms each present or absent (integers/1024), "
    "location_use_3d_cartesian flags per subarea and row (three flag encodings, either flag order), parameters "
    "over any subset of the non-interpolated dimensions in any order, 0-1 non-interpolated dimensions, "
    "receivers SubsampledArray / Data / netCDF file (longitude variable optionally with permuted dimensions), "
    "copies (copy(), source=, to_memory()). "
    "non-trivial = at least two interpolation subareas along some subsampled dimension; distinct = distinct "
    "protocol line + receiver + subspace"
)
ASSUMPTIONS = [
    "IEEE floating point is not modelled: theorems are in exact rational arithmetic; the sampled check accepts "
    "|float - exact| <= 1e-10*(1+|exact|) and demands exact equality at tie point indices (values on dyadic grids)",
    "every continuous area has at least two tie points along each subsampled dimension, the first index is 0 and the "
    "last is size-1 (CF 8.3: an interpolation subarea has tie points at all its corners); a single-tie-point area is "
    "left masked by cfdm - outside the property's quantifier, covered by model correspondence only",
    "bounds tie points: the bounds tie point of the first tie point of a continuous area is the lower vertex of its "
    "cell, that of every other tie point the upper vertex (CF 8.3.9 as read from the CF test files of cfdm)",
    "the position of the subsampled dimension(s) among the tie point dimensions is handled by numpy inside cfdm and by "
    "a transposition to canonical order in the harness (not in the Lean model); the Lean model of __getitem__ is per "
    "combination of the non-interpolated dimensions, the driver applies the index to the rows",
    "quadratic_latitude_longitude / bi_quadratic_latitude_longitude: the theorems hold for uninterpreted "
    "trigonometric primitives (structure Geo) under the explicit hypothesis that the tie points survive the round "
    "trip latitude/longitude -> vector -> latitude/longitude; nothing is exact, so both ties to the code are SAMPLED "
    "tolerance checks: the oracle is an independent float64 implementation of the Appendix J text (|difference| <= "
    "2e-9 degrees, tie points included), the model line is the Lean definitions executed with an 80-bit fixed point "
    "instance of Geo in the driver (glue, not proved; |difference| <= 4e-9 degrees); latitude tie points are kept "
    "within +-85 degrees and longitudes within +-175 degrees (outside, e.g. a 'latitude' of 92 degrees, the round trip "
    "fails, cfdm's array holds 88 where first/last_element() return the tie point 92: seen once, generator "
    "corrected); bounds tie points of these two methods and the relative order of the two subsampled dimensions "
    "are not generated",
    "the reader model starts from whitespace-separated tokens (the regular expression of _parse_x is restated on "
    "classified tokens); group/flattener name mapping, external variables and non-standardised interpolation are "
    "outside the model",
]

_cfdm = None


def cfdm():
    global _cfdm
    if _cfdm is None:
        import cfdm as m
        m.log_level("DISABLE")
        _cfdm = m
    return _cfdm


# ---------------------------------------------------------------- generators
def gen_t(rng, singleton=False):
    """A tie point index vector: areas separated by adjacent indices."""
    n_areas = rng.choice([2, 2, 3]) if singleton else rng.choice([1, 1, 2, 2, 3])
    t = []
    pos = 0
    single_at = rng.randrange(n_areas) if singleton else -1
    for a in range(n_areas):
        ntp = 1 if a == single_at else rng.choice([2, 2, 3, 3, 4])
        t.append(pos)
        for _ in range(ntp - 1):
            pos += rng.choice([2, 2, 3, 3, 4, 5, 6])
            t.append(pos)
        pos += 1
    return t, pos


def n_subareas(t):
    return sum(1 for a, b in zip(t, t[1:]) if b - a >= 2)


def area_start(t, k):
    return k == 0 or t[k] - t[k - 1] == 1


def wf(t, n):
    if len(t) < 2 or t[0] != 0 or t[-1] != n - 1:
        return False
    for k in range(len(t)):
        end = k == len(t) - 1 or t[k + 1] - t[k] == 1
        if area_start(t, k) and end:
            return False
    return True


def lcm(xs):
    out = 1
    for x in xs:
        out = out * x // math.gcd(out, x)
    return out


def scale_for(t, bounds, power):
    ns = []
    for k, (a, b) in enumerate(zip(t, t[1:])):
        if b - a < 2:
            continue
        ns.append((b + 1 - (a if area_start(t, k) else a + 1)) if bounds else b - a)
    return lcm(ns) ** power if ns else 1


def rand_ints(rng, shape, lo=-40, hi=40):
    size = int(np.prod(shape)) if shape else 1
    return np.array([rng.randint(lo, hi) for _ in range(size)], dtype=int).reshape(shape)


def gen_ix(rng, shape):
    """One subspace index over `shape` (kept inside what C03 shows to be sound)."""
    r = rng.random()
    if r < 0.12:
        return "first"
    if r < 0.3:
        return "last"
    ix = []
    for n in shape:
        k = rng.choice("issllab:")
        if k == "i":
            ix.append(["i", rng.randint(-n, n - 1)])
        elif k == "s":
            step = rng.choice([1, 1, 2, 3, -1, -2])
            if step > 0:
                a = rng.randint(0, n - 1)
                b = rng.randint(a + 1, n)
                ix.append(["s", a, b, step])
            else:
                a = rng.randint(0, n - 1)
                b = rng.randint(-1, a - 1)
                ix.append(["s", a, None if b < 0 else b, step])
        elif k == "l":
            m = rng.randint(1, min(4, n))
            l = sorted(rng.sample(range(n), m))
            if rng.random() < 0.4:
                l = l[::-1]
            if rng.random() < 0.3:
                l = [v - n for v in l]
            ix.append(["l", l])
        elif k == "a":
            ix.append(["a", sorted(rng.sample(range(n), rng.randint(1, min(3, n))))])
        elif k == "b":
            bs = [rng.random() < 0.5 for _ in range(n)]
            if not any(bs):
                bs[rng.randrange(n)] = True
            ix.append(["b", bs])
        else:
            ix.append(["s", None, None, None])
    return ix


def py_ix(ix, ndim):
    if ix == "first":
        return (slice(0, 1, 1),) * ndim
    if ix == "last":
        return (slice(-1, None, 1),) * ndim
    out = []
    for t in ix:
        if t[0] == "i":
            out.append(int(t[1]))
        elif t[0] == "s":
            out.append(slice(t[1], t[2], t[3]))
        elif t[0] == "l":
            out.append(list(t[1]))
        elif t[0] == "a":
            out.append(np.array(t[1], dtype=int))
        elif t[0] == "b":
            out.append(np.array(t[1], dtype=bool))
    return tuple(out)


def positions(ix, shape):
    """Independent expansion of the index to per-axis position lists (+ dropped axes)."""
    if ix == "first":
        return [[0] for _ in shape], []
    if ix == "last":
        return [[n - 1] for n in shape], []
    pos, drop = [], []
    for ax, (t, n) in enumerate(zip(ix, shape)):
        if t[0] == "i":
            pos.append([t[1] % n])
            drop.append(ax)
        elif t[0] == "s":
            pos.append(list(range(n))[slice(t[1], t[2], t[3])])
        elif t[0] in ("l", "a"):
            pos.append([v % n for v in t[1]])
        elif t[0] == "b":
            pos.append([i for i, v in enumerate(t[1]) if v])
    return pos, drop


def gen_long(rng, gap):
    """One long subarea of `gap` intervals (plus, sometimes, a short one sharing its last tie point): the
    interpolation variable s must reach exactly 1 at the far tie point for EVERY subarea size, which only
    particular sizes (49, 98, 103, 107, 161, ... intervals) break when s is computed carelessly."""
    t = [0, gap]
    if rng.random() < 0.3:
        t.append(gap + rng.choice([2, 3, 5]))
    nn = t[-1] + 1
    has_bounds = rng.random() < 0.4
    m = rng.choice(["linear", "linear", "quadratic"])
    p = dict(extra=[], den=1, has_bounds=has_bounds, observe="bounds" if has_bounds and rng.random() < 0.5 else "coord",
             recv=rng.choice(["array", "data"]), tp_dtype="f8", precision="64",
             m=m, t=[t], n=[nn], pos=[0], tp=rand_ints(rng, [len(t)]).tolist())
    if has_bounds:
        p["btp"] = rand_ints(rng, [len(t)]).tolist()
    if m == "quadratic":
        p["w"] = dict(span=[], values=rand_ints(rng, [n_subareas(t)], -12, 12).tolist(), order=[0]) if rng.random() < 0.7 else None
    obs_shape = [nn] + ([2] if p["observe"] == "bounds" else [])
    p["ix"] = "last" if rng.random() < 0.5 else [["s", None, None, None] for _ in obs_shape]
    return p


def gen_w(rng, extra, t, nosub=None):
    """Interpolation parameter w as stored: it spans any subset of the non-interpolated dimensions and (unless
    `nosub`) the interpolation subarea dimension, in any dimension order."""
    span = [e for e in range(len(extra)) if rng.random() < 0.5]
    if nosub is None:
        nosub = rng.random() < 0.03
    wshape = [extra[e] for e in span] + ([] if nosub else [n_subareas(t)])
    order = list(range(len(wshape)))
    rng.shuffle(order)
    w = dict(span=span, values=rand_ints(rng, wshape, -12, 12).tolist(), order=order)
    if nosub:
        w["nosub"] = True
    return w


def gen_ix_g(rng, shape, data_like):
    """An index of slices and integer lists for the g streams (what reaches SubsampledArray.__getitem__),
    with the first/last element index and near misses of it."""
    r = rng.random()
    if r < 0.10:
        return "first"
    if r < 0.22:
        return "last"
    if r < 0.34:
        # near miss: every element selects the first (last) position, but not all as slice(0,1,1) / slice(-1,None,1)
        last = rng.random() < 0.5
        ix = []
        for n in shape:
            k = rng.choice("eeeenlp")
            if k == "e":
                ix.append(["s", -1, None, 1] if last else ["s", 0, 1, 1])
            elif k == "n":
                ix.append(["s", n - 1, n, 1] if last else ["s", 0, 1, None])
            elif k == "l":
                ix.append(["l", [-1]] if last else ["l", [0]])
            else:
                ix.append(["s", n - 1, None, None] if last else ["s", None, 1, 1])
        return ix
    ix = []
    for n in shape:
        k = rng.choice("sssll:")
        if k == "s":
            step = rng.choice([1, 1, 2, 3, -1, -2, None])
            if step is None or step > 0:
                a = rng.choice([None, rng.randint(0, n - 1), rng.randint(-n, -1)])
                b = rng.choice([None, rng.randint(1, n + 1), rng.randint(-n, -1)])
                ix.append(["s", a, b, step])
            else:
                a = rng.choice([None, rng.randint(0, n - 1), rng.randint(-n, -1)])
                b = rng.choice([None, None, rng.randint(0, n - 1), rng.randint(-n - 1, -1)])
                ix.append(["s", a, b, step])
        elif k == "l":
            m = rng.randint(1, min(4, n))
            l = sorted(rng.sample(range(n), m))
            if rng.random() < 0.4:
                l = l[::-1]
            if rng.random() < 0.3:
                l = [v - n for v in l]
            ix.append(["l", l])
        else:
            ix.append(["s", None, None, None])
    return ix


def gen(rng, tier, n):
    # every subarea size once (quick: up to 256 intervals, thorough: up to 1024)
    for gap in range(7, 257 if tier == "quick" else 1025):
        yield mk(gen_long(rng, gap))
    for _ in range(n):
        if rng.random() < 0.10:
            yield mk_q(gen_q(rng))
            continue
        two = rng.random() < 0.4
        singleton = rng.random() < 0.04
        extra = [rng.randint(1, 3) for _ in range(rng.choice([0, 0, 1, 1, 2]))]
        has_bounds = rng.random() < 0.55
        observe = "bounds" if has_bounds and rng.random() < 0.6 else "coord"
        kind = rng.choices(["r", "g", "rd"], [55, 35, 10])[0]
        if kind == "g":
            recv = rng.choice(["array", "array", "data"])
        elif kind == "rd":
            recv = "file"
        else:
            recv = rng.choices(["array", "data", "coord", "file"], [4, 3, 2, 2])[0]
        den = rng.choice([1, 1, 2, 4, 8])
        p = dict(extra=extra, den=den, has_bounds=has_bounds, observe=observe, recv=recv, kind=kind,
                 tp_dtype=rng.choice(["f8", "f8", "i4", "f4", "i1", "u1", "i2"]) if den == 1 else "f8",
                 precision=rng.choice(["64", "64", "32", None]))
        lo, hi = {"i1": (-120, 120), "u1": (0, 250), "i2": (-30000, 30000)}.get(p["tp_dtype"], (-40, 40))
        if two:
            which = rng.randrange(2) if singleton else -1
            t0, n0 = gen_t(rng, which == 0)
            t1, n1 = gen_t(rng, which == 1)
            # positions of the two subsampled dimensions among the tie point array's dimensions
            nd = len(extra) + 2
            pos = sorted(rng.sample(range(nd), 2))
            p.update(m="bi_linear", t=[t0, t1], n=[n0, n1], pos=pos,
                     tp=rand_ints(rng, extra + [len(t0), len(t1)], lo, hi).tolist())
            if has_bounds:
                p["btp"] = rand_ints(rng, extra + [len(t0), len(t1)], lo, hi).tolist()
        else:
            t, nn = gen_t(rng, singleton)
            m = rng.choice(["linear", "linear", "quadratic", "quadratic", "quadratic"])
            nd = len(extra) + 1
            pos = [rng.randrange(nd)]
            p.update(m=m, t=[t], n=[nn], pos=pos, tp=rand_ints(rng, extra + [len(t)], lo, hi).tolist())
            if has_bounds:
                p["btp"] = rand_ints(rng, extra + [len(t)], lo, hi).tolist()
            if m == "quadratic" and rng.random() < 0.85:
                p["w"] = gen_w(rng, extra, t)
            else:
                p["w"] = None
        obs_shape = ushape_of(p) + ([2 * len(p["t"])] if observe == "bounds" else [])
        if kind == "g":
            p["ix"] = gen_ix_g(rng, obs_shape, recv == "data")
        else:
            p["ix"] = gen_ix(rng, obs_shape)
        if kind == "rd":
            p["second_coord"] = rng.random() < 0.4
            p["data_reversed"] = rng.random() < 0.5
        if recv in ("array", "data") and rng.random() < 0.15:
            p["via"] = rng.choice(["copy", "source", "memory"])
        yield mk(p)


def ushape_of(p):
    """Uncompressed shape of the coordinate (without the bounds dimension)."""
    shape = list(p["extra"])
    for d, n in zip(p["pos"], p["n"]):
        shape.insert(d, n)
    return shape


def tp_shape_of(p):
    shape = list(p["extra"])
    for d, t in zip(p["pos"], p["t"]):
        shape.insert(d, len(t))
    return shape


def w_tp_dims(p):
    """Tie point array positions of the dimensions of w's `values` (before the stored permutation)."""
    w = p["w"]
    others = [d for d in range(len(p["extra"]) + 1) if d != p["pos"][0]]
    return [others[e] for e in w["span"]] + ([] if w.get("nosub") else [p["pos"][0]])


def w_stored(p):
    """(integer array as stored, parameter_dimensions) of w."""
    w = p["w"]
    vals = np.array(w["values"], dtype=int)
    tp_dims = w_tp_dims(p)
    order = w["order"]
    return np.transpose(vals, order), tuple(tp_dims[o] for o in order)


def w_full(p):
    """w broadcast to canonical (extra..., subarea) integers, or None."""
    w = p.get("w")
    if not w:
        return None
    vals = np.array(w["values"], dtype=int)
    extra = p["extra"]
    nsub = n_subareas(p["t"][0])
    full = np.empty(list(extra) + [nsub], dtype=int)
    for idx in itertools.product(*[range(e) for e in extra]):
        sub = tuple(idx[e] for e in w["span"])
        full[idx] = vals[sub]  # (nsub,) or, when w does not span the subarea dimension, one value for all
    return full


def _sel_str(t):
    if t[0] == "s":
        return "s:" + ":".join("_" if v is None else str(v) for v in t[1:4])
    return "l:" + ",".join(str(v) for v in t[1])


def canon_sels(p):
    """The index that reaches SubsampledArray.__getitem__, per canonical dimension (non-interpolated...,
    subsampled..., [bounds]); for the Data receiver as parsed by Data._parse_indices."""
    b = p["observe"] == "bounds"
    nsub = len(p["t"])
    shape = ushape_of(p) + ([2 * nsub] if b else [])
    ix = p["ix"]
    if ix == "first":
        ix = [["s", 0, 1, 1] for _ in shape]
    elif ix == "last":
        ix = [["s", -1, None, 1] for _ in shape]
    if p["recv"] == "data":
        parsed = []
        for t, n in zip(ix, shape):
            if t[0] == "l" and len(t[1]) == 1:
                j = t[1][0] % n
                parsed.append(["s", j, j + 1, 1])
            else:
                parsed.append(t)
        ix = parsed
    nd = len(p["extra"]) + nsub
    others = [d for d in range(nd) if d not in p["pos"]]
    order = others + list(p["pos"]) + ([nd] if b else [])
    return [ix[d] for d in order]


def tp_dim_names(p):
    nd = len(p["extra"]) + len(p["t"])
    others = [d for d in range(nd) if d not in p["pos"]]
    names = [None] * nd
    for e, d in enumerate(others):
        names[d] = f"x{e}"
    for k, d in enumerate(p["pos"]):
        names[d] = f"tp{k}"
    return names


def rd_line(p):
    names = tp_dim_names(p)
    tpm, sizes = [], []
    for e, size in enumerate(p["extra"]):
        sizes.append(f"x{e}:{size}")
    for k, (t, n) in enumerate(zip(p["t"], p["n"])):
        sizes += [f"tp{k}:{len(t)}", f"u{k}:{n}"]
        tpm += [f"u{k}:", f"idx{k}", f"tp{k}"]
        if p.get("w"):
            tpm.append(f"sa{k}")
            sizes.append(f"sa{k}:{n_subareas(t)}")
    pv, ip = [], []
    if p.get("w"):
        w = p["w"]
        wn = [f"x{e}" for e in w["span"]] + ([] if w.get("nosub") else ["sa0"])
        pv.append("w=wpar=" + ",".join(wn[o] for o in w["order"]))
        ip = ["w:", "wpar"]
    ci = ["c16:"] + (["c16b:"] if p.get("second_coord") else []) + ["interp"]
    return (f"C16.rd dims={fmt_list(names)} tpm={fmt_list(tpm)} sizes={fmt_list(sizes)} pv=[{';'.join(pv)}] "
            f"b={int(p['observe'] == 'bounds')} ci={fmt_list(ci)} ip={fmt_list(ip)}")


def mk(p):
    p = dict(p)
    kind = p.get("kind", "r")
    nsub = len(p["t"])
    b = p["observe"] == "bounds"
    src = np.array(p["btp"] if b else p["tp"], dtype=int)
    extra = p["extra"]
    R = int(np.prod(extra)) if extra else 1
    rows = src.reshape(R, -1)
    rows_s = "[" + ";".join(",".join(str(v) for v in r) for r in rows.tolist()) + "]"
    g_s = f" xs={fmt_list(extra)} ix=[{';'.join(_sel_str(t) for t in canon_sels(p))}]" if kind == "g" else ""
    if nsub == 1:
        t = p["t"][0]
        power = 2 if p["m"] == "quadratic" and p.get("w") else 1
        L = scale_for(t, b, power) * p["den"]
        if p.get("w"):
            stored, dims = w_stored(p)
            w_s = (f"wp={fmt_list(stored.flatten().tolist())} ws={fmt_list(stored.shape)} wd={fmt_list(dims)} "
                   f"xs={fmt_list(extra)} pos={p['pos'][0]}")
            if kind == "g":
                g_s = g_s.replace(f" xs={fmt_list(extra)}", "", 1)
        else:
            w_s = "w=-"
        line = (f"C16.{kind if kind == 'g' else 'r'}1 m={p['m']} b={int(b)} n={p['n'][0]} t={fmt_list(t)} "
                f"den={p['den']} scale={L} tp={rows_s} {w_s}{g_s}")
        stream = "C16.g1" if kind == "g" else "C16.r1"
    else:
        L = scale_for(p["t"][0], b, 1) * scale_for(p["t"][1], b, 1) * p["den"]
        line = (f"C16.{kind if kind == 'g' else 'r'}2 b={int(b)} n0={p['n'][0]} n1={p['n'][1]} "
                f"t0={fmt_list(p['t'][0])} t1={fmt_list(p['t'][1])} den={p['den']} scale={L} tp={rows_s}{g_s}")
        stream = "C16.g2" if kind == "g" else "C16.r2"
    if kind == "rd":
        line, stream = rd_line(p), "C16.rd"
    p["scale"] = L
    ok = all(wf(t, n) for t, n in zip(p["t"], p["n"]))
    tags = [f"recv:{p['recv']}", f"m:{p['m']}", f"observe:{p['observe']}", f"extra:{len(extra)}",
            "pos:" + ",".join(map(str, p["pos"])), "bounds-tp:" + ("present" if p["has_bounds"] else "absent"),
            "areas:" + "x".join(str(1 + sum(1 for a, c in zip(t, t[1:]) if c - a == 1)) for t in p["t"]),
            "ix:" + (p["ix"] if isinstance(p["ix"], str) else "general")]
    if p["m"] == "quadratic":
        w = p.get("w")
        if not w:
            tags.append("quad:no-w")
        else:
            _, dims = w_stored(p)
            tags.append("quad:w")
            tags.append("w-dims:" + ("none" if not dims else "in-order" if list(dims) == sorted(dims) else "permuted")
                        + ("" if len(dims) == len(extra) + 1 else "+broadcast"))
            if w.get("nosub"):
                tags.append("w:no-subarea-dimension")
    if kind == "g" and isinstance(p["ix"], list):
        sels = canon_sels(p)
        if all(t[:4] == ["s", 0, 1, 1] for t in sels) or all(t[:4] == ["s", -1, None, 1] for t in sels):
            tags.append("ix:parsed-to-shortcut")
    if not ok:
        tags.append("nonwf:single-tie-point-area")
    if p.get("via"):
        tags.append("via:" + p["via"])
    nontrivial = any(n_subareas(t) >= 2 for t in p["t"])
    key = line + "|" + p["recv"] + "|" + str(p.get("via")) + "|" + str(p["ix"]) + "|" + str(p["has_bounds"])
    return Case(stream, p, line, key=key, nontrivial=nontrivial, tags=tags)


# ---------------------------------------------------------------- q streams (latitude / longitude methods)
def gen_q(rng):
    """A quadratic_latitude_longitude / bi_quadratic_latitude_longitude case, steered so that the inputs of
    the open findings stay a small, still present, fraction."""
    p = geo.gen_q(rng)
    nd = len(p["extra"]) + len(p["t"])
    if rng.random() < 0.88:
        # flags stored over all the tie point dimensions, in order (the others: finding subarea-flags-not-conformed)
        ne = len(p["extra"])
        q = p["params"]["flags"]
        full = geo.param_full(p, "flags")
        # canonical (extra..., subsampled...) -> tie point dimension order
        src = list(range(ne, nd))
        stored = np.moveaxis(full, src, p["pos"])
        # express "stored in tie point order" through span/order of the canonical values
        q["span"] = list(range(ne))
        q["values"] = full.tolist()
        others = [d for d in range(nd) if d not in p["pos"]]
        tp_dims = others + list(p["pos"])
        q["order"] = [tp_dims.index(d) for d in range(nd)]
        assert np.array_equal(np.transpose(full, q["order"]), stored)
    if p["m"] == "quadratic_latitude_longitude" and rng.random() < 0.85:
        # all Cartesian (a subarea interpolated in latitude-longitude coordinates: finding
        # quadratic-latitude-longitude-noncartesian-typeerror)
        q = p["params"]["flags"]
        q["values"] = (np.array(q["values"], dtype=int) * 0 + 1).tolist()
    if p["tp_dtype"] == "f4":
        if rng.random() < 0.8:
            p["tp_dtype"] = "f8"
        else:
            p["precision"] = "64"
    ushape = geo.ushape_of(p)
    p["ix"] = gen_ix(rng, ushape)
    if rng.random() < 0.15:
        p["via"] = rng.choice(["copy", "source", "memory"])
    if rng.random() < 0.12:
        # through a dataset: the reader builds the two coordinates and gives each the other's tie points
        p["recv"] = "file"
        names = list(range(nd))
        if rng.random() < 0.6:
            # the longitude variable stores its dimensions in another order (the subsampled ones keep theirs)
            for _ in range(20):
                perm = names[:]
                rng.shuffle(perm)
                if [perm.index(d) for d in p["pos"]] == sorted(perm.index(d) for d in p["pos"]) and perm != names:
                    p["lon_perm"] = perm
                    break
    return p


def _rows(a, R):
    return "[" + ";".join(",".join(str(int(v)) for v in r) for r in np.asarray(a).reshape(R, -1).tolist()) + "]"


def q_line(p):
    """The protocol line of a q case: tie points and parameters broadcast to canonical rows (one per
    combination of the non-interpolated dimensions), integers over lden / pden."""
    two = len(p["t"]) == 2
    extra = p["extra"]
    R = int(np.prod(extra)) if extra else 1
    lat, lon = np.array(p["lat"], dtype=int), np.array(p["lon"], dtype=int)
    mine, other = (lat, lon) if p["which"] == "latitude" else (lon, lat)
    terms = []
    for term in geo.term_kinds(p["m"]):
        full = geo.param_full(p, term)
        name = "fl" if term == "flags" else term
        terms.append(f"{name}=" + ("-" if full is None else _rows(full, R)))
    head = f"lat={int(p['which'] == 'latitude')} "
    if two:
        head += (f"n0={p['n'][0]} n1={p['n'][1]} t0={fmt_list(p['t'][0])} t1={fmt_list(p['t'][1])}")
    else:
        head += f"n={p['n'][0]} t={fmt_list(p['t'][0])}"
    return (f"C16.q{2 if two else 1} {head} lden={geo.LDEN} pden={geo.PDEN} tp={_rows(mine, R)} "
            f"tpo={_rows(other, R)} " + " ".join(terms))


def mk_q(p):
    p = dict(p)
    two = len(p["t"]) == 2
    flags = geo.param_full(p, "flags")
    tags = [f"recv:{p['recv']}", f"m:{p['m']}", f"observe:{p['which']}", f"extra:{len(p['extra'])}",
            "pos:" + ",".join(map(str, p["pos"])),
            "flags:" + ("cartesian" if flags.all() else "lat-lon" if not flags.any() else "mixed"),
            "terms:" + ("none" if len(p["params"]) == 1 else "all" if len(p["params"]) == (7 if two else 3) else "some"),
            "tp:" + p["tp_dtype"], "flag-style:" + p["flag_style"]]
    if flags_unconformed(p):
        tags.append("flags:own-dimension-order")
    if p.get("lon_perm"):
        tags.append("lon-dims:" + ("cyclic" if lon_perm_cyclic(p) else "transposed"))
    if p.get("via"):
        tags.append("via:" + p["via"])
    nontrivial = any(n_subareas(t) >= 2 for t in p["t"])
    return Case("C16.q2" if two else "C16.q1", p, q_line(p), nontrivial=nontrivial, tags=tags)


def flags_unconformed(p):
    nd = len(p["extra"]) + len(p["t"])
    return list(geo.param_stored(p, "flags")[1]) != list(range(nd))


def lon_perm_cyclic(p):
    """The longitude variable's dimension order is a permutation that is not its own inverse."""
    perm = p.get("lon_perm")
    return bool(perm) and [perm[i] for i in perm] != list(range(len(perm)))


def observe_q(p):
    C = cfdm()
    if p["recv"] == "file":
        d = tempfile.mkdtemp(prefix="verif_c16q_")
        try:
            path = os.path.join(d, "q.nc")
            geo.write_file(p, path)
            got = geo.read_file(C, p, path)
            obs = {}
            for name, g in got.items():
                obs[name] = dict(shape=tuple(g["array"].shape), full=g["array"],
                                 dep={k: [int(d) for d in v] for k, v in g["dep"].items()})
            return obs
        finally:
            shutil.rmtree(d, ignore_errors=True)
    arrs = geo.build(C, p)
    obs = {}
    for name, a in arrs.items():
        a = via(a, p)
        x = C.Data(a) if p["recv"] == "data" else a
        rec = dict(shape=tuple(x.shape))
        rec["full"] = np.ma.asanyarray(x.array if p["recv"] == "data" else x[...])
        if name == p["which"]:
            ix = py_ix(p["ix"], len(rec["shape"]))
            rec["sub"] = _try(lambda: np.ma.asanyarray(x[ix].array if p["recv"] == "data" else x[ix]))
        obs[name] = rec
    return obs


def oracle_q(c):
    p = c.payload
    if str(c.impl_out).startswith("raised"):
        return "implementation raised: " + c.impl_out + " " + str(c.extra)[-300:]
    obs = c.extra
    want = geo.expected(p)
    ushape = tuple(geo.ushape_of(p))
    for name in ("latitude", "longitude"):
        rec = obs[name]
        if tuple(rec["shape"]) != ushape:
            return f"{name}: .shape {rec['shape']} is not the target shape {ushape}"
        w = geo._actual(want[name], p)
        r = cmp_float(rec["full"], w, name)
        if r:
            return r
        if np.ma.getdata(rec["full"]).dtype != np.dtype("f8"):
            return f"{name}: dtype {np.ma.getdata(rec['full']).dtype}"
        if "dep" in rec:
            # the dependent tie points as handed over by the reader: for every dimension of the dependent
            # array, its position in this coordinate's own tie point array
            lat_names = geo.dim_names(p)
            perm = p.get("lon_perm") or list(range(len(lat_names)))
            lon_names = [lat_names[i] for i in perm]
            own, other, oname = ((lat_names, lon_names, "longitude") if name == "latitude"
                                 else (lon_names, lat_names, "latitude"))
            want_dep = {oname: [own.index(n) for n in other]}
            if rec["dep"] != want_dep:
                return f"{name}: dependent tie point dimensions {rec['dep']}, the dataset says {want_dep}"
        if "sub" in rec:
            pos, drop = positions(p["ix"], list(ushape))
            if p["recv"] != "array":
                drop = []
            r = cmp_float(rec["sub"], take(w, pos, drop), f"subspace {name}")
            if r:
                return r
    return None


def cmp_float(got, want, what):
    """Sampled tolerance check (trigonometric methods): |got - want| <= geo.TOL degrees."""
    if isinstance(got, Raised):
        return f"{what}: raised {got.enum} {got.text}"
    got = np.ma.asanyarray(got)
    if tuple(got.shape) != tuple(want.shape):
        return f"{what}: shape {tuple(got.shape)} != {tuple(want.shape)}"
    inside = ~np.isnan(want)
    if (np.ma.getmaskarray(got) & inside).any():
        return f"{what}: {int((np.ma.getmaskarray(got) & inside).sum())} masked element(s)"
    g = np.ma.getdata(got).astype(float)
    bad = inside & ~(np.abs(np.where(inside, g, 0.0) - np.where(inside, want, 0.0)) <= geo.TOL)
    if bad.any():
        idx = tuple(int(i) for i in np.argwhere(bad)[0])
        return f"{what}: element {idx} is {g[idx]!r}, Appendix J (float64, sampled tolerance {geo.TOL}) gives {want[idx]!r}"
    return None


def classify_q(c):
    p = c.payload
    f = str(c.oracle_fail or "")
    if p["recv"] == "file" and lon_perm_cyclic(p):
        return "dependent-tie-point-dimensions-inverted"
    if flags_unconformed(p) or (p["recv"] == "file" and p.get("lon_perm")):
        # (for a longitude variable with permuted dimensions the flags are permuted relative to it)
        return "subarea-flags-not-conformed"
    if p["m"] == "quadratic_latitude_longitude" and not geo.param_full(p, "flags").all() and "TypeError" in f:
        return "quadratic-latitude-longitude-noncartesian-typeerror"
    if p["tp_dtype"] == "f4" and ": element " in f:
        return "float32-tie-points-interpolated-in-single-precision"
    return None


def from_payload(stream, payload):
    if payload.get("kind") == "q":
        return mk_q(payload)
    return mk(payload)


# ---------------------------------------------------------------- implementation
def _actual(arr_canon, p, trailing=0):
    """Canonical (extra..., sub dims..., [trailing]) -> the dimension order of the case."""
    ne = len(p["extra"])
    a = arr_canon
    src = list(range(ne, ne + len(p["pos"])))
    return np.moveaxis(a, src, p["pos"])


def _canon(arr, p):
    ne = len(p["extra"])
    dst = list(range(ne, ne + len(p["pos"])))
    return np.moveaxis(arr, p["pos"], dst)


def _np_dtype(p):
    return {"f8": "f8", "f4": "f4", "i4": "i4", "i1": "i1", "u1": "u1", "i2": "i2"}[p["tp_dtype"]]


def build_arrays(p):
    """The cfdm.SubsampledArray objects for the coordinates and (if any) the bounds."""
    C = cfdm()
    den = p["den"]
    tpi = {d: C.TiePointIndex(data=C.Data(np.array(t, dtype="i4"))) for d, t in zip(p["pos"], p["t"])}
    kwargs = dict(interpolation_name=p["m"], tie_point_indices=tpi)
    if p["precision"]:
        kwargs["computational_precision"] = p["precision"]
    if p.get("w"):
        stored, dims = w_stored(p)
        kwargs["parameters"] = {"w": C.InterpolationParameter(data=C.Data(stored.astype(float) / den))}
        kwargs["parameter_dimensions"] = {"w": dims}
    ushape = ushape_of(p)
    out = {}
    tp = _actual(np.array(p["tp"], dtype=int), p)
    tp = (tp / den).astype("f8") if den != 1 else tp.astype(_np_dtype(p))
    out["coord"] = C.SubsampledArray(compressed_array=C.Data(tp), shape=tuple(ushape), **kwargs)
    if p["has_bounds"]:
        btp = _actual(np.array(p["btp"], dtype=int), p)
        btp = (btp / den).astype("f8") if den != 1 else btp.astype(_np_dtype(p))
        out["bounds"] = C.SubsampledArray(compressed_array=C.Data(btp), shape=tuple(ushape) + (2 * len(p["t"]),), **kwargs)
    return out


def write_file(p, path):
    """The same coordinate as a CF-netCDF file, written with netCDF4 only."""
    import netCDF4
    den = p["den"]
    ne = len(p["extra"])
    nsub = len(p["t"])
    nd = ne + nsub
    ds = netCDF4.Dataset(path, "w")
    ds.Conventions = "CF-1.11"
    tp_dims, u_dims = [None] * nd, [None] * nd
    others = [d for d in range(nd) if d not in p["pos"]]
    for e, d in enumerate(others):
        ds.createDimension(f"x{e}", p["extra"][e])
        tp_dims[d] = u_dims[d] = f"x{e}"
    mapping = []
    for k, (d, t, n) in enumerate(zip(p["pos"], p["t"], p["n"])):
        ds.createDimension(f"u{k}", n)
        ds.createDimension(f"tp{k}", len(t))
        tp_dims[d], u_dims[d] = f"tp{k}", f"u{k}"
        v = ds.createVariable(f"idx{k}", "i4", (f"tp{k}",))
        v[...] = t
        m = f"u{k}: idx{k} tp{k}"
        if p.get("w"):
            ds.createDimension(f"sa{k}", n_subareas(t))
            m += f" sa{k}"
        mapping.append(m)
    dt = "f8" if den != 1 else _np_dtype(p)
    c = ds.createVariable("c16", dt, tuple(tp_dims))
    c.long_name = "c16coord"
    c.units = "m"
    c[...] = _actual(np.array(p["tp"], dtype=int), p) / den
    if p["has_bounds"]:
        c.bounds_tie_points = "c16_bnds"
        bv = ds.createVariable("c16_bnds", dt, tuple(tp_dims))
        bv[...] = _actual(np.array(p["btp"], dtype=int), p) / den
    iv = ds.createVariable("interp", "i4", ())
    iv.interpolation_name = p["m"]
    if p["precision"]:
        iv.computational_precision = p["precision"]
    iv.tie_point_mapping = " ".join(mapping)
    if p.get("w"):
        w = p["w"]
        stored, _ = w_stored(p)
        names = [f"x{e}" for e in w["span"]] + ([] if w.get("nosub") else ["sa0"])
        wv = ds.createVariable("wpar", "f8", tuple(names[o] for o in w["order"]))
        wv[...] = stored.astype(float) / den
        iv.interpolation_parameters = "w: wpar"
    if p.get("second_coord"):
        c2 = ds.createVariable("c16b", dt, tuple(tp_dims))
        c2.long_name = "c16coord2"
        c2.units = "m"
        c2[...] = _actual(np.array(p["tp"], dtype=int), p) / den + 1
    # a data variable spanning the interpolated and the other dimensions, in another order
    ddims = list(u_dims)
    if p.get("data_reversed", True):
        ddims = ddims[::-1]
    dv = ds.createVariable("q", "f4", tuple(ddims))
    dv.long_name = "q"
    dv.coordinate_interpolation = "c16: c16b: interp" if p.get("second_coord") else "c16: interp"
    dv[...] = np.zeros([len(ds.dimensions[x]) for x in ddims], dtype="f4")
    ds.close()


class Raised:
    """An exception raised while taking the subspace (kept as an observable)."""

    def __init__(self, e):
        self.enum = fw.exc_enum(e)
        self.text = repr(e)[:160]


def _try(f):
    try:
        return f()
    except fw.HarnessError:
        raise
    except Exception as e:
        return Raised(e)


def via(a, p):
    """The array itself, or a copy of it made one of the ways cfdm makes them."""
    how = p.get("via")
    if how == "copy":
        return a.copy()
    if how == "source":
        return type(a)(source=a, copy=True)
    if how == "memory":
        return a.to_memory()
    return a


def observe(p):
    """name -> dict(shape, full array, subspace observations) per variable (coord / bounds)."""
    if p["recv"] != "file":
        return _observe(p, None)
    # the file lives in its own scratch directory, removed as soon as everything was read
    # (pool workers do not run atexit handlers)
    d = tempfile.mkdtemp(prefix="verif_c16_")
    try:
        return _observe(p, os.path.join(d, "c16.nc"))
    finally:
        shutil.rmtree(d, ignore_errors=True)


def _observe(p, path):
    C = cfdm()
    recv = p["recv"]
    obs = {}
    which = ["coord"] + (["bounds"] if p["has_bounds"] else [])
    target = p["observe"]
    ix = p["ix"]

    if recv in ("array", "data"):
        arrs = build_arrays(p)
        for name in which:
            a = via(arrs[name], p)
            if recv == "array":
                rec = dict(shape=tuple(a.shape), full=np.ma.asanyarray(a[...]))
                if name == target:
                    rec["sub"] = _try(lambda: np.ma.asanyarray(a[py_ix(ix, a.ndim)]))
            else:
                d = C.Data(a)
                rec = dict(shape=tuple(d.shape), full=np.ma.asanyarray(d.array))
                if name == target:
                    rec["sub"] = _try(lambda: np.ma.asanyarray(d[py_ix(ix, d.ndim)].array))
                    if ix == "first":
                        rec["elem"] = _try(d.first_element)
                    if ix == "last":
                        rec["elem"] = _try(d.last_element)
            obs[name] = rec
        return obs
    if recv == "coord":
        arrs = build_arrays(p)
        c = C.AuxiliaryCoordinate(data=C.Data(arrs["coord"]))
        c.set_property("long_name", "c16coord")
        if p["has_bounds"]:
            c.set_bounds(C.Bounds(data=C.Data(arrs["bounds"])))
    else:
        write_file(p, path)
        fs = C.read(path)
        if len(fs) != 1:
            raise fw.HarnessError(f"file receiver: {len(fs)} fields read")
        c = fs[0].construct("long_name=c16coord")
        try:
            tpi = c.data.source().get_tie_point_indices()
            obs["_tpi"] = sorted((int(k), np.asarray(v.array).tolist()) for k, v in tpi.items())
        except Exception as e:
            obs["_tpi"] = "not subsampled: " + repr(e)[:100]
        if p.get("kind") == "rd":
            obs["_rd"] = _try(lambda: handover(fs[0], c, target))
    obs["coord"] = dict(shape=tuple(c.shape), full=np.ma.asanyarray(c.array))
    if p["has_bounds"]:
        if not c.has_bounds():
            raise KeyError("bounds tie points were not attached to the coordinate")
        obs["bounds"] = dict(shape=tuple(c.bounds.shape), full=np.ma.asanyarray(c.bounds.array))
    # a subspace of the construct: the index addresses the coordinate's dimensions
    cix = ix if ix in ("first", "last") else ix[: c.ndim]
    g = _try(lambda: c[py_ix(cix, c.ndim)])
    obs["coord"]["cix"] = cix
    obs["coord"]["sub"] = g if isinstance(g, Raised) else _try(lambda: np.ma.asanyarray(g.array))
    if p["has_bounds"]:
        obs["bounds"]["cix"] = cix
        obs["bounds"]["sub"] = g if isinstance(g, Raised) else _try(lambda: np.ma.asanyarray(g.bounds.array))
        if target == "bounds" and ix in ("first", "last"):
            bd = c.bounds.data
            obs["bounds"]["elem"] = _try(bd.first_element if ix == "first" else bd.last_element)
    return obs


def handover(f, c, target):
    """What the reader handed to SubsampledArray, read back through the public accessors."""
    src = (c.bounds if target == "bounds" else c).data.source()
    shape = [int(n) for n in src.shape]
    tpi = sorted((int(k), v.nc_get_variable()) for k, v in src.get_tie_point_indices().items())
    pd = sorted((term, [int(d) for d in dims]) for term, dims in src.get_parameter_dimensions().items())
    subsampled = sorted(
        x.nc_get_variable() for x in f.coordinates(todict=True).values()
        if x.has_data() and x.data.get_compression_type() == "subsampled"
    )
    return dict(shape=shape, tpi=tpi, pd=pd, ci=subsampled, name=src.get_interpolation_name(None))


def _scaled(a, L):
    mask = np.ma.getmaskarray(a).flatten()
    vals = np.ma.getdata(a).astype(float).flatten()
    out = []
    for v, m in zip(vals, mask):
        if m:
            out.append("--")
            continue
        y = v * L
        r = round(y)
        out.append(str(int(r)) if abs(y - r) <= 1e-5 else "~" + repr(float(v)))
    return out


def canon_line(full, p, bounds):
    """shape=[R,…] data=[…] of the canonically ordered array, values scaled to integers."""
    a = np.ma.asanyarray(_canon(full, p))
    nsub = len(p["t"])
    extra = p["extra"]
    R = int(np.prod(extra)) if extra else 1
    shape = [R] + list(p["n"]) + ([2 * nsub] if bounds else [])
    a = a.reshape(shape)
    return f"shape={fmt_list(shape)} data=[{','.join(_scaled(a, p['scale']))}]"


def canon_sub_line(sub, p):
    """The subspace in canonical dimension order (no dimension is dropped in the g streams)."""
    if isinstance(sub, Raised):
        return "raised:" + sub.enum
    a = np.ma.asanyarray(sub)
    want_ndim = len(p["extra"]) + len(p["t"]) + (1 if p["observe"] == "bounds" else 0)
    if a.ndim != want_ndim:
        return f"shape={fmt_list(a.shape)} rank-changed"
    a = np.ma.asanyarray(_canon(a, p))
    return f"shape={fmt_list(a.shape)} data=[{','.join(_scaled(a, p['scale']))}]"


def rd_obs_line(h):
    if isinstance(h, Raised):
        return "raised:" + h.enum
    return (f"shape={fmt_list(h['shape'])} tpi=[{';'.join(f'{i}:{v}' for i, v in h['tpi'])}] "
            f"pd=[{';'.join(t + ':' + ','.join(map(str, d)) for t, d in h['pd'])}] "
            f"ci=[interp:{','.join(h['ci'])}]")


def impl(c):
    p = c.payload
    if p.get("kind") == "q":
        c.extra = observe_q(p)
        full = np.ma.asanyarray(geo.canon(c.extra[p["which"]]["full"], p))
        extra = p["extra"]
        R = int(np.prod(extra)) if extra else 1
        shape = [R] + list(p["n"])
        a = full.reshape(shape)
        vals = ["--" if m else str(int(math.floor(float(v) * 1e9 + 0.5)))
                for v, m in zip(np.ma.getdata(a).flatten(), np.ma.getmaskarray(a).flatten())]
        return f"shape={fmt_list(shape)} data=[{','.join(vals)}]"
    obs = observe(p)
    c.extra = obs
    target = p["observe"]
    kind = p.get("kind", "r")
    if kind == "g":
        return canon_sub_line(obs[target]["sub"], p)
    if kind == "rd":
        return rd_obs_line(obs["_rd"])
    return canon_line(obs[target]["full"], p, target == "bounds")


def _rd_norm(line):
    """The order of the coordinate variable names of one interpolation variable is not an observable."""
    head, _, ci = str(line).partition(" ci=[")
    groups = []
    for g in ci.rstrip("]").split(";"):
        k, _, names = g.partition(":")
        groups.append(k + ":" + ",".join(sorted(x for x in names.split(",") if x)))
    return head + " ci=[" + ";".join(sorted(groups)) + "]"


def _q_close(a, b, tol=4):
    """q streams: values are nano-degrees; sampled tolerance of 4e-9 degrees (the implementation is IEEE
    double, the model driver an 80-bit fixed point evaluation of the same formulas)."""
    ha, _, da = str(a).partition(" data=[")
    hb, _, db = str(b).partition(" data=[")
    if ha != hb or not da or not db:
        return False
    xa, xb = da.rstrip("]").split(","), db.rstrip("]").split(",")
    if len(xa) != len(xb):
        return False
    for u, v in zip(xa, xb):
        if (u == "--") != (v == "--"):
            return False
        if u != "--" and abs(int(u) - int(v)) > tol:
            return False
    return True


def agree(c):
    if c.stream == "C16.rd":
        return _rd_norm(c.impl_out) == _rd_norm(c.model_out)
    if c.stream in ("C16.q1", "C16.q2"):
        return _q_close(c.impl_out, c.model_out)
    return c.impl_out == c.model_out


# ---------------------------------------------------------------- oracle (CF Appendix J, exact)
def locate(t, p):
    """(k, s) with tie points k, k+1 bracketing coordinate index p inside one continuous area."""
    for k in range(len(t) - 1):
        if t[k + 1] - t[k] >= 2 and t[k] <= p <= t[k + 1]:
            return k, Fraction(p - t[k], t[k + 1] - t[k])
    raise ValueError("index not inside any interpolation subarea")


def locate_vertex(t, g, upper):
    """(k, s) for vertex g of the vertex grid (cell c has vertices c and c+1).

    Within a continuous area the bounds tie point of its first tie point is the lower
    vertex of that cell, of every other tie point the upper vertex.  `upper` says the
    vertex is wanted as the upper vertex of cell g-1 (it then belongs to that cell's
    subarea), else as the lower vertex of cell g.
    """
    cell = g - 1 if upper else g
    for k in range(len(t) - 1):
        if t[k + 1] - t[k] < 2:
            continue
        v0 = t[k] if area_start(t, k) else t[k] + 1
        v1 = t[k + 1] + 1
        if v0 <= cell <= t[k + 1]:
            return k, Fraction(g - v0, v1 - v0)
    raise ValueError("cell not inside any interpolation subarea")


def subarea_number(t, k):
    return sum(1 for j in range(k) if t[j + 1] - t[j] >= 2)


def _maybe(f):
    """Value, or None at a position outside every interpolation subarea (single-tie-point area)."""
    try:
        return f()
    except ValueError:
        return None


def exact_arrays(p):
    """name -> object array of Fractions (None outside every subarea) in the case's dimension order."""
    den = p["den"]
    extra = p["extra"]
    out = {}
    nsub = len(p["t"])
    wfull = w_full(p)
    for name in ["coord"] + (["bounds"] if p["has_bounds"] else []):
        src = np.array(p["tp"] if name == "coord" else p["btp"], dtype=int)
        bounds = name == "bounds"
        shape = list(extra) + list(p["n"]) + ([2 * nsub] if bounds else [])
        res = np.empty(shape, dtype=object)
        for e in itertools.product(*[range(x) for x in extra]):
            tp = src[e]
            if nsub == 1:
                t = p["t"][0]

                def val(k, s):
                    a, b = Fraction(int(tp[k]), den), Fraction(int(tp[k + 1]), den)
                    u = (1 - s) * a + s * b
                    if p["m"] == "quadratic" and wfull is not None:
                        w = Fraction(int(wfull[e][subarea_number(t, k)]), den)
                        u += 4 * w * s * (1 - s)
                    return u

                for i in range(p["n"][0]):
                    if not bounds:
                        res[e + (i,)] = _maybe(lambda: val(*locate(t, i)))
                    else:
                        res[e + (i, 0)] = _maybe(lambda: val(*locate_vertex(t, i, False)))
                        res[e + (i, 1)] = _maybe(lambda: val(*locate_vertex(t, i + 1, True)))
            else:
                t0, t1 = p["t"]

                def val2(k0, s0, k1, s1):
                    f = lambda i, j: Fraction(int(tp[i][j]), den)
                    return ((1 - s0) * (1 - s1) * f(k0, k1) + (1 - s0) * s1 * f(k0, k1 + 1)
                            + s0 * (1 - s1) * f(k0 + 1, k1) + s0 * s1 * f(k0 + 1, k1 + 1))

                for j in range(p["n"][0]):
                    for i in range(p["n"][1]):
                        if not bounds:
                            res[e + (j, i)] = _maybe(lambda: val2(*locate(t0, j), *locate(t1, i)))
                        else:
                            try:
                                lo0, up0 = locate_vertex(t0, j, False), locate_vertex(t0, j + 1, True)
                                lo1, up1 = locate_vertex(t1, i, False), locate_vertex(t1, i + 1, True)
                            except ValueError:
                                for v in range(4):
                                    res[e + (j, i, v)] = None
                                continue
                            res[e + (j, i, 0)] = val2(*lo0, *lo1)
                            res[e + (j, i, 1)] = val2(*lo0, *up1)
                            res[e + (j, i, 2)] = val2(*up0, *up1)
                            res[e + (j, i, 3)] = val2(*up0, *lo1)
        out[name] = _actual(res, p)
    return out


def close(x, q):
    return abs(Fraction(float(x)) - q) <= Fraction(1, 10 ** 10) * (1 + abs(q))


def cmp_arrays(got, want, what):
    if isinstance(got, Raised):
        return f"{what}: raised {got.enum} {got.text}"
    got = np.ma.asanyarray(got)
    if tuple(got.shape) != tuple(want.shape):
        return f"{what}: shape {tuple(got.shape)} != {tuple(want.shape)}"
    inside = np.array([w is not None for w in want.flatten()], dtype=bool).reshape(want.shape)
    if (np.ma.getmaskarray(got) & inside).any():
        return f"{what}: {int((np.ma.getmaskarray(got) & inside).sum())} masked element(s)"
    g = np.ma.getdata(got)
    for idx in np.ndindex(*want.shape):
        if want[idx] is None:
            continue  # single-tie-point area: outside the property, model correspondence only
        if not close(g[idx], want[idx]):
            return f"{what}: element {idx} is {g[idx]!r}, Appendix J gives {want[idx]}"
    return None


def take(a, pos, drop):
    r = a
    for ax, q in enumerate(pos):
        r = np.take(r, q, axis=ax)
    if drop:
        r = r.reshape([n for ax, n in enumerate(r.shape) if ax not in drop])
    return r


def oracle(c):
    p = c.payload
    if p.get("kind") == "q":
        return oracle_q(c)
    if str(c.impl_out).startswith("raised"):
        return "implementation raised: " + c.impl_out + " " + str(c.extra)[-300:]
    well_formed = all(wf(t, n) for t, n in zip(p["t"], p["n"]))
    obs = c.extra
    exact = exact_arrays(p)
    ushape = tuple(ushape_of(p))
    nsub = len(p["t"])
    for name, want in exact.items():
        rec = obs[name]
        wshape = ushape + ((2 * nsub,) if name == "bounds" else ())
        if tuple(rec["shape"]) != wshape:
            return f"{name}: .shape {rec['shape']} is not the target shape {wshape}"
        r = cmp_arrays(rec["full"], want, name)
        if r:
            return r
        if np.ma.getdata(rec["full"]).dtype != np.dtype("f8"):
            return f"{name}: dtype {np.ma.getdata(rec['full']).dtype}"
        # every tie point exactly (bit for bit) at its index
        full = np.ma.getdata(_canon(rec["full"], p))
        src = np.array(p["tp"] if name == "coord" else p["btp"], dtype=int) / p["den"]
        if name == "coord" and well_formed:
            sel = full
            for k, t in enumerate(p["t"]):
                sel = np.take(sel, t, axis=len(p["extra"]) + k)
            if not np.array_equal(sel, src):
                return "coord: a tie point is not reproduced exactly at its tie point index"
        if "elem" in rec:
            q = want[(0,) * want.ndim] if p["ix"] == "first" else want[(-1,) * want.ndim]
            e = rec["elem"]
            if q is None:
                pass  # single-tie-point area at the corner: outside the property
            elif isinstance(e, Raised):
                return f"subspace {name}: {p['ix']}_element() raised {e.enum} {e.text}"
            elif e is np.ma.masked or not close(e, q):
                return f"subspace {name}: {p['ix']}_element() is {e!r}, the array's {p['ix']} element is {q}"
        # subspace
        if "sub" in rec:
            if "cix" in rec:
                ix = rec["cix"]
                pos, drop = positions(ix, list(ushape))
                if name == "bounds":
                    pos = pos + [list(range(2 * nsub))]
            else:
                pos, drop = positions(p["ix"], list(wshape))
            if p["recv"] != "array":
                drop = []  # cfdm.Data keeps an integer-indexed axis with size 1
            wsub = take(want, pos, drop)
            r = cmp_arrays(rec["sub"], wsub, f"subspace {name}")
            if r and "cix" in rec and name == "bounds" and nsub == 1 and len(ushape) == 1:
                # C03's bounds reversal rule may flip the vertex axis of a 1-d coordinate
                r = cmp_arrays(rec["sub"], wsub[..., ::-1], f"subspace {name}")
            if r:
                return r
    if obs.get("_tpi", None) is not None:
        want_tpi = sorted((int(d), list(t)) for d, t in zip(p["pos"], p["t"]))
        if obs["_tpi"] != want_tpi:
            return f"file: tie point indices read as {obs['_tpi']}, written {want_tpi}"
    if "_rd" in obs:
        # the reader's hand-over, stated from the way the file was written
        h = obs["_rd"]
        if isinstance(h, Raised):
            return f"file: hand-over not readable: {h.enum} {h.text}"
        target = p["observe"]
        want = dict(
            shape=list(ushape) + ([2 * nsub] if target == "bounds" else []),
            tpi=sorted((int(d), f"idx{k}") for k, d in enumerate(p["pos"])),
            pd=[("w", [int(d) for d in w_stored(p)[1]])] if p.get("w") else [],
            ci=["c16"] + (["c16b"] if p.get("second_coord") else []),
            name=p["m"],
        )
        for k, v in want.items():
            if h[k] != v:
                return f"file: reader hand-over {k} is {h[k]}, the dataset says {v}"
    return None


# ---------------------------------------------------------------- findings
def _parsed_kind(t, n, data_like):
    """What this index element is when it reaches `SubsampledArray.__getitem__`:
    'first' = `slice(0, 1, 1)`, 'array' = a numpy array, 'other'.  `Data._parse_indices`
    turns an integer, a one-element list and a one-element (boolean or integer) array
    into a slice; the raw array receiver gets the index as written."""
    if t[0] == "s":
        return "first" if t[1:] == [0, 1, 1] else "other"
    if not data_like:
        return "array" if t[0] in ("a", "b") else "other"
    if t[0] == "i":
        return "first" if t[1] % n == 0 else "other"
    pos = [i for i, v in enumerate(t[1]) if v] if t[0] == "b" else [v % n for v in t[1]]
    if len(pos) == 1:
        return "first" if pos[0] == 0 else "other"
    return "array" if t[0] in ("a", "b") else "other"


def w_dims_permuted(p):
    """quadratic `w` spanning every tie point dimension, stored in another dimension order."""
    w = p.get("w")
    if not w or w.get("nosub") or len(w["span"]) != len(p["extra"]) or not p["extra"]:
        return False
    dims = list(w_stored(p)[1])
    return dims != sorted(dims)


def w_without_subarea_dimension(p):
    """quadratic `w` that does not span the interpolation subarea dimension, two or more subareas."""
    w = p.get("w")
    return bool(w and w.get("nosub") and n_subareas(p["t"][0]) >= 2)


def classify(c):
    p = c.payload
    if p.get("kind") == "q":
        return classify_q(c)
    f = str(c.oracle_fail or "")
    ix = p["ix"]
    data_like = p["recv"] != "array"
    if not f.startswith("subspace"):
        if w_without_subarea_dimension(p) and "ValueError" in f:
            return "interpolation-parameter-without-subarea-dimension"
        if w_dims_permuted(p):
            return "interpolation-parameter-dimensions-permuted"
        if p.get("tp_dtype") in ("i1", "u1", "i2"):
            # fixed in /repo (known_findings.json): reported again if it returns
            return "small-integer-tie-points-interpolated-in-integer-arithmetic"
        return None
    shape = ushape_of(p) + ([2 * len(p["t"])] if p["observe"] == "bounds" else [])
    if isinstance(ix, list):
        if p["recv"] in ("coord", "file"):
            ix = ix[: len(ushape_of(p))]  # the construct is indexed over the coordinate's dimensions
        kinds = [_parsed_kind(t, n, data_like) for t, n in zip(ix, shape)]
        k = next((i for i, kind in enumerate(kinds) if kind == "array"), None)
        if k is not None and "raised ValueError" in f and all(kind == "first" for kind in kinds[:k]):
            return "first-or-last-shortcut-numpy-array-index"
        shortcut = all(kind == "first" for kind in kinds)
    else:
        shortcut = True
    if shortcut and p["observe"] == "bounds":
        if ": shape " in f:
            return "first-or-last-shortcut-drops-bounds-dimension"
        if len(p["t"]) == 2 and ix == "last" and ("last_element() is" in f or ": element " in f):
            return "bilinear-bounds-last-element-shortcut"
    return None


_shrinks = [0]


def shrink(c, run):
    """Normalise what rarely matters (precision attribute, tie point dtype); at most a few per run."""
    _shrinks[0] += 1
    if _shrinks[0] > 5:
        return None
    best = c
    if c.payload.get("kind") == "q":
        return None
    for change in (dict(precision="64"), dict(tp_dtype="f8")):
        q = dict(best.payload)
        q.update(change)
        try:
            c2 = mk(q)
            c2.impl_out = impl(c2)
            c2.oracle_fail = oracle(c2)
        except Exception:
            continue
        if c2.oracle_fail and classify(c2) == classify(best):
            best = c2
    return best
