"""C18 — construct selection agrees with construct identities and keys.

Streams (all three: real cfdm vs Lean model vs independent oracle)
  C18.sel  a program on ``f.constructs``: ``filter(**kw)`` / ``filter_by_*`` chains of
           up to three filters, ``inverse_filter(depth)``, ``unfilter(depth)``,
           ``todict`` on/off                                   -> sorted selected keys
  C18.acc  ``f.construct / construct_key / construct_item / coordinate /
           dimension_coordinate / auxiliary_coordinate / cell_measure / ...`` with
           identities, filter keywords and ``default``         -> key | default | raised
  C18.dax  ``f.domain_axes(*ids)`` / ``f.domain_axis(*ids, default=)``

Every field is abstracted, through public accessors only (``c.identities()``,
``c.properties()``, ``f.constructs.data_axes()``, ``nc_get_variable`` ...), into the
construct records of ``lean/Cfdm/Model/Select.lean``; the same records go to the
model (protocol line) and to the oracle, which evaluates the membership predicates
of the property statement directly (Python ``re`` for patterns, sets for chains).
After every query the field must still equal its pristine copy and report the same
keys / axes / identities.
"""
import json
import re

from .. import fw
from ..fw import Case

REQUIRED = [
    "C18_short_iteration_loses_nothing",
    "C18_identity_sound_complete",
    "C18_filter_sound_complete",
    "C18_chain_intersection",
    "C18_chain_order_independent",
    "C18_todict_same_members",
    "C18_unfilter_chain",
    "C18_unfilter_returns_base",
    "C18_inverse_complement",
    "C18_unique_accessor",
    "C18_filter_subcollection",
    "C18_identity_old_counterexample",
    "C18_bytype_prefiltered_old_counterexample",
    "C18_inverse_depth_old_counterexample",
    "C18_axis_identity_old_counterexample",
    "C18_foreign_key_identity_counterexample",
]
BUDGET = {"quick": 12000, "thorough": 240000}
QUICK_JOBS = 4
TIME_LIMIT = {"quick": 150, "thorough": 1200}
RULE = (
    "fields = cfdm.example_field(0..11), unchanged and mutated (properties / netCDF names / measures / bounds "
    "properties set and deleted, constructs of every type added), and fields built ab initio with every construct "
    "type, duplicate identities, constructs with no identity, ncvar/ncdim names, size-1 axes, cell measures / "
    "topologies with a standard_name, bounds with their own standard_name; queries = every identity string a "
    "construct reports, keys, key%keys, non-matching strings, literal / ^prefix / alternation regular expressions, "
    "integers; all filter_by_* methods and modes (property and/or, axis and/or/exact/subset, empty argument lists), "
    "filter(**kw) and method chains of <= 3 filters, inverse_filter / unfilter with depth None..3, todict on/off; "
    "single-construct accessors with default None / value / exception.  non-trivial = the selected set is a "
    "non-empty proper subset of the constructs (sel, dax) or a construct is returned (acc); distinct = distinct "
    "(field spec, query)"
)
ASSUMPTIONS = [
    "values and identities are compared as strings; regular expressions are restricted to alternations of literals (re.search) and ^literals (prefix)",
    "filter_by_data / the empty-argument forms select by construct *type* (could have data), as the code does; actual presence of data is not modelled",
    "axis resolution (_filter_convert_to_domain_axis) is shared between the Lean model and the Lean spec; its independent statement is the Python oracle",
    "inverse_filter(depth>=1) directly after another inverse_filter is documented inconsistently: model-vs-implementation only, no oracle verdict",
    "Field.cell_method(s) with identities (extra domain-axis route) and domain_axes with extra filter keywords are not explored",
    "exclusion: a construct identity equal to the key of another construct (generated rarely, recorded as a known finding)",
]

ARRAY = ("auxiliary_coordinate", "dimension_coordinate", "domain_ancillary", "field_ancillary",
         "cell_measure", "domain_topology", "cell_connectivity")
TYPES = ARRAY + ("domain_axis", "coordinate_reference", "cell_method")
ACCESSORS = {
    "construct": (), "construct_key": (), "construct_item": (),
    "coordinate": ("dimension_coordinate", "auxiliary_coordinate"),
    "dimension_coordinate": ("dimension_coordinate",),
    "auxiliary_coordinate": ("auxiliary_coordinate",),
    "cell_measure": ("cell_measure",),
    "domain_ancillary": ("domain_ancillary",),
    "field_ancillary": ("field_ancillary",),
    "coordinate_reference": ("coordinate_reference",),
    "domain_topology": ("domain_topology",),
    "cell_connectivity": ("cell_connectivity",),
}
_cfdm = None


def cfdm():
    global _cfdm
    if _cfdm is None:
        import cfdm as m
        _cfdm = m
    return _cfdm


# =====================================================================
# fields: spec -> real field -> records
# =====================================================================
SN = ["latitude", "longitude", "time", "air_temperature", "cell_area", "foo", "a=b", "x:y", "p%q", "grid latitude"]
LN = ["lat", "Height", "x y", "foo", "a=b", "time"]
NCV = ["lat", "y", "time", "v1", "foo", "a_bnds"]
NCD = ["y", "x", "dim0", "time", "foo"]
PROPN = ["units", "long_name", "standard_name", "axis", "cf_role", "foo", "positive", "comment"]
PROPV = ["m", "K", "X", "T", "up", "bar", "foo", "degrees north", "a=b", "timeseries_id"]
MEAS = ["area", "volume", "foo"]
METH = ["mean", "maximum", "point", "foo"]
CELLS = ["face", "edge", "point"]


def gen_props(rng, allow_empty=True):
    p = {}
    r = rng.random()
    if r < 0.55:
        p["standard_name"] = rng.choice(SN)
    if rng.random() < 0.35:
        p["long_name"] = rng.choice(LN)
    if rng.random() < 0.3:
        p["units"] = rng.choice(PROPV)
    if rng.random() < 0.15:
        p["axis"] = rng.choice(["X", "Y", "T", "Z"])
    if rng.random() < 0.1:
        p["cf_role"] = rng.choice(["timeseries_id", "foo"])
    if rng.random() < 0.15:
        p[rng.choice(["foo", "comment", "positive"])] = rng.choice(PROPV)
    if not allow_empty and not p:
        p["long_name"] = rng.choice(LN)
    return p


def gen_construct(rng, t, naxes_avail, keys_so_far):
    """Spec of one construct to add.  Axes are indices into the field's domain axes."""
    s = {"t": t}
    if t in ARRAY:
        if t == "dimension_coordinate" or t in ("domain_topology", "cell_connectivity"):
            k = 1
        else:
            k = rng.choice([1, 1, 1, 2, 2, 3, 0]) if t != "auxiliary_coordinate" else rng.choice([1, 1, 1, 2, 2, 3])
        k = min(k, naxes_avail)
        if k == 0 and t in ("dimension_coordinate", "auxiliary_coordinate", "domain_topology", "cell_connectivity"):
            return None
        s["axes"] = rng.sample(range(naxes_avail), k)
        s["props"] = gen_props(rng) if rng.random() < 0.85 else {}
        s["ncvar"] = rng.choice(NCV) if rng.random() < 0.4 else None
        s["data"] = rng.random() < 0.3
        if t in ("dimension_coordinate", "auxiliary_coordinate", "domain_ancillary") and rng.random() < 0.35:
            b = {"props": {}, "ncvar": rng.choice(NCV) if rng.random() < 0.5 else None}
            if rng.random() < 0.4:
                b["props"]["standard_name"] = rng.choice(SN)
            if rng.random() < 0.2:
                b["props"]["long_name"] = rng.choice(LN)
            s["bounds"] = b
        if t == "cell_measure":
            s["measure"] = rng.choice(MEAS) if rng.random() < 0.8 else None
        if t == "domain_topology":
            s["cell"] = rng.choice(CELLS) if rng.random() < 0.8 else None
        if t == "cell_connectivity":
            s["connectivity"] = rng.choice(["edge", "node"]) if rng.random() < 0.8 else None
        if keys_so_far and rng.random() < 0.02:
            # exclusion corner: an identity that is another construct's key
            s["props"]["standard_name"] = rng.choice(keys_so_far)
    elif t == "cell_method":
        s["method"] = rng.choice(METH) if rng.random() < 0.9 else None
        s["axes"] = rng.sample(range(naxes_avail), min(1, naxes_avail))
    elif t == "coordinate_reference":
        s["sn"] = rng.choice(SN[:6]) if rng.random() < 0.4 else None
        s["gm"] = rng.choice(["rotated_latitude_longitude", "latitude_longitude"]) if rng.random() < 0.6 else None
        s["ncvar"] = rng.choice(NCV) if rng.random() < 0.5 else None
    return s


def gen_field_spec(rng):
    r = rng.random()
    spec = {"base": None, "axes": [], "data_axes": None, "add": [], "muts": []}
    if r < 0.45:
        spec["base"] = rng.randrange(12)
        n_add = rng.choice([0, 0, 1, 2, 4])
        n_mut = rng.choice([0, 0, 1, 3, 6])
        new_axes = rng.choice([0, 0, 1])
    else:
        n_add = rng.randint(2, 14)
        n_mut = rng.choice([0, 0, 2])
        new_axes = rng.randint(1, 4)
    for _ in range(new_axes):
        spec["axes"].append({"size": rng.choice([1, 1, 2, 3, 4, 4, 5]), "ncdim": rng.choice(NCD) if rng.random() < 0.5 else None})
    if spec["base"] is None and rng.random() < 0.7:
        k = rng.randint(0, new_axes)
        spec["data_axes"] = rng.sample(range(new_axes), k)
    spec["_n_add"] = n_add
    spec["_n_mut"] = n_mut
    spec["_seed"] = rng.randrange(1 << 30)
    return spec


def expand_field_spec(spec):
    """Fill `add` and `muts` (needs the base field to know keys); deterministic in _seed."""
    if "_seed" not in spec:
        return spec
    spec = dict(spec)
    rng = fw.rng_for(spec.pop("_seed"), "C18field")
    n_add, n_mut = spec.pop("_n_add"), spec.pop("_n_mut")
    C = cfdm()
    if spec["base"] is not None:
        f = C.example_field(spec["base"])
        keys = list(f.constructs.todict())
        ctype = {k: f.constructs.construct_type(k) for k in keys}
        nax = len(f.domain_axes(todict=True)) + len(spec["axes"])
    else:
        keys, ctype, nax = [], {}, len(spec["axes"])
    add = []
    for _ in range(n_add):
        t = rng.choice(TYPES[:7] + TYPES[:7] + ("cell_method", "coordinate_reference", "cell_measure", "auxiliary_coordinate"))
        s = gen_construct(rng, t, nax, keys)
        if s is not None:
            add.append(s)
    muts = []
    for _ in range(n_mut):
        if not keys:
            break
        k = rng.choice(keys)
        t = ctype[k]
        op = rng.choice(["setp", "setp", "delp", "ncvar", "ncdim", "measure", "bsetp", "bncvar"])
        if op == "setp" and t in ARRAY:
            muts.append(["setp", k, rng.choice(PROPN), rng.choice(SN + PROPV)])
        elif op == "delp" and t in ARRAY:
            muts.append(["delp", k, rng.choice(["standard_name", "long_name", "units"])])
        elif op == "ncvar" and t in ARRAY + ("coordinate_reference",):
            muts.append(["ncvar", k, rng.choice(NCV + [None])])
        elif op == "ncdim" and t == "domain_axis":
            muts.append(["ncdim", k, rng.choice(NCD + [None])])
        elif op == "measure" and t == "cell_measure":
            muts.append(["measure", k, rng.choice(MEAS + [None])])
        elif op == "bsetp" and t in ("dimension_coordinate", "auxiliary_coordinate", "domain_ancillary"):
            muts.append(["bsetp", k, rng.choice(["standard_name", "long_name"]), rng.choice(SN)])
        elif op == "bncvar" and t in ("dimension_coordinate", "auxiliary_coordinate", "domain_ancillary"):
            muts.append(["bncvar", k, rng.choice(NCV + [None])])
    spec["add"] = add
    spec["muts"] = muts
    return spec


def build_field(spec):
    import numpy as np
    C = cfdm()
    f = C.example_field(spec["base"]) if spec["base"] is not None else C.Field()
    new = []
    for a in spec["axes"]:
        d = C.DomainAxis(a["size"])
        if a["ncdim"] is not None:
            d.nc_set_dimension(a["ncdim"])
        new.append(f.set_construct(d))
    if spec["base"] is None and spec["data_axes"] is not None:
        ax = [new[i] for i in spec["data_axes"]]
        shape = [spec["axes"][i]["size"] for i in spec["data_axes"]]
        f.set_data(C.Data(np.zeros(shape)), axes=ax)
        f.set_property("standard_name", "air_temperature")
    dak = list(f.domain_axes(todict=True))
    sizes = {k: v.get_size(None) for k, v in f.domain_axes(todict=True).items()}
    for m in spec["muts"]:
        op, key = m[0], m[1]
        c = f.constructs.get(key)
        if c is None:
            continue
        if op == "setp":
            c.set_property(m[2], m[3])
        elif op == "delp":
            c.del_property(m[2], None)
        elif op == "ncvar":
            c.nc_del_variable(None) if m[2] is None else c.nc_set_variable(m[2])
        elif op == "ncdim":
            c.nc_del_dimension(None) if m[2] is None else c.nc_set_dimension(m[2])
        elif op == "measure":
            c.del_measure(None) if m[2] is None else c.set_measure(m[2])
        elif op in ("bsetp", "bncvar"):
            b = c.get_bounds(None)
            if b is None:
                continue
            if op == "bsetp":
                b.set_property(m[2], m[3])
            else:
                b.nc_del_variable(None) if m[2] is None else b.nc_set_variable(m[2])
    cls = {
        "dimension_coordinate": C.DimensionCoordinate, "auxiliary_coordinate": C.AuxiliaryCoordinate,
        "cell_measure": C.CellMeasure, "domain_ancillary": C.DomainAncillary, "field_ancillary": C.FieldAncillary,
        "domain_topology": C.DomainTopology, "cell_connectivity": C.CellConnectivity,
    }
    for s in spec["add"]:
        t = s["t"]
        if t in ARRAY:
            c = cls[t](properties=dict(s["props"]))
            axes = [dak[i] for i in s["axes"]]
            shape = [sizes[a] or 1 for a in axes]
            if t in ("domain_topology", "cell_connectivity"):
                if s["data"]:
                    c.set_data(C.Data(np.zeros(shape + [3], dtype=int)))
            elif s["data"]:
                c.set_data(C.Data(np.zeros(shape)))
            if s.get("ncvar") is not None:
                c.nc_set_variable(s["ncvar"])
            if s.get("bounds") is not None:
                b = C.Bounds(properties=dict(s["bounds"]["props"]))
                if s["data"]:
                    b.set_data(C.Data(np.zeros(shape + [2])))
                if s["bounds"]["ncvar"] is not None:
                    b.nc_set_variable(s["bounds"]["ncvar"])
                c.set_bounds(b)
            if s.get("measure") is not None:
                c.set_measure(s["measure"])
            if s.get("cell") is not None:
                c.set_cell(s["cell"])
            if s.get("connectivity") is not None:
                c.set_connectivity(s["connectivity"])
            f.set_construct(c, axes=axes)
        elif t == "cell_method":
            c = C.CellMethod(axes=[dak[i] for i in s["axes"]])
            if s["method"] is not None:
                c.set_method(s["method"])
            f.set_construct(c)
        elif t == "coordinate_reference":
            par = {}
            if s["sn"] is not None:
                par["standard_name"] = s["sn"]
            if s["gm"] is not None:
                par["grid_mapping_name"] = s["gm"]
            c = C.CoordinateReference(coordinate_conversion=C.CoordinateConversion(parameters=par))
            if s["ncvar"] is not None:
                c.nc_set_variable(s["ncvar"])
            f.set_construct(c)
    # the model compares values as strings: drop the (rare) non-string properties
    for c in f.constructs.todict().values():
        if hasattr(c, "properties"):
            for n, v in list(c.properties().items()):
                if not isinstance(v, str):
                    c.del_property(n)
            b = c.get_bounds(None) if hasattr(c, "get_bounds") else None
            if b is not None:
                for n, v in list(b.properties().items()):
                    if not isinstance(v, str):
                        b.del_property(n)
    return f


def abstract(f):
    """The construct records, through public accessors only."""
    recs = []
    data_axes = f.constructs.data_axes()
    for key, c in f.constructs.todict().items():
        t = f.constructs.construct_type(key)
        ids = list(c.identities())
        npre = 0
        for getter in ("get_measure", "get_cell", "get_connectivity"):
            if hasattr(c, getter) and getattr(c, getter)(None) is not None:
                npre = 1
        b = c.get_bounds(None) if hasattr(c, "get_bounds") else None
        npost = 0
        if b is not None:
            bi = list(b.identities())
            npost = len(bi)
            if npost and ids[-npost:] != bi:
                raise fw.HarnessError(f"identities of {key} do not end with its bounds' identities")
        r = dict(
            key=key, type=t, ids=ids, npre=npre, npost=npost,
            props=dict(c.properties()) if hasattr(c, "get_property") else None,
            axes=list(data_axes[key]) if key in data_axes else None,
            size=c.get_size(None) if t == "domain_axis" else None,
            measure=c.get_measure(None) if hasattr(c, "get_measure") else None,
            method=c.get_method(None) if hasattr(c, "get_method") else None,
            has_ncvar=hasattr(c, "nc_get_variable"),
            ncvar=c.nc_get_variable(None) if hasattr(c, "nc_get_variable") else None,
            has_ncdim=hasattr(c, "nc_get_dimension"),
            ncdim=c.nc_get_dimension(None) if hasattr(c, "nc_get_dimension") else None,
        )
        recs.append(r)
    fa = f.get_data_axes(default=None)
    return recs, (list(fa) if fa is not None else None)


def fingerprint(f):
    data_axes = f.constructs.data_axes()
    return sorted(
        (k, f.constructs.construct_type(k), tuple(c.identities()), tuple(data_axes.get(k, ("-",))))
        for k, c in f.constructs.todict().items()
    )


_fields = {}


def get_field(spec):
    """(field, pristine copy, fingerprint, records, field axes), cached per process."""
    k = json.dumps(spec, sort_keys=True)
    if k not in _fields:
        if len(_fields) > 6:
            _fields.pop(next(iter(_fields)))
        f = build_field(spec)
        recs, fa = abstract(f)
        _fields[k] = (f, f.copy(), fingerprint(f), recs, fa)
    return _fields[k]


# =====================================================================
# encoding for the model
# =====================================================================
def hx(s):
    return s.encode("utf-8").hex()


def enc_list(xs, f=lambda x: x):
    return "." if not xs else ",".join(f(x) for x in xs)


def enc_rec(r):
    ids = r["ids"]
    pre = ids[: r["npre"]]
    post = ids[len(ids) - r["npost"]:] if r["npost"] else []
    body = ids[r["npre"]: len(ids) - r["npost"]]
    props = "-" if r["props"] is None else enc_list(sorted(r["props"].items()), lambda kv: hx(kv[0]) + ":" + hx(kv[1]))

    def opt(v):
        return "-" if v is None else "s" + hx(v)

    return "|".join([
        r["key"], r["type"], enc_list(pre, hx), enc_list(body, hx), enc_list(post, hx), props,
        "-" if r["axes"] is None else enc_list(r["axes"]),
        "-" if r["size"] is None else str(r["size"]),
        opt(r["measure"]), opt(r["method"]),
        opt(r["ncvar"]) if r["has_ncvar"] else "!",
        opt(r["ncdim"]) if r["has_ncdim"] else "!",
    ])


def enc_q(q):
    if "s" in q:
        return "s:" + hx(q["s"])
    if "i" in q:
        return "i:" + str(q["i"])
    return "p:" + "/".join(("^" if a else "") + hx(l) for a, l in q["p"])


def enc_qs(qs):
    return ",".join(enc_q(q) for q in qs)


def enc_filter(f):
    k = f["f"]
    if k == "da":
        return "da"
    if k == "ty":
        return "ty~" + ",".join(f["a"])
    if k in ("nx", "sz"):
        return k + "~" + ",".join(str(n) for n in f["a"])
    if k == "pr":
        return "pr~" + f["mode"] + "~" + ",".join(hx(n) + ":" + ("-" if v is None else enc_q(v)) for n, v in f["a"])
    if k == "ax":
        return "ax~" + f["mode"] + "~" + enc_qs(f["a"])
    return k + "~" + enc_qs(f["a"])


def enc_step(s):
    k = s["k"]
    if k == "F":
        return f"F{int(s['todict'])}[" + ";".join(enc_filter(f) for f in s["fs"]) + "]"
    if k == "M":
        return f"M{int(s['todict'])}[" + enc_filter(s["fs"][0]) + "]"
    return ("I" if k == "I" else "U") + ("_" if s["d"] is None else str(s["d"]))


def enc_ctx(recs, fa):
    return "cs=" + ("." if not recs else ";".join(enc_rec(r) for r in recs)) + " fa=" + ("-" if fa is None else enc_list(fa))


# =====================================================================
# python objects for cfdm
# =====================================================================
def py_q(q):
    if "s" in q:
        return q["s"]
    if "i" in q:
        return q["i"]
    return re.compile("|".join(("^" if a else "") + re.escape(l) for a, l in q["p"]))


METHOD = {"id": "filter_by_identity", "ty": "filter_by_type", "key": "filter_by_key", "pr": "filter_by_property",
          "ax": "filter_by_axis", "nx": "filter_by_naxes", "sz": "filter_by_size", "ms": "filter_by_measure",
          "mt": "filter_by_method", "nv": "filter_by_ncvar", "nd": "filter_by_ncdim", "da": "filter_by_data"}


def py_args(f):
    k = f["f"]
    if k == "ty":
        return tuple(f["a"])
    if k in ("nx", "sz"):
        return tuple(f["a"])
    if k == "pr":
        return {n: (None if v is None else py_q(v)) for n, v in f["a"]}
    if k == "da":
        return True
    return tuple(py_q(q) for q in f["a"])


def kwargs_for(fs):
    kw = {}
    for f in fs:
        kw[METHOD[f["f"]]] = py_args(f)
        if f["f"] == "ax":
            kw["axis_mode"] = f["mode"]
        if f["f"] == "pr":
            kw["property_mode"] = f["mode"]
    return kw


def call_method(coll, f, todict, call_form=False):
    k = f["f"]
    a = py_args(f)
    if k == "pr":
        pos = () if (f["mode"] == "and" and f.get("omit_mode")) else (f["mode"],)
        return coll.filter_by_property(*pos, **a)
    if k == "da":
        return coll.filter_by_data(todict=todict)
    if k == "ax":
        return coll.filter_by_axis(*a, axis_mode=f["mode"], todict=todict)
    if k == "id" and call_form and not todict and a:
        return coll(*a)     # c(*identities) is filter_by_identity; c() would be filter() with no history entry
    return getattr(coll, METHOD[k])(*a, todict=todict)


# =====================================================================
# the independent oracle (membership predicates)
# =====================================================================
def o_match(q, v):
    if "s" in q:
        return q["s"] == v
    if "i" in q:
        return False
    return py_q(q).search(v) is not None


def o_identity(r, qs):
    for q in qs:
        if "s" in q and (q["s"] == r["key"] or q["s"] == "key%" + r["key"]):
            return True
        if any(o_match(q, s) for s in r["ids"]):
            return True
    return False


def o_resolve(recs, fa, v, check_ids=True):
    """The domain axis a value stands for (docstring of filter_by_axis); (axis|None, route)."""
    das = [r for r in recs if r["type"] == "domain_axis"]
    if "s" in v and any(r["key"] == v["s"] for r in das):
        return v["s"], "key"
    if fa and "i" in v:
        n = len(fa)
        return (fa[v["i"]] if -n <= v["i"] < n else None), "pos"
    coords = [r for r in recs if r["type"] in ("dimension_coordinate", "auxiliary_coordinate")
              and r["axes"] is not None and len(r["axes"]) == 1 and o_identity(r, [v])]
    if coords:
        ax = {r["axes"][0] for r in coords}
        return (ax.pop() if len(ax) == 1 else None), "coord"
    if check_ids:
        d = [r for r in das if o_identity(r, [v])]
        return (d[0]["key"] if len(d) == 1 else None), "daid"
    return None, "none"


def o_sat(recs, fa, f, r):
    k, a = f["f"], f.get("a")
    if k == "id":
        return not a or o_identity(r, a)
    if k == "ty":
        return not a or r["type"] in a
    if k == "key":
        return not a or any(o_match(q, r["key"]) for q in a)
    if k == "pr":
        if r["props"] is None:
            return False
        if not a:
            return True
        tests = [n in r["props"] and (v is None or o_match(v, r["props"][n])) for n, v in a]
        return any(tests) if f["mode"] == "or" else all(tests)
    if k == "da":
        return r["type"] in ARRAY
    if k == "ax":
        if not a:
            return r["type"] in ARRAY
        A = {o_resolve(recs, fa, v)[0] for v in a} - {None}
        if not A or r["axes"] is None:
            return False
        x = set(r["axes"])
        return {"and": A <= x, "or": bool(A & x), "exact": A == x, "subset": x <= A}[f["mode"]]
    if k == "nx":
        if not a:
            return r["type"] in ARRAY
        return r["axes"] is not None and len(r["axes"]) in a
    if k == "sz":
        return r["type"] == "domain_axis" and (not a or (r["size"] is not None and r["size"] in a))
    if k in ("ms", "mt"):
        want, val = ("cell_measure", r["measure"]) if k == "ms" else ("cell_method", r["method"])
        return r["type"] == want and (not a or (val is not None and any(o_match(q, val) for q in a)))
    if k in ("nv", "nd"):
        has, val = (r["has_ncvar"], r["ncvar"]) if k == "nv" else (r["has_ncdim"], r["ncdim"])
        return has and (not a or (val is not None and any(o_match(q, val) for q in a)))
    raise fw.HarnessError("unknown filter " + k)


def o_program(recs, fa, prog):
    """Expected keys of a sel program, or None where the property gives no verdict."""
    byk = {r["key"]: r for r in recs}
    hist = [set(byk)]           # hist[0] = unfiltered ... hist[-1] = current
    inv = [False]               # was hist[i] produced by inverse_filter?
    for s in prog:
        cur = hist[-1]
        if s["k"] in ("F", "M"):
            new = set(cur)
            for f in s["fs"]:
                new = {k for k in new if o_sat(recs, fa, f, byk[k])}
                if not s["todict"]:
                    hist.append(new)
                    inv.append(False)
            if s["todict"]:
                return new
        elif s["k"] == "U":
            d = s["d"]
            keep = 1 if (d is None or d >= len(hist)) else len(hist) - d
            hist, inv = hist[:keep], inv[:keep]
        else:
            d = s["d"]
            if d and inv[-1]:
                return None     # inverse of an inverse with a depth: no documented meaning
            rel = hist[0] if (d is None or d >= len(hist)) else hist[len(hist) - 1 - d]
            hist.append(rel - cur)
            inv.append(True)
    return hist[-1]


def o_dax(recs, fa, ids):
    das = [r for r in recs if r["type"] == "domain_axis"]
    if not ids:
        return {r["key"] for r in das}
    out = set()
    for q in ids:
        direct = {r["key"] for r in das if o_identity(r, [q])}
        if direct:
            out |= direct
        else:
            a, _ = o_resolve(recs, fa, q, check_ids=False)
            if a is not None:
                out.add(a)
    return out


def show_keys(ks):
    return "keys=[" + ",".join(sorted(ks)) + "]"


def o_expected(c):
    p = c.payload
    recs, fa = p["recs"], p["fa"]
    if c.stream == "C18.sel":
        ks = o_program(recs, fa, p["prog"])
        return None if ks is None else show_keys(ks)
    if c.stream == "C18.acc":
        fs = []
        ts = ACCESSORS[p["acc"]]
        if ts:
            fs.append({"f": "ty", "a": list(ts)})
        fs += p["flts"]
        if p["ids"]:
            fs.append({"f": "id", "a": p["ids"]})
        sel = [r["key"] for r in recs if all(o_sat(recs, fa, f, r) for f in fs)]
        if len(sel) == 1:
            return "key=" + sel[0]
        return "raised:ValueError" if p["def"] == "exc" else "default"
    if c.stream == "C18.dax":
        ks = o_dax(recs, fa, p["ids"])
        if p["def"] == "all":
            return show_keys(ks)
        if len(ks) == 1:
            return "key=" + next(iter(ks))
        return "raised:ValueError" if p["def"] == "exc" else "default"
    raise fw.HarnessError("unknown stream " + c.stream)


def oracle(c):
    x = c.extra if isinstance(c.extra, dict) else {}
    if x.get("changed"):
        return "the field was changed by the query: " + x["changed"]
    exp = o_expected(c)
    if exp is None:
        # no documented meaning: only "does not raise" is demanded
        return ("raised on a valid program: " + c.impl_out) if str(c.impl_out).startswith("raised") else None
    if c.impl_out != exp:
        return f"expected {exp} got {c.impl_out}"
    return None


def agree(c):
    return c.impl_out == c.model_out


# =====================================================================
# implementation
# =====================================================================
_SENTINEL = "C18-default-value"


def impl(c):
    p = c.payload
    f, f0, fp, recs, fa = get_field(p["field"])
    try:
        out = _impl(c, f)
    except Exception as e:
        out = "raised:" + fw.exc_enum(e)
        c.extra = dict(tb=repr(e)[:300])
    changed = None
    if fingerprint(f) != fp:
        changed = "keys / types / identities / axes differ"
    elif not f.equals(f0):
        changed = "f.equals(pristine copy) is False"
    if changed:
        c.extra = dict(changed=changed)
        _fields.clear()
    return out


def _keys_of(x):
    return show_keys(list(x.keys()))


def _impl(c, f):
    p = c.payload
    if c.stream == "C18.sel":
        coll = f.constructs
        for s in p["prog"]:
            if s["k"] == "F":
                coll = coll.filter(todict=s["todict"], **kwargs_for(s["fs"]))
            elif s["k"] == "M":
                coll = call_method(coll, s["fs"][0], s["todict"], s.get("call"))
            elif s["k"] == "I":
                coll = coll.inverse_filter(s["d"]) if s["d"] is not None else coll.inverse_filter()
            else:
                coll = coll.unfilter(s["d"]) if s["d"] is not None else coll.unfilter()
        return _keys_of(coll)
    default = {"none": None, "val": _SENTINEL, "exc": ValueError("C18")}.get(p["def"])
    if c.stream == "C18.acc":
        name = p["acc"]
        ids = tuple(py_q(q) for q in p["ids"])
        kw = kwargs_for(p["flts"])
        style = p.get("style", "key")
        meth = getattr(f, name)
        try:
            if name == "construct_key":
                r = meth(*ids, default=default, **kw)
            elif name == "construct_item":
                r = meth(*ids, default=default, **kw)
                if isinstance(r, tuple):
                    r = r[0]
            elif style == "key":
                r = meth(*ids, key=True, default=default, **kw)
            elif style == "item":
                r = meth(*ids, item=True, default=default, **kw)
                if isinstance(r, tuple):
                    r = r[0]
            else:
                r = meth(*ids, default=default, **kw)
                if r is not None and r is not _SENTINEL:
                    ks = [k for k, v in f.constructs.todict().items() if v is r]
                    if len(ks) != 1:
                        return "not-a-member"
                    r = ks[0]
        except ValueError:
            return "raised:ValueError"
        return "default" if (r is None or r is _SENTINEL) else "key=" + r
    if c.stream == "C18.dax":
        ids = tuple(py_q(q) for q in p["ids"])
        if p["def"] == "all":
            return _keys_of(f.domain_axes(*ids, todict=p.get("todict", False)))
        try:
            r = f.domain_axis(*ids, key=True, default=default)
        except ValueError:
            return "raised:ValueError"
        return "default" if (r is None or r is _SENTINEL) else "key=" + r
    raise fw.HarnessError("unknown stream " + c.stream)


# =====================================================================
# cases
# =====================================================================
def mk(stream, payload):
    p = dict(payload)
    p["field"] = expand_field_spec(p["field"])
    f, f0, fp, recs, fa = get_field(p["field"])
    p["recs"], p["fa"] = recs, fa
    ctx = enc_ctx(recs, fa)
    tags = ["field:" + ("ex" if p["field"]["base"] is not None else "built")]
    if stream == "C18.sel":
        line = f"C18.sel {ctx} prog=" + ("." if not p["prog"] else "+".join(enc_step(s) for s in p["prog"]))
        q = json.dumps(p["prog"], sort_keys=True)
        for s in p["prog"]:
            if s["k"] in ("F", "M"):
                tags += [("kw:" if s["k"] == "F" else "m:") + fl["f"] for fl in s["fs"]]
                tags += [fl["f"] + ":" + fl["mode"] for fl in s["fs"] if "mode" in fl]
                if s["todict"]:
                    tags.append("todict")
            else:
                tags.append("inverse" if s["k"] == "I" else "unfilter")
        nfil = sum(len(s["fs"]) for s in p["prog"] if s["k"] in ("F", "M"))
        tags.append(f"chain={min(nfil, 3)}")
    elif stream == "C18.acc":
        line = (f"C18.acc {ctx} acc={p['acc']} ids={enc_qs(p['ids'])} flts=[" + ";".join(enc_filter(x) for x in p["flts"])
                + f"] def={p['def']}")
        q = json.dumps([p["acc"], p["ids"], p["flts"], p["def"], p.get("style")], sort_keys=True)
        tags += ["acc:" + p["acc"], "def:" + p["def"]]
    else:
        line = f"C18.dax {ctx} ids={enc_qs(p['ids'])} def={p['def']}"
        q = json.dumps([p["ids"], p["def"]], sort_keys=True)
        tags.append("dax:" + p["def"])
    for qq in _all_queries(p):
        tags.append("q:" + ("str" if "s" in qq else "int" if "i" in qq else "regex"))
    c = Case(stream, p, line, key=json.dumps(p["field"], sort_keys=True) + q, tags=sorted(set(tags)))
    exp = o_expected(c)
    if exp is None:
        c.nontrivial = True
    elif exp.startswith("keys="):
        n = 0 if exp == "keys=[]" else exp.count(",") + 1
        c.nontrivial = 0 < n < len(recs)
    else:
        c.nontrivial = exp.startswith("key=")
    if _known(c):
        c.tags = tuple(sorted(set(c.tags) | {"finding-shape"}))
    return c


def from_payload(stream, payload):
    p = {k: v for k, v in payload.items() if k not in ("recs", "fa")}
    return mk(stream, p)


def _all_queries(p):
    out = list(p.get("ids", []))
    fls = list(p.get("flts", []))
    for s in p.get("prog", []):
        fls += s.get("fs", [])
    for f in fls:
        if f["f"] in ("id", "key", "ax", "ms", "mt", "nv", "nd"):
            out += f["a"]
        elif f["f"] == "pr":
            out += [v for _, v in f["a"] if v is not None]
    return out


# ---------------------------------------------------------------- query generators
def regex_of(rng, s):
    """A pattern in the model's fragment that matches `s`."""
    r = rng.random()
    if r < 0.35 and len(s) > 1:
        return {"p": [[True, s[: rng.randint(1, len(s))]]]}
    if r < 0.7 and s:
        a = rng.randrange(len(s))
        b = rng.randint(a + 1, len(s))
        return {"p": [[False, s[a:b]]]}
    return {"p": [[rng.random() < 0.5, s], [rng.random() < 0.5, rng.choice(SN + ["zzz"])]]}


def gen_value_q(rng, pool, miss=("nonexistent", "zzz", "")):
    """A query for plain value matching (measure, method, ncvar, ncdim, key, property values)."""
    r = rng.random()
    pool = [x for x in pool if x is not None]
    if not pool or r < 0.12:
        return {"s": rng.choice(miss)}
    s = rng.choice(pool)
    if r < 0.7:
        return {"s": s}
    if r < 0.78:
        return {"s": s + "x"}
    return regex_of(rng, s)


def gen_identity_q(rng, recs):
    r = rng.random()
    rec = rng.choice(recs) if recs else None
    if rec is None:
        return {"s": "latitude"}
    if r < 0.5 and rec["ids"]:
        return {"s": rng.choice(rec["ids"])}
    if r < 0.58:
        return {"s": rec["key"]}
    if r < 0.64:
        return {"s": "key%" + rec["key"]}
    if r < 0.7:
        return {"s": rng.choice(SN + LN)}
    if r < 0.76:
        s = rng.choice(rec["ids"]) if rec["ids"] else "lat"
        return {"s": rng.choice([s + "x", s[:-1], "nonexistent", "key%nonexistent", s.upper()])}
    if r < 0.96 and rec["ids"]:
        return regex_of(rng, rng.choice(rec["ids"]))
    if r < 0.98:
        return regex_of(rng, rec["key"])
    return {"i": rng.randint(-2, 3)}


def gen_identity_qs(rng, recs):
    n = rng.choice([1, 1, 1, 2, 2, 3])
    return [gen_identity_q(rng, recs) for _ in range(n)]


def gen_axis_q(rng, recs, fa):
    das = [r for r in recs if r["type"] == "domain_axis"]
    coords = [r for r in recs if r["type"] in ("dimension_coordinate", "auxiliary_coordinate")]
    r = rng.random()
    if das and r < 0.3:
        return {"s": rng.choice(das)["key"]}
    if das and r < 0.36:
        return {"s": "key%" + rng.choice(das)["key"]}
    if das and r < 0.5:
        d = rng.choice(das)
        return {"s": d["ids"][0]} if d["ids"] else {"s": d["key"]}
    if coords and r < 0.75:
        c = rng.choice(coords)
        return {"s": rng.choice(c["ids"])} if c["ids"] and rng.random() < 0.8 else {"s": c["key"]}
    if r < 0.85:
        return {"i": rng.randint(-3, 3)}
    if r < 0.92 and coords:
        c = rng.choice(coords)
        if c["ids"]:
            return regex_of(rng, rng.choice(c["ids"]))
    if r < 0.96 and das:
        d = rng.choice(das)
        if d["ids"]:
            return regex_of(rng, d["ids"][0])
    return {"s": "nonexistent"}


def gen_filter(rng, recs, fa, kinds=None):
    k = rng.choice(kinds or ["id", "id", "id", "id", "ty", "ty", "key", "pr", "pr", "ax", "ax", "ax", "nx", "sz", "ms", "mt", "nv", "nd", "da"])
    empty = rng.random() < 0.06
    if k == "id":
        return {"f": "id", "a": [] if empty else gen_identity_qs(rng, recs)}
    if k == "ty":
        present = sorted({r["type"] for r in recs}) or list(TYPES)
        n = rng.choice([1, 1, 2, 3])
        return {"f": "ty", "a": [] if empty else [rng.choice(present if rng.random() < 0.8 else TYPES) for _ in range(n)]}
    if k == "key":
        keys = [r["key"] for r in recs]
        return {"f": "key", "a": [] if empty else [gen_value_q(rng, keys, miss=("nonexistent", "key%" + (keys[0] if keys else "x"))) for _ in range(rng.choice([1, 1, 2, 3]))]}
    if k == "pr":
        have = [(n, v) for r in recs if r["props"] for n, v in r["props"].items() if n.isidentifier()]
        a = []
        names = set()
        for _ in range(0 if empty else rng.choice([1, 1, 2, 2, 3])):
            if have and rng.random() < 0.85:
                n, v = rng.choice(have)
            else:
                n, v = rng.choice(PROPN), rng.choice(PROPV)
            if n in names:
                continue
            names.add(n)
            r = rng.random()
            if r < 0.2:
                a.append([n, None])
            else:
                a.append([n, gen_value_q(rng, [v], miss=("nonexistent",))])
        return {"f": "pr", "mode": rng.choice(["and", "and", "or"]), "a": a, "omit_mode": rng.random() < 0.5}
    if k == "ax":
        a = [] if empty else [gen_axis_q(rng, recs, fa) for _ in range(rng.choice([1, 1, 1, 2, 2, 3]))]
        return {"f": "ax", "mode": rng.choice(["and", "and", "or", "exact", "subset"]), "a": a}
    if k == "nx":
        return {"f": "nx", "a": [] if empty else sorted({rng.randint(0, 3) for _ in range(rng.choice([1, 1, 2]))})}
    if k == "sz":
        sizes = [r["size"] for r in recs if r["size"] is not None] or [1]
        return {"f": "sz", "a": [] if empty else sorted({rng.choice(sizes + [1, 7]) for _ in range(rng.choice([1, 1, 2]))})}
    if k in ("ms", "mt", "nv", "nd"):
        fld = {"ms": "measure", "mt": "method", "nv": "ncvar", "nd": "ncdim"}[k]
        pool = [r[fld] for r in recs if r.get(fld) is not None]
        return {"f": k, "a": [] if empty else [gen_value_q(rng, pool) for _ in range(rng.choice([1, 1, 2]))]}
    return {"f": "da"}


def gen_prog(rng, recs, fa):
    prog = []
    form = rng.random()
    nf = rng.choice([1, 1, 1, 2, 2, 3])
    todict = rng.random() < 0.3
    history = rng.random() < 0.35 and not todict
    if form < 0.4:
        # one filter(**kw) call: distinct methods
        fs, seen = [], set()
        for _ in range(nf):
            f = gen_filter(rng, recs, fa)
            if f["f"] in seen:
                continue
            seen.add(f["f"])
            fs.append(f)
        if rng.random() < 0.03:
            fs = []
        prog.append({"k": "F", "todict": todict, "fs": fs})
    elif form < 0.85:
        for i in range(nf):
            f = gen_filter(rng, recs, fa)
            td = todict and i == nf - 1 and f["f"] != "pr"
            prog.append({"k": "M", "todict": td, "fs": [f], "call": rng.random() < 0.3})
    else:
        # mixed: a method call, then a keyword call
        prog.append({"k": "M", "todict": False, "fs": [gen_filter(rng, recs, fa)], "call": False})
        fs, seen = [], set()
        for _ in range(rng.choice([1, 2])):
            f = gen_filter(rng, recs, fa)
            if f["f"] not in seen:
                seen.add(f["f"])
                fs.append(f)
        prog.append({"k": "F", "todict": todict, "fs": fs})
    if rng.random() < 0.02:
        prog = []
        history = True
    if history:
        for _ in range(rng.choice([1, 1, 2])):
            k = rng.choice(["I", "I", "I", "U"])
            prog.append({"k": k, "d": rng.choice([None, None, 1, 1, 2, 3, 0])})
        if rng.random() < 0.25:
            prog.append({"k": "M", "todict": False, "fs": [gen_filter(rng, recs, fa)], "call": False})
    return prog


def gen_acc(rng, recs, fa):
    name = rng.choice(list(ACCESSORS) + ["construct", "construct", "coordinate"])
    ts = ACCESSORS[name]
    scope = [r for r in recs if not ts or r["type"] in ts] or recs
    ids = []
    r = rng.random()
    if r < 0.8:
        ids = [gen_identity_q(rng, scope if rng.random() < 0.85 else recs) for _ in range(rng.choice([1, 1, 1, 2]))]
    flts, seen = [], set()
    for _ in range(rng.choice([0, 0, 0, 1, 1, 2])):
        f = gen_filter(rng, scope, fa, kinds=["key", "pr", "ax", "ax", "nx", "nv", "da", "ms"] + ([] if ts else ["ty", "sz", "nd", "mt"]))
        if f["f"] not in seen:
            seen.add(f["f"])
            flts.append(f)
    return dict(acc=name, ids=ids, flts=flts, **{"def": rng.choice(["none", "val", "exc", "exc"])},
                style=rng.choice(["key", "key", "item", "construct"]))


def gen_dax(rng, recs, fa):
    r = rng.random()
    if r < 0.08:
        ids = []
    elif r < 0.25:
        q = gen_axis_q(rng, recs, fa)
        ids = [q if "p" in q else regex_of(rng, q["s"]) if "s" in q and q["s"] else q]
    else:
        ids, seen = [], set()
        for _ in range(rng.choice([1, 1, 1, 2])):
            q = gen_axis_q(rng, recs, fa)
            if "p" in q or json.dumps(q) in seen:
                continue
            seen.add(json.dumps(q))
            ids.append(q)
    return dict(ids=ids, **{"def": rng.choice(["all", "all", "none", "val", "exc"])}, todict=rng.random() < 0.5)


def _emit(stream, payload):
    """A case, unless it has no documented meaning *and* the shape of a recorded defect
    (there the model, which mirrors the repaired code, has no authority either)."""
    c = mk(stream, payload)
    if "finding-shape" in c.tags and o_expected(c) is None:
        return None
    return c


def gen(rng, tier, n):
    per_field = 40
    done = 0
    while done < n:
        spec = expand_field_spec(gen_field_spec(rng))
        f, f0, fp, recs, fa = get_field(spec)
        m = min(per_field, n - done)
        out = []
        # every construct x every identity string it reports (as many as fit in a third of the field's share)
        pairs = [(r, s) for r in recs for s in r["ids"]]
        rng.shuffle(pairs)
        for r, s in pairs[: m // 3]:
            if rng.random() < 0.7:
                out.append(_emit("C18.sel", dict(field=spec, prog=[{"k": "M", "todict": rng.random() < 0.5, "fs": [{"f": "id", "a": [{"s": s}]}], "call": rng.random() < 0.3}])))
            else:
                name = rng.choice([a for a, ts in ACCESSORS.items() if not ts or r["type"] in ts])
                out.append(_emit("C18.acc", dict(field=spec, acc=name, ids=[{"s": s}], flts=[], **{"def": rng.choice(["none", "exc"])}, style=rng.choice(["key", "construct"]))))
        # the exclusion corner, when the field has it
        keys = {r["key"] for r in recs}
        for r in recs:
            for s in r["ids"]:
                if s in keys and s != r["key"] and len(out) < m:
                    out.append(_emit("C18.sel", dict(field=spec, prog=[{"k": "M", "todict": False, "fs": [{"f": "id", "a": [{"s": s}]}], "call": False}])))
        tries = 0
        while len(out) < m and tries < 10 * m:
            tries += 1
            r = rng.random()
            if r < 0.66:
                c = _emit("C18.sel", dict(field=spec, prog=gen_prog(rng, recs, fa)))
            elif r < 0.9:
                c = _emit("C18.acc", dict(field=spec, **gen_acc(rng, recs, fa)))
            else:
                c = _emit("C18.dax", dict(field=spec, **gen_dax(rng, recs, fa)))
            out.append(c)
        out = [c for c in out if c is not None]
        for c in out:
            yield c
        done += max(len(out), 1)


# ---------------------------------------------------------------- shrinking
def _variants(p):
    """Smaller payloads: fewer steps / filters / values, fewer added constructs and mutations."""
    def without(lst, i):
        return lst[:i] + lst[i + 1:]
    for key in ("prog", "flts", "ids"):
        if key in p:
            for i in range(len(p[key])):
                q = dict(p); q[key] = without(p[key], i); yield q
    for i, s in enumerate(p.get("prog", [])):
        if s["k"] == "F" and len(s["fs"]) > 1:
            for j in range(len(s["fs"])):
                q = dict(p); q["prog"] = list(p["prog"]); q["prog"][i] = dict(s, fs=without(s["fs"], j)); yield q
        if s["k"] in ("F", "M"):
            for j, f in enumerate(s["fs"]):
                if isinstance(f.get("a"), list) and len(f["a"]) > 1:
                    for t in range(len(f["a"])):
                        fs = list(s["fs"]); fs[j] = dict(f, a=without(f["a"], t))
                        q = dict(p); q["prog"] = list(p["prog"]); q["prog"][i] = dict(s, fs=fs); yield q
    fld = p["field"]
    for key in ("add", "muts"):
        for i in range(len(fld[key])):
            q = dict(p); q["field"] = dict(fld, **{key: without(fld[key], i)}); yield q


def shrink(c, run):
    sig = classify(c)
    if sig and sig.startswith("unexplained:field-changed"):
        return c
    best = c
    budget = 150
    improved = True
    while improved and budget > 0:
        improved = False
        base = {k: v for k, v in best.payload.items() if k not in ("recs", "fa")}
        for q in _variants(base):
            budget -= 1
            if budget <= 0:
                break
            try:
                _fields.clear()      # every candidate on a freshly built field: the replay must reproduce it
                d = mk(best.stream, q)
                d.impl_out = impl(d)
                d.oracle_fail = oracle(d)
            except Exception:
                continue
            if d.oracle_fail and classify(d) == sig:
                best, improved = d, True
                break
    if best is not c and best.line is not None:
        try:
            best.model_out = fw.model_run([best.line])[0]
        except Exception:
            pass
    return best


# =====================================================================
# known-finding signatures (computed from the input alone)
# =====================================================================
def _bare(s):
    return not any(ch in s for ch in "=:%")


def _identity_lists(p):
    """Every list of values that reaches _filter_by_identity in this case, with the records in scope."""
    out = []
    if p.get("ids"):
        out.append(p["ids"])
    fls = list(p.get("flts", []))
    for s in p.get("prog", []):
        fls += s.get("fs", [])
    for f in fls:
        if f["f"] == "id" and f["a"]:
            out.append(f["a"])
        if f["f"] == "ax":
            out += [[v] for v in f["a"]]
    if "ids" in p and "acc" not in p:   # dax: every id also goes alone through the coordinate route
        out += [[v] for v in p["ids"]]
    return out


def _known(c):
    p = c.payload
    recs = p.get("recs") or []
    keys = {r["key"] for r in recs}
    # an identity equal to another construct's key, and asked for
    for qs in _identity_lists(p):
        for q in qs:
            if "s" in q:
                s = q["s"]
                k = s[4:] if s.startswith("key%") else s
                if k in keys and any(s in r["ids"] and r["key"] != k for r in recs):
                    return "identity-equal-to-another-constructs-key"
    # short iteration: all values bare, and some construct reports one of them not first
    for qs in _identity_lists(p):
        if all("s" in q and _bare(q["s"]) for q in qs):
            want = {q["s"] for q in qs}
            for r in recs:
                if any(s in want for s in r["ids"][1:]) and not (r["ids"] and r["ids"][0] in want):
                    return "short-iteration-bare-identity-not-first"
    prog = p.get("prog")
    if prog is not None:
        applied = 0
        for i, s in enumerate(prog):
            if s["k"] == "I" and s["d"] and applied == 0 and str(c.impl_out) == "raised:IndexError":
                return "inverse-filter-depth-with-no-filter-applied"
            if s["k"] in ("F", "M"):
                applied += len(s["fs"])
            elif s["k"] == "I":
                applied += 1
            elif s["k"] == "U":
                applied = 0 if s["d"] is None else max(0, applied - s["d"])
        for i, s in enumerate(prog):
            if s["k"] == "F" and not s["todict"] and any(_type_route(f) for f in s["fs"][1:]) \
                    and any(t["k"] in ("I", "U") and t["d"] for t in prog[i + 1:]):
                return "filter-kwargs-type-route-records-wrong-prefiltered"
        first = True
        for s in prog:
            if s["k"] in ("F", "M"):
                if not first:
                    for f in s["fs"]:
                        if f["f"] == "ax" and any(o_resolve(recs, p.get("fa"), v)[1] == "daid" for v in f["a"]):
                            return "axis-identity-looked-up-in-filtered-collection"
                if s["fs"] or s["k"] == "M":
                    first = False
            elif s["k"] == "I":
                first = False
    return None


def classify(c):
    """Signature of a recorded defect, else a coarse bucket (so that one regression is
    reported once, not once per case); buckets never coincide with recorded signatures."""
    sig = _known(c)
    if sig:
        return sig
    if c.impl_out is None and c.oracle_fail is None:
        return None
    if str(c.oracle_fail).startswith("the field was changed"):
        return "unexplained:field-changed-by-query"
    p = c.payload
    if c.stream == "C18.sel":
        last = [s for s in p["prog"]][-1:] or [{"k": "none"}]
        what = last[0]["fs"][-1]["f"] if last[0].get("fs") else last[0]["k"]
    elif c.stream == "C18.acc":
        what = p["acc"]
    else:
        what = "domain_axes" if p["def"] == "all" else "domain_axis"
    kind = "raised" if str(c.impl_out).startswith("raised") and p.get("def") != "exc" else "wrong-result"
    return f"unexplained:{c.stream}:{kind}:{what}"


def _type_route(f):
    return f["f"] in ("ty", "da") or (f["f"] in ("nx", "sz", "ax") and not f["a"])
