"""C18 — construct selection agrees with construct identities and keys.

Streams (real cfdm vs Lean model vs independent oracle, unless stated)
  C18.sel  a program on ``f.constructs``: ``filter(**kw)`` / ``filter_by_*`` chains of
           up to three filters, ``inverse_filter(depth)``, ``unfilter(depth)``,
           ``todict`` on/off                                   -> sorted selected keys
  C18.acc  ``f.construct / construct_key / construct_item / coordinate /
           dimension_coordinate / auxiliary_coordinate / cell_measure / ...`` with
           identities (positional or keyword), filter keywords and ``default``
                                                               -> key | default | raised
           with def=all the plural accessor (``f.coordinates(...)`` ...) -> keys
  C18.dax  ``f.domain_axes(*ids, **filter_kw)`` / ``f.domain_axis(*ids, default=, **filter_kw)``
  C18.cm   ``f.cell_methods(*ids, **filter_kw)`` / ``f.cell_method(...)`` (identities, keys and
           the extra route through a domain axis)
  C18.dak  ``f.domain_axis_key(*ids, default=, **filter_kw)``
  C18.err  the stated TypeError / ValueError cases           (implementation vs table, no model)
  C18.idn  ``c.identity()`` is one of ``c.identities()`` and selects ``c``   (no model)
All of them on the field and (``on="domain"``) on its Domain.

Every field is abstracted, through public accessors only (``c.identities()``,
``c.properties()``, ``f.constructs.data_axes()``, ``nc_get_variable`` ...), into the
construct records of ``lean/Cfdm/Model/Select.lean``; the same records go to the
model (protocol line) and to the oracle, which evaluates the membership predicates
of the property statement directly (Python ``re`` for patterns, sets for chains).
After every query the field must still equal its pristine copy and report the same
keys / axes / identities.
"""
import json
import re

from .. import fw
from ..fw import Case

REQUIRED = [
    "C18_short_flag_is_conjunction",
    "C18_identity_order_independent",
    "C18_identity_perm",
    "C18_inverse_of_inverse",
    "C18_plural_accessor",
    "C18_domain_axis_key",
    "C18_domain_axes_sound",
    "C18_domain_axes_complete",
    "C18_domain_axes_single",
    "C18_domain_axes_kw_old_counterexample",
    "C18_cell_methods_sound",
    "C18_cell_methods_complete",
    "C18_cell_methods_old_counterexample",
    "C18_short_iteration_loses_nothing",
    "C18_identity_sound_complete",
    "C18_identity_exact",
    "C18_identity_sound_complete_not_all_keys",
    "C18_filter_sound_complete",
    "C18_chain_intersection",
    "C18_chain_order_independent",
    "C18_todict_same_members",
    "C18_unfilter_chain",
    "C18_unfilter_returns_base",
    "C18_inverse_complement",
    "C18_unique_accessor",
    "C18_filter_subcollection",
    "C18_identity_old_counterexample",
    "C18_bytype_prefiltered_old_counterexample",
    "C18_inverse_depth_old_counterexample",
    "C18_axis_identity_old_counterexample",
    "C18_foreign_key_identity_counterexample",
]
BUDGET = {"quick": 24000, "thorough": 300000}
QUICK_JOBS = 4
TIME_LIMIT = {"quick": 170, "thorough": 1300}
RULE = (
    "fields = cfdm.example_field(0..11), unchanged and mutated (string and numeric properties / netCDF names / measures / "
    "bounds properties set and deleted, constructs of every type added), fields built ab initio with every construct "
    "type, duplicate identities, constructs with no identity, ncvar/ncdim names, size-1 axes, cell measures / topologies "
    "with a standard_name, bounds with their own standard_name, cell methods with 0 / 1 / 2 axes, a standard-name axis or "
    "no axes, numeric scalar and 1-d array properties of several data types; each field also through its Domain; queries = "
    "every identity string a construct reports, keys, key%keys, non-matching strings, literal / ^prefix / alternation "
    "regular expressions, integers, numbers and arrays (same / other data type, shape, value); ordered pairs and triples "
    "of identities in mixed forms in every order with a construct matched only through a non-first, non-bare value; all "
    "filter_by_* methods (also cell, connectivity) and modes (property and/or, axis and/or/exact/subset with the same axis "
    "named several times, empty argument lists), filter(**kw) and method chains of <= 3 filters, chains with an EMPTY "
    "intermediate collection followed by unfilter()/unfilter(n)/inverse_filter()/inverse_filter(n), inverse_filter(depth) "
    "directly after an inverse filter, todict on/off; single-construct and plural accessors (positional or keyword "
    "identities, no argument at all) with default None / value / exception, domain_axes / domain_axis / cell_methods / "
    "cell_method with identities and filter keywords, domain_axis_key, the stated TypeError/ValueError cases.  "
    "non-trivial = the selected set is a non-empty proper subset of the constructs (sel, dax, cm, plural) or a construct / "
    "key is returned (acc, dak) or a stated error is demanded (err); distinct = distinct (field spec, target, query)"
)
ASSUMPTIONS = [
    "identities, keys, measures, methods and netCDF names are strings; property values are strings or numeric scalars / 1-d arrays tagged with their numpy data type (floats are multiples of 1/4 so that the tolerance of _equals plays no role; masked, n-d and string arrays are not generated); regular expressions are restricted to alternations of literals (re.search) and ^literals (prefix)",
    "filter_by_data / the empty-argument forms select by construct *type* (could have data), as the code does; actual presence of data is not modelled",
    "axis resolution (_filter_convert_to_domain_axis) is shared between the Lean model and the Lean spec; its independent statement is the Python oracle",
    "inverse_filter(depth) directly after another inverse_filter has a verdict only for depth 1 after a single inverse (C18_inverse_of_inverse); other depths are documented inconsistently: model-vs-implementation only",
    "domain_axes / cell_methods with several values: the docstring ('additionally') and the code (second route only for values that hit nothing) differ when a value names a domain axis directly and also stands for another one; the oracle accepts any result between the two readings there (lower/upper sets, C18_domain_axes_sound/_complete), the model still pins the implementation; cell_methods cases of that kind are not generated (the misses are passed on as a set, order = hash order)",
    "domain_axis_identity (the identity OF an axis, not a selection) and the `cached` keyword are outside the check",
    "exclusion: every value of a call is the key of a construct and one of them is also an identity of another construct (generated rarely, recorded as a known finding; with any non-key value in the call selection is proved and checked exact)",
]

ARRAY = ("auxiliary_coordinate", "dimension_coordinate", "domain_ancillary", "field_ancillary",
         "cell_measure", "domain_topology", "cell_connectivity")
TYPES = ARRAY + ("domain_axis", "coordinate_reference", "cell_method")
PLURAL = {
    "construct": "constructs", "coordinate": "coordinates", "dimension_coordinate": "dimension_coordinates",
    "auxiliary_coordinate": "auxiliary_coordinates", "cell_measure": "cell_measures",
    "domain_ancillary": "domain_ancillaries", "field_ancillary": "field_ancillaries",
    "coordinate_reference": "coordinate_references", "domain_topology": "domain_topologies",
    "cell_connectivity": "cell_connectivities",
}
ACCESSORS = {
    "construct": (), "construct_key": (), "construct_item": (),
    "coordinate": ("dimension_coordinate", "auxiliary_coordinate"),
    "dimension_coordinate": ("dimension_coordinate",),
    "auxiliary_coordinate": ("auxiliary_coordinate",),
    "cell_measure": ("cell_measure",),
    "domain_ancillary": ("domain_ancillary",),
    "field_ancillary": ("field_ancillary",),
    "coordinate_reference": ("coordinate_reference",),
    "domain_topology": ("domain_topology",),
    "cell_connectivity": ("cell_connectivity",),
}
_cfdm = None


def cfdm():
    global _cfdm
    if _cfdm is None:
        import cfdm as m
        _cfdm = m
    return _cfdm


# =====================================================================
# fields: spec -> real field -> records
# =====================================================================
SN = ["latitude", "longitude", "time", "air_temperature", "cell_area", "foo", "a=b", "x:y", "p%q", "grid latitude"]
LN = ["lat", "Height", "x y", "foo", "a=b", "time"]
NCV = ["lat", "y", "time", "v1", "foo", "a_bnds"]
NCD = ["y", "x", "dim0", "time", "foo"]
PROPN = ["units", "long_name", "standard_name", "axis", "cf_role", "foo", "positive", "comment"]
PROPV = ["m", "K", "X", "T", "up", "bar", "foo", "degrees north", "a=b", "timeseries_id"]
# numeric property values: [dtype, scalar?, values (floats scaled by 4), native Python object?]
NUMV = [
    ["int64", True, [90], True], ["int64", True, [-90], True], ["int64", True, [0], True], ["int64", True, [90], False],
    ["float64", True, [360], True], ["float64", True, [2], True], ["float64", True, [-5], False],
    ["int32", True, [90], False], ["float32", True, [2], False], ["bool", True, [1], True],
    ["int64", False, [1, 2, 4], False], ["int64", False, [1, 2, 4], True], ["int64", False, [1, 2], True],
    ["int64", False, [90], False], ["float64", False, [2, 6], False], ["int32", False, [1, 2, 4], False],
    ["float64", False, [4, 8, 16], True],
]
NUMP = ["valid_max", "valid_min", "flag_values", "scale_factor", "foo"]
MEAS = ["area", "volume", "foo"]
METH = ["mean", "maximum", "point", "foo"]
CELLS = ["face", "edge", "point"]


def gen_props(rng, allow_empty=True):
    p = {}
    r = rng.random()
    if r < 0.55:
        p["standard_name"] = rng.choice(SN)
    if rng.random() < 0.35:
        p["long_name"] = rng.choice(LN)
    if rng.random() < 0.3:
        p["units"] = rng.choice(PROPV)
    if rng.random() < 0.15:
        p["axis"] = rng.choice(["X", "Y", "T", "Z"])
    if rng.random() < 0.1:
        p["cf_role"] = rng.choice(["timeseries_id", "foo"])
    if rng.random() < 0.15:
        p[rng.choice(["foo", "comment", "positive"])] = rng.choice(PROPV)
    if rng.random() < 0.12:
        p[rng.choice(NUMP)] = {"n": rng.choice(NUMV)}
    if not allow_empty and not p:
        p["long_name"] = rng.choice(LN)
    return p


def py_num(n):
    """The Python / numpy object of a numeric value spec [dtype, scalar, values, native]."""
    import numpy as np
    dt, sc, vals = n[0], n[1], n[2]
    native = n[3] if len(n) > 3 else False
    kind = np.dtype(dt).kind
    xs = [v / 4 for v in vals] if kind == "f" else [bool(v) for v in vals] if kind == "b" else list(vals)
    if sc:
        if native and dt in ("int64", "float64", "bool"):
            return xs[0]
        return np.dtype(dt).type(xs[0])
    if native and dt in ("int64", "float64"):
        return xs
    return np.array(xs, dtype=dt)


def canon_num(v):
    """[dtype, scalar, values] of a non-string property value, or None if outside the abstraction."""
    import numpy as np
    a = np.asanyarray(v)
    if np.ma.isMA(a) or a.ndim > 1 or a.dtype.kind not in "iufb":
        return None
    xs = a.reshape(-1).tolist()
    if a.dtype.kind == "f":
        ys = [x * 4 for x in xs]
        if any(y != int(y) for y in ys):
            return None
        xs = [int(y) for y in ys]
    else:
        xs = [int(x) for x in xs]
    return [a.dtype.name, a.ndim == 0, xs]


def py_props(props):
    return {n: (py_num(v["n"]) if isinstance(v, dict) else v) for n, v in props.items()}


def gen_construct(rng, t, naxes_avail, keys_so_far):
    """Spec of one construct to add.  Axes are indices into the field's domain axes."""
    s = {"t": t}
    if t in ARRAY:
        if t == "dimension_coordinate" or t in ("domain_topology", "cell_connectivity"):
            k = 1
        else:
            k = rng.choice([1, 1, 1, 2, 2, 3, 0]) if t != "auxiliary_coordinate" else rng.choice([1, 1, 1, 2, 2, 3])
        k = min(k, naxes_avail)
        if k == 0 and t in ("dimension_coordinate", "auxiliary_coordinate", "domain_topology", "cell_connectivity"):
            return None
        s["axes"] = rng.sample(range(naxes_avail), k)
        s["props"] = gen_props(rng) if rng.random() < 0.85 else {}
        s["ncvar"] = rng.choice(NCV) if rng.random() < 0.4 else None
        s["data"] = rng.random() < 0.3
        if t in ("dimension_coordinate", "auxiliary_coordinate", "domain_ancillary") and rng.random() < 0.35:
            b = {"props": {}, "ncvar": rng.choice(NCV) if rng.random() < 0.5 else None}
            if rng.random() < 0.4:
                b["props"]["standard_name"] = rng.choice(SN)
            if rng.random() < 0.2:
                b["props"]["long_name"] = rng.choice(LN)
            s["bounds"] = b
        if t == "cell_measure":
            s["measure"] = rng.choice(MEAS) if rng.random() < 0.8 else None
        if t == "domain_topology":
            s["cell"] = rng.choice(CELLS) if rng.random() < 0.8 else None
        if t == "cell_connectivity":
            s["connectivity"] = rng.choice(["edge", "node"]) if rng.random() < 0.8 else None
        if keys_so_far and rng.random() < 0.02:
            # exclusion corner: an identity that is another construct's key
            s["props"]["standard_name"] = rng.choice(keys_so_far)
    elif t == "cell_method":
        s["method"] = rng.choice(METH) if rng.random() < 0.9 else None
        r = rng.random()
        if r < 0.07:
            s["axes"] = None                     # no axes at all: get_axes(None) is None
        elif r < 0.14:
            s["axes"] = ["area"]                 # a standard name, not a domain axis
        else:
            s["axes"] = rng.sample(range(naxes_avail), min(rng.choice([1, 1, 1, 1, 2, 0]), naxes_avail))
    elif t == "coordinate_reference":
        s["sn"] = rng.choice(SN[:6]) if rng.random() < 0.4 else None
        s["gm"] = rng.choice(["rotated_latitude_longitude", "latitude_longitude"]) if rng.random() < 0.6 else None
        s["ncvar"] = rng.choice(NCV) if rng.random() < 0.5 else None
    return s


def gen_field_spec(rng):
    r = rng.random()
    spec = {"base": None, "axes": [], "data_axes": None, "add": [], "muts": []}
    if r < 0.45:
        spec["base"] = rng.randrange(12)
        n_add = rng.choice([0, 0, 1, 2, 4])
        n_mut = rng.choice([0, 0, 1, 3, 6])
        new_axes = rng.choice([0, 0, 1])
    else:
        n_add = rng.randint(2, 14)
        n_mut = rng.choice([0, 0, 2])
        new_axes = rng.randint(1, 4)
    for _ in range(new_axes):
        spec["axes"].append({"size": rng.choice([1, 1, 2, 3, 4, 4, 5]), "ncdim": rng.choice(NCD) if rng.random() < 0.5 else None})
    if spec["base"] is None and rng.random() < 0.7:
        k = rng.randint(0, new_axes)
        spec["data_axes"] = rng.sample(range(new_axes), k)
    spec["_n_add"] = n_add
    spec["_n_mut"] = n_mut
    spec["_seed"] = rng.randrange(1 << 30)
    return spec


def expand_field_spec(spec):
    """Fill `add` and `muts` (needs the base field to know keys); deterministic in _seed."""
    if "_seed" not in spec:
        return spec
    spec = dict(spec)
    rng = fw.rng_for(spec.pop("_seed"), "C18field")
    n_add, n_mut = spec.pop("_n_add"), spec.pop("_n_mut")
    C = cfdm()
    if spec["base"] is not None:
        f = C.example_field(spec["base"])
        keys = list(f.constructs.todict())
        ctype = {k: f.constructs.construct_type(k) for k in keys}
        nax = len(f.domain_axes(todict=True)) + len(spec["axes"])
    else:
        keys, ctype, nax = [], {}, len(spec["axes"])
    add = []
    for _ in range(n_add):
        t = rng.choice(TYPES[:7] + TYPES[:7] + ("cell_method", "cell_method", "cell_method", "coordinate_reference", "cell_measure", "auxiliary_coordinate"))
        s = gen_construct(rng, t, nax, keys)
        if s is not None:
            add.append(s)
    muts = []
    for _ in range(n_mut):
        if not keys:
            break
        k = rng.choice(keys)
        t = ctype[k]
        op = rng.choice(["setp", "setp", "delp", "ncvar", "ncdim", "measure", "bsetp", "bncvar", "setn"])
        if op == "setn" and t in ARRAY:
            muts.append(["setp", k, rng.choice(NUMP), {"n": rng.choice(NUMV)}])
        elif op == "setp" and t in ARRAY:
            muts.append(["setp", k, rng.choice(PROPN), rng.choice(SN + PROPV)])
        elif op == "delp" and t in ARRAY:
            muts.append(["delp", k, rng.choice(["standard_name", "long_name", "units"])])
        elif op == "ncvar" and t in ARRAY + ("coordinate_reference",):
            muts.append(["ncvar", k, rng.choice(NCV + [None])])
        elif op == "ncdim" and t == "domain_axis":
            muts.append(["ncdim", k, rng.choice(NCD + [None])])
        elif op == "measure" and t == "cell_measure":
            muts.append(["measure", k, rng.choice(MEAS + [None])])
        elif op == "bsetp" and t in ("dimension_coordinate", "auxiliary_coordinate", "domain_ancillary"):
            muts.append(["bsetp", k, rng.choice(["standard_name", "long_name"]), rng.choice(SN)])
        elif op == "bncvar" and t in ("dimension_coordinate", "auxiliary_coordinate", "domain_ancillary"):
            muts.append(["bncvar", k, rng.choice(NCV + [None])])
    spec["add"] = add
    spec["muts"] = muts
    return spec


def build_field(spec):
    import numpy as np
    C = cfdm()
    f = C.example_field(spec["base"]) if spec["base"] is not None else C.Field()
    new = []
    for a in spec["axes"]:
        d = C.DomainAxis(a["size"])
        if a["ncdim"] is not None:
            d.nc_set_dimension(a["ncdim"])
        new.append(f.set_construct(d))
    if spec["base"] is None and spec["data_axes"] is not None:
        ax = [new[i] for i in spec["data_axes"]]
        shape = [spec["axes"][i]["size"] for i in spec["data_axes"]]
        f.set_data(C.Data(np.zeros(shape)), axes=ax)
        f.set_property("standard_name", "air_temperature")
    dak = list(f.domain_axes(todict=True))
    sizes = {k: v.get_size(None) for k, v in f.domain_axes(todict=True).items()}
    for m in spec["muts"]:
        op, key = m[0], m[1]
        c = f.constructs.get(key)
        if c is None:
            continue
        if op == "setp":
            c.set_property(m[2], py_num(m[3]["n"]) if isinstance(m[3], dict) else m[3])
        elif op == "delp":
            c.del_property(m[2], None)
        elif op == "ncvar":
            c.nc_del_variable(None) if m[2] is None else c.nc_set_variable(m[2])
        elif op == "ncdim":
            c.nc_del_dimension(None) if m[2] is None else c.nc_set_dimension(m[2])
        elif op == "measure":
            c.del_measure(None) if m[2] is None else c.set_measure(m[2])
        elif op in ("bsetp", "bncvar"):
            b = c.get_bounds(None)
            if b is None:
                continue
            if op == "bsetp":
                b.set_property(m[2], m[3])
            else:
                b.nc_del_variable(None) if m[2] is None else b.nc_set_variable(m[2])
    cls = {
        "dimension_coordinate": C.DimensionCoordinate, "auxiliary_coordinate": C.AuxiliaryCoordinate,
        "cell_measure": C.CellMeasure, "domain_ancillary": C.DomainAncillary, "field_ancillary": C.FieldAncillary,
        "domain_topology": C.DomainTopology, "cell_connectivity": C.CellConnectivity,
    }
    for s in spec["add"]:
        t = s["t"]
        if t in ARRAY:
            c = cls[t](properties=py_props(s["props"]))
            axes = [dak[i] for i in s["axes"]]
            shape = [sizes[a] or 1 for a in axes]
            if t in ("domain_topology", "cell_connectivity"):
                if s["data"]:
                    c.set_data(C.Data(np.zeros(shape + [3], dtype=int)))
            elif s["data"]:
                c.set_data(C.Data(np.zeros(shape)))
            if s.get("ncvar") is not None:
                c.nc_set_variable(s["ncvar"])
            if s.get("bounds") is not None:
                b = C.Bounds(properties=dict(s["bounds"]["props"]))
                if s["data"]:
                    b.set_data(C.Data(np.zeros(shape + [2])))
                if s["bounds"]["ncvar"] is not None:
                    b.nc_set_variable(s["bounds"]["ncvar"])
                c.set_bounds(b)
            if s.get("measure") is not None:
                c.set_measure(s["measure"])
            if s.get("cell") is not None:
                c.set_cell(s["cell"])
            if s.get("connectivity") is not None:
                c.set_connectivity(s["connectivity"])
            f.set_construct(c, axes=axes)
        elif t == "cell_method":
            if s["axes"] is None:
                c = C.CellMethod()
            else:
                c = C.CellMethod(axes=[a if isinstance(a, str) else dak[a] for a in s["axes"]])
            if s["method"] is not None:
                c.set_method(s["method"])
            f.set_construct(c)
        elif t == "coordinate_reference":
            par = {}
            if s["sn"] is not None:
                par["standard_name"] = s["sn"]
            if s["gm"] is not None:
                par["grid_mapping_name"] = s["gm"]
            c = C.CoordinateReference(coordinate_conversion=C.CoordinateConversion(parameters=par))
            if s["ncvar"] is not None:
                c.nc_set_variable(s["ncvar"])
            f.set_construct(c)
    # property values outside the abstraction (strings, numeric scalars and 1-d arrays) are dropped
    for c in f.constructs.todict().values():
        if hasattr(c, "properties"):
            for n, v in list(c.properties().items()):
                if not isinstance(v, str) and canon_num(v) is None:
                    c.del_property(n)
            b = c.get_bounds(None) if hasattr(c, "get_bounds") else None
            if b is not None:
                for n, v in list(b.properties().items()):
                    if not isinstance(v, str):
                        b.del_property(n)
    return f


def abstract(f):
    """The construct records, through public accessors only."""
    recs = []
    data_axes = f.constructs.data_axes()
    for key, c in f.constructs.todict().items():
        t = f.constructs.construct_type(key)
        ids = list(c.identities())
        npre = 0
        for getter in ("get_measure", "get_cell", "get_connectivity"):
            if hasattr(c, getter) and getattr(c, getter)(None) is not None:
                npre = 1
        b = c.get_bounds(None) if hasattr(c, "get_bounds") else None
        npost = 0
        if b is not None:
            bi = list(b.identities())
            npost = len(bi)
            if npost and ids[-npost:] != bi:
                raise fw.HarnessError(f"identities of {key} do not end with its bounds' identities")
        r = dict(
            key=key, type=t, ids=ids, npre=npre, npost=npost,
            props={n: (v if isinstance(v, str) else canon_num(v)) for n, v in c.properties().items()}
            if hasattr(c, "get_property") else None,
            axes=list(data_axes[key]) if key in data_axes else None,
            cmaxes=(None if c.get_axes(None) is None else list(c.get_axes())) if t == "cell_method" else None,
            size=c.get_size(None) if t == "domain_axis" else None,
            measure=c.get_measure(None) if hasattr(c, "get_measure") else None,
            method=c.get_method(None) if hasattr(c, "get_method") else None,
            cell=c.get_cell(None) if hasattr(c, "get_cell") else None,
            connectivity=c.get_connectivity(None) if hasattr(c, "get_connectivity") else None,
            has_ncvar=hasattr(c, "nc_get_variable"),
            ncvar=c.nc_get_variable(None) if hasattr(c, "nc_get_variable") else None,
            has_ncdim=hasattr(c, "nc_get_dimension"),
            ncdim=c.nc_get_dimension(None) if hasattr(c, "nc_get_dimension") else None,
        )
        recs.append(r)
    fa = f.get_data_axes(default=None) if hasattr(f, "get_data_axes") else None
    return recs, (list(fa) if fa is not None else None)


def fingerprint(f):
    data_axes = f.constructs.data_axes()
    return sorted(
        (k, f.constructs.construct_type(k), tuple(c.identities()), tuple(data_axes.get(k, ("-",))))
        for k, c in f.constructs.todict().items()
    )


_fields = {}


def get_field(spec, on=None):
    """(field or its domain, pristine copy, fingerprint, records, field axes), cached per process."""
    k = json.dumps(spec, sort_keys=True) + (on or "")
    if k not in _fields:
        if len(_fields) > 8:
            _fields.pop(next(iter(_fields)))
        f = build_field(spec)
        if on == "domain":
            f = f.get_domain()
        recs, fa = abstract(f)
        _fields[k] = (f, f.copy(), fingerprint(f), recs, fa)
    return _fields[k]


# =====================================================================
# encoding for the model
# =====================================================================
def hx(s):
    return s.encode("utf-8").hex()


def enc_list(xs, f=lambda x: x):
    return "." if not xs else ",".join(f(x) for x in xs)


def enc_rec(r):
    ids = r["ids"]
    pre = ids[: r["npre"]]
    post = ids[len(ids) - r["npost"]:] if r["npost"] else []
    body = ids[r["npre"]: len(ids) - r["npost"]]
    props = "-" if r["props"] is None else enc_list(sorted(r["props"].items()), lambda kv: hx(kv[0]) + ":" + enc_pv(kv[1]))

    def opt(v):
        return "-" if v is None else "s" + hx(v)

    return "|".join([
        r["key"], r["type"], enc_list(pre, hx), enc_list(body, hx), enc_list(post, hx), props,
        "-" if r["axes"] is None else enc_list(r["axes"]),
        "-" if r["size"] is None else str(r["size"]),
        opt(r["measure"]), opt(r["method"]),
        opt(r["ncvar"]) if r["has_ncvar"] else "!",
        opt(r["ncdim"]) if r["has_ncdim"] else "!",
        "-" if r.get("cmaxes") is None else enc_list(r["cmaxes"], hx),
        opt(r.get("cell")), opt(r.get("connectivity")),
    ])


def enc_num(n):
    return f"{n[0]}/{int(bool(n[1]))}/" + "_".join(str(v) for v in n[2])


def enc_pv(v):
    return "s" + hx(v) if isinstance(v, str) else "n" + enc_num(v)


def enc_q(q):
    if "s" in q:
        return "s:" + hx(q["s"])
    if "i" in q:
        return "i:" + str(q["i"])
    if "n" in q:
        return "n:" + enc_num(q["n"])
    return "p:" + "/".join(("^" if a else "") + hx(l) for a, l in q["p"])


def enc_qs(qs):
    return ",".join(enc_q(q) for q in qs)


def enc_filter(f):
    k = f["f"]
    if k == "da":
        return "da"
    if k == "ty":
        return "ty~" + ",".join(f["a"])
    if k in ("nx", "sz"):
        return k + "~" + ",".join(str(n) for n in f["a"])
    if k == "pr":
        return "pr~" + f["mode"] + "~" + ",".join(hx(n) + ":" + ("-" if v is None else enc_q(v)) for n, v in f["a"])
    if k == "ax":
        return "ax~" + f["mode"] + "~" + enc_qs(f["a"])
    return k + "~" + enc_qs(f["a"])


def enc_step(s):
    k = s["k"]
    if k == "F":
        return f"F{int(s['todict'])}[" + ";".join(enc_filter(f) for f in s["fs"]) + "]"
    if k == "M":
        return f"M{int(s['todict'])}[" + enc_filter(s["fs"][0]) + "]"
    return ("I" if k == "I" else "U") + ("_" if s["d"] is None else str(s["d"]))


def enc_ctx(recs, fa):
    return "cs=" + ("." if not recs else ";".join(enc_rec(r) for r in recs)) + " fa=" + ("-" if fa is None else enc_list(fa))


# =====================================================================
# python objects for cfdm
# =====================================================================
def py_q(q):
    if "s" in q:
        return q["s"]
    if "i" in q:
        return q["i"]
    if "n" in q:
        return py_num(q["n"])
    return re.compile("|".join(("^" if a else "") + re.escape(l) for a, l in q["p"]))


METHOD = {"id": "filter_by_identity", "ty": "filter_by_type", "key": "filter_by_key", "pr": "filter_by_property",
          "ax": "filter_by_axis", "nx": "filter_by_naxes", "sz": "filter_by_size", "ms": "filter_by_measure",
          "mt": "filter_by_method", "nv": "filter_by_ncvar", "nd": "filter_by_ncdim", "da": "filter_by_data",
          "cl": "filter_by_cell", "cn": "filter_by_connectivity"}


def py_args(f):
    k = f["f"]
    if k == "ty":
        return tuple(f["a"])
    if k in ("nx", "sz"):
        return tuple(f["a"])
    if k == "pr":
        return {n: (None if v is None else py_q(v)) for n, v in f["a"]}
    if k == "da":
        return True
    return tuple(py_q(q) for q in f["a"])


def kwargs_for(fs):
    kw = {}
    for f in fs:
        kw[METHOD[f["f"]]] = py_args(f)
        if f["f"] == "ax":
            kw["axis_mode"] = f["mode"]
        if f["f"] == "pr":
            kw["property_mode"] = f["mode"]
    return kw


def call_method(coll, f, todict, call_form=False):
    k = f["f"]
    a = py_args(f)
    if k == "pr":
        pos = () if (f["mode"] == "and" and f.get("omit_mode")) else (f["mode"],)
        return coll.filter_by_property(*pos, **a)
    if k == "da":
        return coll.filter_by_data(todict=todict)
    if k == "ax":
        return coll.filter_by_axis(*a, axis_mode=f["mode"], todict=todict)
    if k == "id" and call_form and not todict and a:
        return coll(*a)     # c(*identities) is filter_by_identity; c() would be filter() with no history entry
    return getattr(coll, METHOD[k])(*a, todict=todict)


# =====================================================================
# the independent oracle (membership predicates)
# =====================================================================
def o_match(q, v):
    if "s" in q:
        return q["s"] == v
    if "i" in q or "n" in q:
        return False
    return py_q(q).search(v) is not None


def o_pmatch(q, v):
    """A property value `v` (string, or [dtype, scalar, values]) against a query value: strings and
    patterns as everywhere else; a number only equals the same number(s) of the same type and shape."""
    if isinstance(v, str):
        return o_match(q, v)
    if "i" in q:
        return v == ["int64", True, [q["i"]]]
    if "n" in q:
        return v == list(q["n"][:3])
    return False


_HEAD_SHORT = False     # only inside _as_head(): what the open short-iteration finding makes of the same call


def o_identity(r, qs):
    ids = r["ids"]
    if _HEAD_SHORT and all("s" in q and not any(ch in q["s"] for ch in "=:%") for q in qs):
        ids = ids[:1]
    for q in qs:
        if "s" in q and (q["s"] == r["key"] or q["s"] == "key%" + r["key"]):
            return True
        if any(o_match(q, s) for s in ids):
            return True
    return False


def _as_head(c):
    """The output predicted for HEAD's short iteration (Container._iter stops after the very first
    identity when every value is a bare string) - used only to recognise the recorded finding."""
    global _HEAD_SHORT
    _HEAD_SHORT = True
    try:
        return o_expected(c)
    finally:
        _HEAD_SHORT = False


def o_resolve(recs, fa, v, check_ids=True):
    """The domain axis a value stands for (docstring of filter_by_axis); (axis|None, route)."""
    das = [r for r in recs if r["type"] == "domain_axis"]
    if "s" in v and any(r["key"] == v["s"] for r in das):
        return v["s"], "key"
    if fa and "i" in v:
        n = len(fa)
        return (fa[v["i"]] if -n <= v["i"] < n else None), "pos"
    coords = [r for r in recs if r["type"] in ("dimension_coordinate", "auxiliary_coordinate")
              and r["axes"] is not None and len(r["axes"]) == 1 and o_identity(r, [v])]
    if coords:
        ax = {r["axes"][0] for r in coords}
        return (ax.pop() if len(ax) == 1 else None), "coord"
    if check_ids:
        d = [r for r in das if o_identity(r, [v])]
        return (d[0]["key"] if len(d) == 1 else None), "daid"
    return None, "none"


def o_sat(recs, fa, f, r):
    k, a = f["f"], f.get("a")
    if k == "id":
        return not a or o_identity(r, a)
    if k == "ty":
        return not a or r["type"] in a
    if k == "key":
        return not a or any(o_match(q, r["key"]) for q in a)
    if k == "pr":
        if r["props"] is None:
            return False
        if not a:
            return True
        tests = [n in r["props"] and (v is None or o_pmatch(v, r["props"][n])) for n, v in a]
        return any(tests) if f["mode"] == "or" else all(tests)
    if k == "da":
        return r["type"] in ARRAY
    if k == "ax":
        if not a:
            return r["type"] in ARRAY
        A = {o_resolve(recs, fa, v)[0] for v in a} - {None}
        if not A or r["axes"] is None:
            return False
        x = set(r["axes"])
        return {"and": A <= x, "or": bool(A & x), "exact": A == x, "subset": x <= A}[f["mode"]]
    if k == "nx":
        if not a:
            return r["type"] in ARRAY
        return r["axes"] is not None and len(r["axes"]) in a
    if k == "sz":
        return r["type"] == "domain_axis" and (not a or (r["size"] is not None and r["size"] in a))
    if k in ("ms", "mt", "cl", "cn"):
        want, val = {"ms": ("cell_measure", r["measure"]), "mt": ("cell_method", r["method"]),
                     "cl": ("domain_topology", r.get("cell")), "cn": ("cell_connectivity", r.get("connectivity"))}[k]
        return r["type"] == want and (not a or (val is not None and any(o_match(q, val) for q in a)))
    if k in ("nv", "nd"):
        has, val = (r["has_ncvar"], r["ncvar"]) if k == "nv" else (r["has_ncdim"], r["ncdim"])
        return has and (not a or (val is not None and any(o_match(q, val) for q in a)))
    raise fw.HarnessError("unknown filter " + k)


def o_program(recs, fa, prog):
    """Expected keys of a sel program, or None where the property gives no verdict."""
    byk = {r["key"]: r for r in recs}
    hist = [set(byk)]           # hist[0] = unfiltered ... hist[-1] = current
    inv = [False]               # was hist[i] produced by inverse_filter?
    for s in prog:
        cur = hist[-1]
        if s["k"] in ("F", "M"):
            new = set(cur)
            for f in s["fs"]:
                new = {k for k in new if o_sat(recs, fa, f, byk[k])}
                if not s["todict"]:
                    hist.append(new)
                    inv.append(False)
            if s["todict"]:
                return new
        elif s["k"] == "U":
            d = s["d"]
            keep = 1 if (d is None or d >= len(hist)) else len(hist) - d
            hist, inv = hist[:keep], inv[:keep]
        else:
            d = s["d"]
            if d == 1 and inv[-1] and not inv[-2]:
                # the inverse of an inverse, relative to the collection before it, is that collection
                # (C18_inverse_of_inverse); the implementation also returns it with its history
                hist, inv = hist[:-1], inv[:-1]
                continue
            if d and inv[-1]:
                return None     # other depths after an inverse filter: no documented meaning
            rel = hist[0] if (d is None or d >= len(hist)) else hist[len(hist) - 1 - d]
            hist.append(rel - cur)
            inv.append(True)
    return hist[-1]


def o_scope(recs, fa, t, flts):
    return [r for r in recs if r["type"] == t and all(o_sat(recs, fa, f, r) for f in flts)]


def o_dax(recs, fa, ids, flts=()):
    """(lower, upper) key sets of domain_axes(*ids, **flts).
    lower: a value selects the eligible domain axes it names directly (key / identity), and only when there
    are none the axis it stands for through a 1-d coordinate or a data position (how the code means it);
    upper: both routes for every value (the docstring's "additionally").  The two differ only when a
    value names a domain axis directly *and* stands for another one."""
    scope = o_scope(recs, fa, "domain_axis", flts)
    if not ids:
        ks = {r["key"] for r in scope}
        return ks, ks
    lower, upper = set(), set()
    for q in ids:
        direct = {r["key"] for r in scope if o_identity(r, [q])}
        lower |= direct
        upper |= direct
        a, _ = o_resolve(recs, fa, q, check_ids=False)
        if a is not None and any(r["key"] == a for r in scope):
            upper.add(a)
            if not direct:
                lower.add(a)
    return lower, upper


def o_cm(recs, fa, ids, flts=()):
    """(lower, upper) key sets of cell_methods(*ids, **flts): eligible cell methods named directly, and
    for the values that name no eligible cell method those whose only axis is one of domain_axes(value)."""
    scope = o_scope(recs, fa, "cell_method", flts)
    if not ids:
        ks = {r["key"] for r in scope}
        return ks, ks
    lower, upper = set(), set()
    for q in ids:
        direct = {r["key"] for r in scope if o_identity(r, [q])}
        lower |= direct
        upper |= direct
        lo, up = o_dax(recs, fa, [q])
        for r in scope:
            if r["cmaxes"] is not None and len(r["cmaxes"]) == 1:
                if r["cmaxes"][0] in up:
                    upper.add(r["key"])
                if not direct and r["cmaxes"][0] in lo:
                    lower.add(r["key"])
    return lower, upper


def show_keys(ks):
    return "keys=[" + ",".join(sorted(ks)) + "]"


def o_selected(c):
    """(lower, upper) sets of keys the call may select; equal wherever the property gives one answer."""
    p = c.payload
    recs, fa = p["recs"], p["fa"]
    if c.stream == "C18.acc":
        fs = []
        ts = ACCESSORS[p["acc"]]
        if ts:
            fs.append({"f": "ty", "a": list(ts)})
        fs += p["flts"]
        if p["ids"]:
            fs.append({"f": "id", "a": p["ids"]})
        ks = {r["key"] for r in recs if all(o_sat(recs, fa, f, r) for f in fs)}
        return ks, ks
    if c.stream == "C18.dak":
        # the domain axes spanned by the selected 1-d coordinates
        fs = [{"f": "ty", "a": ["dimension_coordinate", "auxiliary_coordinate"]}] + p["flts"] + [{"f": "nx", "a": [1]}]
        if p["ids"]:
            fs.append({"f": "id", "a": p["ids"]})
        das = {r["key"] for r in recs if r["type"] == "domain_axis"}
        ks = {r["axes"][0] for r in recs if all(o_sat(recs, fa, f, r) for f in fs)} & das
        return ks, ks
    if c.stream == "C18.dax":
        return o_dax(recs, fa, p["ids"], p.get("flts", []))
    if c.stream == "C18.cm":
        return o_cm(recs, fa, p["ids"], p.get("flts", []))
    raise fw.HarnessError("unknown stream " + c.stream)


ERR_KINDS = {
    # kind: expected observable
    "filter-unknown-keyword": "raised:TypeError",
    "axis-mode-invalid": "raised:ValueError",
    "axis-mode-invalid-no-axes": None,            # not checked when no axis is given: same as filter_by_data
    "property-mode-invalid": "raised:ValueError",
    "property-mode-two": "raised:ValueError",
    "accessor-filter-by-type": "raised:TypeError",
    "accessor-identities-twice": "raised:TypeError",
    "plural-identities-twice": "raised:TypeError",
    "domain-axes-filter-by-type": "raised:TypeError",
    "domain-axes-identities-twice": "raised:TypeError",
    "call-identities-twice": "raised:TypeError",
    "cell-methods-identities-twice": "raised:TypeError",
    "default-exception-instance": "raised:KeyError",
}


def o_expected(c):
    p = c.payload
    if c.stream == "C18.idn":
        return "reported-and-selects"
    if c.stream == "C18.err":
        exp = ERR_KINDS[p["err"]]
        if exp is None:
            return show_keys(r["key"] for r in p["recs"] if r["type"] in ARRAY)
        return exp
    if c.stream == "C18.sel":
        ks = o_program(p["recs"], p["fa"], p["prog"])
        return None if ks is None else show_keys(ks)
    lo, up = o_selected(c)
    if lo != up:
        return None
    if p["def"] == "all":
        return show_keys(lo)
    if len(lo) == 1:
        return "key=" + next(iter(lo))
    return "raised:ValueError" if p["def"] == "exc" else "default"


def oracle(c):
    x = c.extra if isinstance(c.extra, dict) else {}
    if x.get("changed"):
        return "the field was changed by the query: " + x["changed"]
    exp = o_expected(c)
    if exp is None:
        out = str(c.impl_out)
        if out.startswith("raised") and not (out == "raised:ValueError" and c.payload.get("def") == "exc"):
            return "raised on a valid call: " + out
        if c.stream != "C18.sel" and out.startswith("keys=["):
            # between the two readings: every construct of the lower one, none outside the upper one
            lo, up = o_selected(c)
            got = set(k for k in out[6:-1].split(",") if k)
            if not (lo <= got <= up):
                return f"expected between keys={sorted(lo)} and keys={sorted(up)} got {out}"
        return None
    if c.impl_out != exp:
        return f"expected {exp} got {c.impl_out}"
    return None


def agree(c):
    return c.impl_out == c.model_out


# =====================================================================
# implementation
# =====================================================================
_SENTINEL = "C18-default-value"


def impl(c):
    p = c.payload
    f, f0, fp, recs, fa = get_field(p["field"], p.get("on"))
    try:
        out = _impl(c, f)
    except Exception as e:
        out = "raised:" + fw.exc_enum(e)
        c.extra = dict(tb=repr(e)[:300])
    changed = None
    if fingerprint(f) != fp:
        changed = "keys / types / identities / axes differ"
    elif not f.equals(f0):
        changed = "f.equals(pristine copy) is False"
    if changed:
        c.extra = dict(changed=changed)
        _fields.clear()
    return out


def _keys_of(x):
    return show_keys(list(x.keys()))


def _impl_err(c, f):
    p = c.payload
    k = p["err"]
    s1, s2 = p.get("a", "latitude"), p.get("b", "longitude")
    if k == "filter-unknown-keyword":
        return _keys_of(f.constructs.filter(filter_by_foo=(s1,)))
    if k == "axis-mode-invalid":
        return _keys_of(f.constructs.filter_by_axis(s1, axis_mode="bad"))
    if k == "axis-mode-invalid-no-axes":
        return _keys_of(f.constructs.filter_by_axis(axis_mode="bad"))
    if k == "property-mode-invalid":
        return _keys_of(f.constructs.filter_by_property("bad", standard_name=s1))
    if k == "property-mode-two":
        return _keys_of(f.constructs.filter_by_property("and", "or", standard_name=s1))
    if k == "accessor-filter-by-type":
        return "key=" + str(getattr(f, p["acc"])(s1, key=True, default=None, filter_by_type=("dimension_coordinate",)))
    if k == "accessor-identities-twice":
        return "key=" + str(getattr(f, p["acc"])(s1, key=True, default=None, filter_by_identity=(s2,)))
    if k == "plural-identities-twice":
        return _keys_of(getattr(f, PLURAL[p["acc"]])(s1, filter_by_identity=(s2,)))
    if k == "domain-axes-filter-by-type":
        return _keys_of(f.domain_axes(s1, filter_by_type=("domain_axis",)))
    if k == "domain-axes-identities-twice":
        return _keys_of(f.domain_axes(s1, filter_by_identity=(s2,)))
    if k == "call-identities-twice":
        return _keys_of(f.constructs(s1, filter_by_identity=(s2,)))
    if k == "cell-methods-identities-twice":
        return _keys_of(f.cell_methods(s1, filter_by_identity=(s2,)))
    if k == "default-exception-instance":
        return "key=" + str(getattr(f, p["acc"])("nonexistent-identity", key=True, default=KeyError("C18")))
    raise fw.HarnessError("unknown err kind " + k)


def _impl_idn(c, f):
    """c.identity() is one of c.identities(), and selecting by it returns (at least) c."""
    key = c.payload["idn"]
    con = f.constructs.get(key)
    if con is None:
        return "reported-and-selects"
    s = con.identity(default=None)
    if s is None:
        return "reported-and-selects"     # (identity() only looks at some of the properties: no claim)
    if s not in list(con.identities()):
        return f"identity() {s!r} not in identities()"
    if key not in f.constructs.filter_by_identity(s, todict=True):
        return f"not selected by its identity() {s!r}"
    return "reported-and-selects"


def _impl(c, f):
    p = c.payload
    if c.stream == "C18.idn":
        return _impl_idn(c, f)
    if c.stream == "C18.err":
        return _impl_err(c, f)
    if c.stream == "C18.sel":
        coll = f.constructs
        for s in p["prog"]:
            if s["k"] == "F":
                coll = coll.filter(todict=s["todict"], **kwargs_for(s["fs"]))
            elif s["k"] == "M":
                coll = call_method(coll, s["fs"][0], s["todict"], s.get("call"))
            elif s["k"] == "I":
                coll = coll.inverse_filter(s["d"]) if s["d"] is not None else coll.inverse_filter()
            else:
                coll = coll.unfilter(s["d"]) if s["d"] is not None else coll.unfilter()
        return _keys_of(coll)
    default = {"none": None, "val": _SENTINEL, "exc": ValueError("C18")}.get(p["def"])
    if c.stream == "C18.acc":
        name = p["acc"]
        ids = tuple(py_q(q) for q in p["ids"])
        kw = kwargs_for(p["flts"])
        style = p.get("style", "key")
        if ids and p.get("idkw"):
            ids, kw = (), (dict(filter_by_identity=ids, **kw) if p["idkw"] == "first" else dict(kw, filter_by_identity=ids))
        if p["def"] == "all":
            if p.get("todict", False):
                kw["todict"] = True      # (without the keyword and with no argument at all: the filter_by_type short cut)
            return _keys_of(getattr(f, PLURAL[name])(*ids, **kw))
        meth = getattr(f, name)
        try:
            if name == "construct_key":
                r = meth(*ids, default=default, **kw)
            elif name == "construct_item":
                r = meth(*ids, default=default, **kw)
                if isinstance(r, tuple):
                    r = r[0]
            elif style == "key":
                r = meth(*ids, key=True, default=default, **kw)
            elif style == "item":
                r = meth(*ids, item=True, default=default, **kw)
                if isinstance(r, tuple):
                    r = r[0]
            else:
                r = meth(*ids, default=default, **kw)
                if r is not None and r is not _SENTINEL:
                    ks = [k for k, v in f.constructs.todict().items() if v is r]
                    if len(ks) != 1:
                        return "not-a-member"
                    r = ks[0]
        except ValueError:
            return "raised:ValueError"
        return "default" if (r is None or r is _SENTINEL) else "key=" + r
    if c.stream == "C18.dak":
        ids = tuple(py_q(q) for q in p["ids"])
        try:
            r = f.domain_axis_key(*ids, default=default, **kwargs_for(p["flts"]))
        except ValueError:
            return "raised:ValueError"
        return "default" if (r is None or r is _SENTINEL) else "key=" + r
    if c.stream in ("C18.dax", "C18.cm"):
        ids = tuple(py_q(q) for q in p["ids"])
        kw = kwargs_for(p.get("flts", []))
        args = ids
        if ids and p.get("idkw") == "first":
            args, kw = (), dict(filter_by_identity=ids, **kw)
        elif ids and p.get("idkw") == "last":
            args, kw = (), dict(kw, filter_by_identity=ids)
        plural, single = ("domain_axes", "domain_axis") if c.stream == "C18.dax" else ("cell_methods", "cell_method")
        if p["def"] == "all":
            return _keys_of(getattr(f, plural)(*args, todict=p.get("todict", False), **kw))
        try:
            r = getattr(f, single)(*args, key=True, default=default, **kw)
        except ValueError:
            return "raised:ValueError"
        return "default" if (r is None or r is _SENTINEL) else "key=" + r
    raise fw.HarnessError("unknown stream " + c.stream)


# =====================================================================
# cases
# =====================================================================
def mk(stream, payload):
    p = dict(payload)
    p["field"] = expand_field_spec(p["field"])
    f, f0, fp, recs, fa = get_field(p["field"], p.get("on"))
    p["recs"], p["fa"] = recs, fa
    ctx = enc_ctx(recs, fa)
    tags = ["field:" + ("ex" if p["field"]["base"] is not None else "built"), "on:" + (p.get("on") or "field")]
    if stream == "C18.idn":
        c = Case(stream, p, None, key=json.dumps(p["field"], sort_keys=True) + "idn" + p["idn"], tags=sorted(set(tags + ["idn"])))
        c.nontrivial = True
        return c
    if stream == "C18.err":
        # the stated errors: implementation against the table of documented exceptions only (no model line)
        c = Case(stream, p, None, key=json.dumps(p["field"], sort_keys=True) + json.dumps([p["err"], p.get("acc"), p.get("a"), p.get("b")]),
                 tags=sorted(set(tags + ["err:" + p["err"]])))
        c.nontrivial = True
        return c
    if stream == "C18.sel":
        line = f"C18.sel {ctx} prog=" + ("." if not p["prog"] else "+".join(enc_step(s) for s in p["prog"]))
        q = json.dumps(p["prog"], sort_keys=True)
        for s in p["prog"]:
            if s["k"] in ("F", "M"):
                tags += [("kw:" if s["k"] == "F" else "m:") + fl["f"] for fl in s["fs"]]
                tags += [fl["f"] + ":" + fl["mode"] for fl in s["fs"] if "mode" in fl]
                if s["todict"]:
                    tags.append("todict")
            else:
                tags.append("inverse" if s["k"] == "I" else "unfilter")
        nfil = sum(len(s["fs"]) for s in p["prog"] if s["k"] in ("F", "M"))
        tags.append(f"chain={min(nfil, 3)}")
    elif stream == "C18.acc":
        line = (f"C18.acc {ctx} acc={p['acc']} ids={enc_qs(p['ids'])} flts=[" + ";".join(enc_filter(x) for x in p["flts"])
                + f"] def={p['def']}")
        q = json.dumps([p["acc"], p["ids"], p["flts"], p["def"], p.get("style"), p.get("todict"), p.get("idkw")], sort_keys=True)
        if p.get("idkw"):
            tags.append("acc:idkw")
        if not p["ids"] and not p["flts"]:
            tags.append("acc:no-argument")
        tags += ["acc:" + p["acc"], "def:" + p["def"]]
        if len(p["ids"]) > 1:
            tags.append("acc:multi-id")
    else:
        p.setdefault("flts", [])
        sub = c_sub = stream.split(".")[1]
        line = (f"{stream} {ctx} ids={enc_qs(p['ids'])} flts=[" + ";".join(enc_filter(x) for x in p["flts"])
                + f"] def={p['def']}")
        q = json.dumps([stream, p["ids"], p["flts"], p["def"], p.get("idkw"), p.get("todict")], sort_keys=True)
        tags.append(sub + ":" + p["def"])
        if p["flts"]:
            tags.append(sub + ":kw")
        if p.get("idkw"):
            tags.append(sub + ":idkw-" + p["idkw"])
        if len(p["ids"]) > 1:
            tags.append(sub + ":multi-id")
    for qq in _all_queries(p):
        tags.append("q:" + ("str" if "s" in qq else "int" if "i" in qq else "num" if "n" in qq else "regex"))
    tags += _shape_tags(stream, p)
    c = Case(stream, p, line, key=json.dumps(p["field"], sort_keys=True) + (p.get("on") or "") + q, tags=sorted(set(tags)))
    exp = o_expected(c)
    if exp is None:
        c.nontrivial = True
        c.tags = tuple(sorted(set(c.tags) | {"no-single-verdict"}))
    elif exp.startswith("keys="):
        n = 0 if exp == "keys=[]" else exp.count(",") + 1
        c.nontrivial = 0 < n < len(recs)
    else:
        c.nontrivial = exp.startswith("key=")
    if _known(c):
        c.tags = tuple(sorted(set(c.tags) | {"finding-shape"}))
    return c


def from_payload(stream, payload):
    p = {k: v for k, v in payload.items() if k not in ("recs", "fa")}
    return mk(stream, p)


def _all_queries(p):
    out = list(p.get("ids", []))
    fls = list(p.get("flts", []))
    for s in p.get("prog", []):
        fls += s.get("fs", [])
    for f in fls:
        if f["f"] in ("id", "key", "ax", "ms", "mt", "nv", "nd", "cl", "cn"):
            out += f["a"]
        elif f["f"] == "pr":
            out += [v for _, v in f["a"] if v is not None]
    return out


def _form(q):
    if "p" in q:
        return "regex"
    if "s" not in q:
        return "nonstr"
    t = q["s"]
    return "key%" if t.startswith("key%") else "bare" if _bare(t) else "prefixed"


def _shape_tags(stream, p):
    """Tags for the corner shapes the generator families aim at (input distribution in the evidence)."""
    tags = set()
    recs, fa = p["recs"], p["fa"]
    for qs, scope in _identity_lists_scoped(p):
        if len(qs) > 1:
            forms = {_form(q) for q in qs}
            if len(forms) > 1:
                tags.add("ids:mixed-forms")
            if _form(qs[0]) == "bare" or _form(qs[-1]) == "bare":
                # a construct selected only through a value that is neither first nor bare
                for r in scope:
                    hit = [i for i, q in enumerate(qs) if o_identity(r, [q])]
                    if hit and all(_form(qs[i]) != "bare" for i in hit) and r["ids"] and \
                            not any(o_match(qs[i], r["ids"][0]) for i in hit) and not any(
                                "s" in qs[i] and qs[i]["s"] in (r["key"], "key%" + r["key"]) for i in hit):
                        tags.add("ids:only-via-nonfirst-identity")
    prog = p.get("prog")
    if prog:
        byk = {r["key"]: r for r in recs}
        sizes, inv = [len(recs)], [False]
        cur = set(byk)
        for s in prog:
            if s["k"] in ("F", "M"):
                for f in s["fs"]:
                    cur = {k for k in cur if o_sat(recs, fa, f, byk[k])}
                    sizes.append(len(cur)); inv.append(False)
                    if f["f"] == "ax" and len(f["a"]) > 1:
                        res = [o_resolve(recs, fa, v)[0] for v in f["a"]]
                        res = [a for a in res if a is not None]
                        if len(res) != len(set(res)):
                            tags.add("ax:repeated-axis")
                    if f["f"] == "pr" and any(v is not None and ("n" in v or "i" in v) for _, v in f["a"]):
                        tags.add("pr:numeric-query")
                    if f["f"] == "pr" and any(n in (r["props"] or {}) and not isinstance(r["props"][n], str)
                                              for n, _ in f["a"] for r in recs):
                        tags.add("pr:numeric-property")
                if s["todict"]:
                    break
            else:
                if 0 in sizes[1:]:
                    tags.add("prog:empty-intermediate-then-" + ("inverse" if s["k"] == "I" else "unfilter"))
                if s["k"] == "I" and s["d"] and inv[-1]:
                    tags.add("prog:inverse-depth-after-inverse")
                # history bookkeeping only as far as the tags need it
                if s["k"] == "I":
                    sizes.append(-1); inv.append(True)
                else:
                    d = s["d"]
                    keep = 1 if (d is None or d >= len(sizes)) else len(sizes) - d
                    sizes, inv = sizes[:keep], inv[:keep]
    return sorted(tags)


# ---------------------------------------------------------------- query generators
def regex_of(rng, s):
    """A pattern in the model's fragment that matches `s`."""
    r = rng.random()
    if r < 0.35 and len(s) > 1:
        return {"p": [[True, s[: rng.randint(1, len(s))]]]}
    if r < 0.7 and s:
        a = rng.randrange(len(s))
        b = rng.randint(a + 1, len(s))
        return {"p": [[False, s[a:b]]]}
    return {"p": [[rng.random() < 0.5, s], [rng.random() < 0.5, rng.choice(SN + ["zzz"])]]}


def gen_value_q(rng, pool, miss=("nonexistent", "zzz", "")):
    """A query for plain value matching (measure, method, ncvar, ncdim, key, property values)."""
    r = rng.random()
    pool = [x for x in pool if x is not None]
    if not pool or r < 0.12:
        return {"s": rng.choice(miss)}
    s = rng.choice(pool)
    if r < 0.7:
        return {"s": s}
    if r < 0.78:
        return {"s": s + "x"}
    return regex_of(rng, s)


def gen_num_q(rng, v):
    """A query for the numeric property value v = [dtype, scalar, values]."""
    dt, sc, vals = v[0], v[1], list(v[2])
    r = rng.random()
    if r < 0.4:                                   # the same number: Python object or numpy object
        if sc and dt == "int64" and rng.random() < 0.6:
            return {"i": vals[0]}
        return {"n": [dt, sc, vals, rng.random() < 0.5]}
    if r < 0.55:                                  # same numbers, another data type
        other = {"int64": ["float64", "int32"], "float64": ["int64", "float32"], "int32": ["int64"],
                 "float32": ["float64"], "bool": ["int64"]}[dt]
        o = rng.choice(other)
        k = (4 if (o.startswith("float") and not dt.startswith("float")) else 1)
        vv = [x * k for x in vals] if not (dt.startswith("float") and not o.startswith("float")) else [x // 4 for x in vals]
        return {"n": [o, sc, vv, rng.random() < 0.5]}
    if r < 0.67:                                  # other shape
        return {"n": [dt, not sc, vals[:1] if not sc else vals, False]} if dt != "bool" else {"i": vals[0]}
    if r < 0.8:                                   # other value(s)
        vv = list(vals)
        vv[rng.randrange(len(vv))] += 4
        return {"n": [dt, sc, vv, rng.random() < 0.5]} if dt != "bool" else {"n": ["bool", True, [0], True]}
    if r < 0.88 and not sc:
        return {"n": [dt, False, vals + [vals[-1]] if rng.random() < 0.5 else vals[:-1], False]}
    if r < 0.94:                                  # the number as a string / a pattern over its digits
        return rng.choice([{"s": str(vals[0])}, {"p": [[False, str(abs(vals[0]))[:1]]]}])
    return {"i": vals[0]}


def gen_identity_q(rng, recs):
    r = rng.random()
    rec = rng.choice(recs) if recs else None
    if rec is None:
        return {"s": "latitude"}
    if r < 0.5 and rec["ids"]:
        return {"s": rng.choice(rec["ids"])}
    if r < 0.58:
        return {"s": rec["key"]}
    if r < 0.64:
        return {"s": "key%" + rec["key"]}
    if r < 0.7:
        return {"s": rng.choice(SN + LN)}
    if r < 0.76:
        s = rng.choice(rec["ids"]) if rec["ids"] else "lat"
        return {"s": rng.choice([s + "x", s[:-1], "nonexistent", "key%nonexistent", s.upper()])}
    if r < 0.96 and rec["ids"]:
        return regex_of(rng, rng.choice(rec["ids"]))
    if r < 0.98:
        return regex_of(rng, rec["key"])
    return {"i": rng.randint(-2, 3)}


def gen_identity_qs(rng, recs):
    n = rng.choice([1, 1, 1, 2, 2, 3])
    return [gen_identity_q(rng, recs) for _ in range(n)]


def gen_axis_q(rng, recs, fa):
    das = [r for r in recs if r["type"] == "domain_axis"]
    coords = [r for r in recs if r["type"] in ("dimension_coordinate", "auxiliary_coordinate")]
    r = rng.random()
    if das and r < 0.3:
        return {"s": rng.choice(das)["key"]}
    if das and r < 0.36:
        return {"s": "key%" + rng.choice(das)["key"]}
    if das and r < 0.5:
        d = rng.choice(das)
        return {"s": d["ids"][0]} if d["ids"] else {"s": d["key"]}
    if coords and r < 0.75:
        c = rng.choice(coords)
        return {"s": rng.choice(c["ids"])} if c["ids"] and rng.random() < 0.8 else {"s": c["key"]}
    if r < 0.85:
        return {"i": rng.randint(-3, 3)}
    if r < 0.92 and coords:
        c = rng.choice(coords)
        if c["ids"]:
            return regex_of(rng, rng.choice(c["ids"]))
    if r < 0.96 and das:
        d = rng.choice(das)
        if d["ids"]:
            return regex_of(rng, d["ids"][0])
    return {"s": "nonexistent"}


def gen_filter(rng, recs, fa, kinds=None):
    k = rng.choice(kinds or ["id", "id", "id", "id", "ty", "ty", "key", "pr", "pr", "ax", "ax", "ax", "nx", "sz", "ms", "mt", "nv", "nd", "da", "cl", "cn"])
    empty = rng.random() < 0.06
    if k == "id":
        return {"f": "id", "a": [] if empty else gen_identity_qs(rng, recs)}
    if k == "ty":
        present = sorted({r["type"] for r in recs}) or list(TYPES)
        n = rng.choice([1, 1, 2, 3])
        return {"f": "ty", "a": [] if empty else [rng.choice(present if rng.random() < 0.8 else TYPES) for _ in range(n)]}
    if k == "key":
        keys = [r["key"] for r in recs]
        return {"f": "key", "a": [] if empty else [gen_value_q(rng, keys, miss=("nonexistent", "key%" + (keys[0] if keys else "x"))) for _ in range(rng.choice([1, 1, 2, 3]))]}
    if k == "pr":
        have = [(n, v) for r in recs if r["props"] for n, v in r["props"].items() if n.isidentifier()]
        a = []
        names = set()
        for _ in range(0 if empty else rng.choice([1, 1, 2, 2, 3])):
            if have and rng.random() < 0.85:
                n, v = rng.choice(have)
            else:
                n, v = rng.choice(PROPN), rng.choice(PROPV)
            if n in names:
                continue
            names.add(n)
            r = rng.random()
            if r < 0.2:
                a.append([n, None])
            elif not isinstance(v, str):
                a.append([n, gen_num_q(rng, v)])
            elif r < 0.24:
                a.append([n, gen_num_q(rng, rng.choice(NUMV)[:3])])      # a number asked of a string property
            else:
                a.append([n, gen_value_q(rng, [v], miss=("nonexistent",))])
        return {"f": "pr", "mode": rng.choice(["and", "and", "or"]), "a": a, "omit_mode": rng.random() < 0.5}
    if k == "ax":
        a = [] if empty else [gen_axis_q(rng, recs, fa) for _ in range(rng.choice([1, 1, 1, 2, 2, 3]))]
        return {"f": "ax", "mode": rng.choice(["and", "and", "or", "exact", "subset"]), "a": a}
    if k == "nx":
        return {"f": "nx", "a": [] if empty else sorted({rng.randint(0, 3) for _ in range(rng.choice([1, 1, 2]))})}
    if k == "sz":
        sizes = [r["size"] for r in recs if r["size"] is not None] or [1]
        return {"f": "sz", "a": [] if empty else sorted({rng.choice(sizes + [1, 7]) for _ in range(rng.choice([1, 1, 2]))})}
    if k in ("ms", "mt", "nv", "nd", "cl", "cn"):
        fld = {"ms": "measure", "mt": "method", "nv": "ncvar", "nd": "ncdim", "cl": "cell", "cn": "connectivity"}[k]
        pool = [r[fld] for r in recs if r.get(fld) is not None]
        return {"f": k, "a": [] if empty else [gen_value_q(rng, pool) for _ in range(rng.choice([1, 1, 2]))]}
    return {"f": "da"}


def gen_prog(rng, recs, fa):
    prog = []
    form = rng.random()
    nf = rng.choice([1, 1, 1, 2, 2, 3])
    todict = rng.random() < 0.3
    history = rng.random() < 0.35 and not todict
    if form < 0.4:
        # one filter(**kw) call: distinct methods
        fs, seen = [], set()
        for _ in range(nf):
            f = gen_filter(rng, recs, fa)
            if f["f"] in seen:
                continue
            seen.add(f["f"])
            fs.append(f)
        if rng.random() < 0.03:
            fs = []
        prog.append({"k": "F", "todict": todict, "fs": fs})
    elif form < 0.85:
        for i in range(nf):
            f = gen_filter(rng, recs, fa)
            td = todict and i == nf - 1 and f["f"] != "pr"
            prog.append({"k": "M", "todict": td, "fs": [f], "call": rng.random() < 0.3})
    else:
        # mixed: a method call, then a keyword call
        prog.append({"k": "M", "todict": False, "fs": [gen_filter(rng, recs, fa)], "call": False})
        fs, seen = [], set()
        for _ in range(rng.choice([1, 2])):
            f = gen_filter(rng, recs, fa)
            if f["f"] not in seen:
                seen.add(f["f"])
                fs.append(f)
        prog.append({"k": "F", "todict": todict, "fs": fs})
    if rng.random() < 0.02:
        prog = []
        history = True
    if history:
        for _ in range(rng.choice([1, 1, 2])):
            k = rng.choice(["I", "I", "I", "U"])
            prog.append({"k": k, "d": rng.choice([None, None, 1, 1, 2, 3, 0])})
        if rng.random() < 0.25:
            prog.append({"k": "M", "todict": False, "fs": [gen_filter(rng, recs, fa)], "call": False})
    return prog


def gen_acc(rng, recs, fa):
    name = rng.choice(list(ACCESSORS) + ["construct", "construct", "coordinate"])
    ts = ACCESSORS[name]
    scope = [r for r in recs if not ts or r["type"] in ts] or recs
    ids = []
    r = rng.random()
    if r < 0.8:
        ids = [gen_identity_q(rng, scope if rng.random() < 0.85 else recs) for _ in range(rng.choice([1, 1, 1, 2]))]
    flts, seen = [], set()
    for _ in range(rng.choice([0, 0, 0, 1, 1, 2])):
        f = gen_filter(rng, scope, fa, kinds=["key", "pr", "ax", "ax", "nx", "nv", "da", "ms"] + ([] if ts else ["ty", "sz", "nd", "mt"]))
        if f["f"] not in seen:
            seen.add(f["f"])
            flts.append(f)
    d = rng.choice(["none", "val", "exc", "exc"])
    if name in PLURAL and name != "construct" and rng.random() < 0.2:
        d = "all"
    return dict(acc=name, ids=ids, flts=flts, **{"def": d},
                style=rng.choice(["key", "key", "item", "construct"]), todict=rng.random() < 0.5,
                idkw=rng.choice([None, None, None, None, "first", "last"]))


def gen_dak(rng, recs, fa):
    coords = [r for r in recs if r["type"] in ("dimension_coordinate", "auxiliary_coordinate")]
    ids = []
    if rng.random() < 0.9:
        ids = [gen_identity_q(rng, coords or recs) for _ in range(rng.choice([1, 1, 1, 2]))]
    flts, seen = [], set()
    for _ in range(rng.choice([0, 0, 0, 1, 1])):
        f = gen_filter(rng, coords or recs, fa, kinds=["key", "pr", "ax", "nv", "da"])
        if f["f"] not in seen:
            seen.add(f["f"]); flts.append(f)
    return dict(ids=ids, flts=flts, **{"def": rng.choice(["none", "val", "exc", "exc"])})


def gen_dax(rng, recs, fa):
    r = rng.random()
    if r < 0.08:
        ids = []
    elif r < 0.25:
        q = gen_axis_q(rng, recs, fa)
        ids = [q if "p" in q else regex_of(rng, q["s"]) if "s" in q and q["s"] else q]
    else:
        ids, seen = [], set()
        for _ in range(rng.choice([1, 1, 1, 2])):
            q = gen_axis_q(rng, recs, fa)
            if "p" in q or json.dumps(q) in seen:
                continue
            seen.add(json.dumps(q))
            ids.append(q)
    return dict(ids=ids, **{"def": rng.choice(["all", "all", "none", "val", "exc"])}, todict=rng.random() < 0.5)


def _forms_of(rng, rec, s):
    """The identity string `s` of `rec` as a query in some form."""
    r = rng.random()
    if r < 0.6:
        return {"s": s}
    return regex_of(rng, s)


DECOY_BARE = ["zzz", "nonexistent", "height", "grid latitude"]
DECOY_PREF = ["long_name=zzz", "standard_name=zzz", "units=zzz", "ncvar%zzz", "ncdim%zzz", "key%zzz", "measure:zzz", "method:zzz"]


def gen_multi_ids(rng, recs, scope):
    """Ordered lists of 2-3 identities in mixed forms in which some construct matches ONLY through one of
    them; every order of the same set is produced (the result must not depend on it)."""
    scope = [r for r in scope if r["ids"]] or [r for r in recs if r["ids"]]
    if not scope:
        return [[{"s": "zzz"}, {"s": "long_name=zzz"}]]
    rec = rng.choice(scope)
    ids = rec["ids"]
    r = rng.random()
    if r < 0.6 and len(ids) > 1:
        hit = _forms_of(rng, rec, rng.choice(ids[1:]))          # reported, but not first
    elif r < 0.8:
        hit = _forms_of(rng, rec, ids[0])
    elif r < 0.9:
        hit = {"s": rng.choice([rec["key"], "key%" + rec["key"]])}
    else:
        hit = regex_of(rng, rng.choice(ids))
    others = []
    for _ in range(rng.choice([1, 1, 2])):
        t = rng.random()
        if t < 0.45:
            others.append({"s": rng.choice(DECOY_BARE)})
        elif t < 0.6:
            o = rng.choice(scope)
            others.append({"s": o["ids"][0]})
        elif t < 0.8:
            others.append({"s": rng.choice(DECOY_PREF)})
        elif t < 0.9:
            others.append({"p": [[rng.random() < 0.5, rng.choice(["zzz", "qq"])]]})
        else:
            o = rng.choice(scope)
            others.append({"s": rng.choice(o["ids"])})
    vals = [hit] + others
    import itertools
    perms = list(itertools.permutations(vals))
    rng.shuffle(perms)
    return [list(pm) for pm in perms[: (2 if len(vals) == 2 else 3)]]


def fam_multi_ids(rng, spec, recs, fa):
    out = []
    r = rng.random()
    if r < 0.45:
        for ids in gen_multi_ids(rng, recs, recs):
            form = rng.random()
            if form < 0.5:
                prog = [{"k": "M", "todict": rng.random() < 0.4, "fs": [{"f": "id", "a": ids}], "call": rng.random() < 0.3}]
            elif form < 0.8:
                fs = [{"f": "id", "a": ids}]
                if rng.random() < 0.5:
                    fs.insert(rng.randrange(2), gen_filter(rng, recs, fa, kinds=["ty", "nx", "da", "pr"]))
                prog = [{"k": "F", "todict": rng.random() < 0.4, "fs": fs}]
            else:
                prog = [{"k": "M", "todict": False, "fs": [gen_filter(rng, recs, fa, kinds=["ty", "nx", "da"])], "call": False},
                        {"k": "M", "todict": False, "fs": [{"f": "id", "a": ids}], "call": rng.random() < 0.3}]
            out.append(("C18.sel", dict(field=spec, prog=prog)))
    elif r < 0.8:
        name = rng.choice(list(ACCESSORS))
        ts = ACCESSORS[name]
        scope = [x for x in recs if not ts or x["type"] in ts]
        d = rng.choice(["none", "exc", "all"]) if name in PLURAL and name != "construct" else rng.choice(["none", "exc"])
        style = rng.choice(["key", "construct", "item"])
        for ids in gen_multi_ids(rng, recs, scope):
            out.append(("C18.acc", dict(field=spec, acc=name, ids=ids, flts=[], **{"def": d}, style=style, todict=rng.random() < 0.5)))
    elif r < 0.9:
        das = [x for x in recs if x["type"] == "domain_axis"]
        d = rng.choice(["all", "all", "none", "exc"])
        for ids in gen_multi_ids(rng, recs, das + [x for x in recs if x["type"] in ("dimension_coordinate", "auxiliary_coordinate")]):
            out.append(("C18.dax", dict(field=spec, ids=ids, flts=[], **{"def": d}, todict=rng.random() < 0.5)))
    else:
        cms = [x for x in recs if x["type"] == "cell_method"]
        d = rng.choice(["all", "all", "none", "exc"])
        for ids in gen_multi_ids(rng, recs, cms or recs):
            if sum(1 for q in ids if "p" in q) == 0:
                out.append(("C18.cm", dict(field=spec, ids=ids, flts=[], **{"def": d}, todict=rng.random() < 0.5)))
    return out


def _empty_filter(rng, recs, fa):
    return rng.choice([
        {"f": "id", "a": [{"s": "nonexistent"}]}, {"f": "key", "a": [{"s": "nonexistent"}]},
        {"f": "nx", "a": [7]}, {"f": "sz", "a": [77]}, {"f": "ms", "a": [{"s": "nonexistent"}]},
        {"f": "nv", "a": [{"s": "nonexistent"}]}, {"f": "ax", "mode": "and", "a": [{"s": "nonexistent"}]},
        {"f": "pr", "mode": "and", "a": [["nonexistent", None]], "omit_mode": False},
    ])


def fam_empty_chain(rng, spec, recs, fa):
    """Chains with an EMPTY intermediate collection, then unfilter()/unfilter(n)/inverse_filter()/inverse_filter(n)."""
    steps = []
    n = rng.choice([1, 2, 2, 3])
    where = rng.randrange(n)
    kw = rng.random() < 0.3
    fs = [(_empty_filter(rng, recs, fa) if i == where else gen_filter(rng, recs, fa, kinds=["ty", "nx", "da", "id", "pr", "nv"]))
          for i in range(n)]
    if kw:
        seen, fs2 = set(), []
        for f in fs:
            if f["f"] not in seen:
                seen.add(f["f"]); fs2.append(f)
        steps.append({"k": "F", "todict": False, "fs": fs2})
    else:
        steps += [{"k": "M", "todict": False, "fs": [f], "call": False} for f in fs]
    for _ in range(rng.choice([1, 1, 2])):
        steps.append({"k": rng.choice(["U", "U", "I", "I"]), "d": rng.choice([None, None, 1, 1, 2, 3])})
    if rng.random() < 0.3:
        steps.append({"k": "M", "todict": rng.random() < 0.3, "fs": [gen_filter(rng, recs, fa)], "call": False})
    return [("C18.sel", dict(field=spec, prog=steps))]


def fam_inverse_inverse(rng, spec, recs, fa):
    steps = [{"k": "M", "todict": False, "fs": [gen_filter(rng, recs, fa)], "call": False} for _ in range(rng.choice([0, 1, 1, 2]))]
    steps.append({"k": "I", "d": rng.choice([None, None, 1, 2])})
    steps.append({"k": "I", "d": rng.choice([1, 1, 1, None, 2])})
    if rng.random() < 0.5:
        steps.append(rng.choice([{"k": "U", "d": rng.choice([None, 1])}, {"k": "I", "d": rng.choice([None, 1])},
                                 {"k": "M", "todict": False, "fs": [gen_filter(rng, recs, fa)], "call": False}]))
    return [("C18.sel", dict(field=spec, prog=steps))]


def fam_repeated_axis(rng, spec, recs, fa):
    """filter_by_axis naming the same domain axis more than once (key, key%, coordinate identity, position)."""
    das = [r for r in recs if r["type"] == "domain_axis"]
    if not das:
        return []
    d = rng.choice(das)
    names = [{"s": d["key"]}, {"s": "key%" + d["key"]}]
    names += [{"s": i} for i in d["ids"]]
    for r in recs:
        if r["type"] in ("dimension_coordinate", "auxiliary_coordinate") and r["axes"] == [d["key"]] and r["ids"]:
            names.append({"s": rng.choice(r["ids"])})
            names.append({"s": r["key"]})
    if fa and d["key"] in fa:
        names += [{"i": fa.index(d["key"])}, {"i": fa.index(d["key"]) - len(fa)}]
    vals = [rng.choice(names) for _ in range(rng.choice([2, 2, 3]))]
    if rng.random() < 0.4 and len(das) > 1:
        vals.insert(rng.randrange(len(vals) + 1), {"s": rng.choice(das)["key"]})
    f = {"f": "ax", "mode": rng.choice(["exact", "exact", "subset", "and", "or"]), "a": vals}
    if rng.random() < 0.6:
        prog = [{"k": "M", "todict": rng.random() < 0.4, "fs": [f], "call": False}]
    else:
        prog = [{"k": "F", "todict": rng.random() < 0.4, "fs": [gen_filter(rng, recs, fa, kinds=["ty", "nx", "da"]), f]}]
    out = [("C18.sel", dict(field=spec, prog=prog))]
    if rng.random() < 0.3:
        name = rng.choice(["construct", "coordinate", "auxiliary_coordinate", "dimension_coordinate", "cell_measure", "domain_ancillary"])
        out.append(("C18.acc", dict(field=spec, acc=name, ids=[], flts=[f], **{"def": rng.choice(["none", "exc", "all"]) if name != "construct" else "none"},
                                    style="key", todict=False)))
    return out


def fam_numeric_property(rng, spec, recs, fa):
    have = [(r, n, v) for r in recs if r["props"] for n, v in r["props"].items() if not isinstance(v, str)]
    if not have:
        return []
    r, n, v = rng.choice(have)
    a = [[n, gen_num_q(rng, v)]]
    if rng.random() < 0.4:
        others = [(m, w) for m, w in r["props"].items() if m != n and m.isidentifier()]
        if others:
            m, w = rng.choice(others)
            a.insert(rng.randrange(2), [m, gen_num_q(rng, w) if not isinstance(w, str) else gen_value_q(rng, [w], miss=("nonexistent",))])
    f = {"f": "pr", "mode": rng.choice(["and", "or"]), "a": a, "omit_mode": False}
    if rng.random() < 0.7:
        return [("C18.sel", dict(field=spec, prog=[{"k": rng.choice(["M", "F"]), "todict": False, "fs": [f], "call": False}]))]
    name = rng.choice([x for x, ts in ACCESSORS.items() if not ts or r["type"] in ts])
    return [("C18.acc", dict(field=spec, acc=name, ids=[], flts=[f], **{"def": rng.choice(["none", "exc"])}, style="key", todict=False))]


def gen_cm(rng, recs, fa):
    cms = [r for r in recs if r["type"] == "cell_method"]
    das = [r for r in recs if r["type"] == "domain_axis"]
    coords = [r for r in recs if r["type"] in ("dimension_coordinate", "auxiliary_coordinate") and r["axes"] and len(r["axes"]) == 1]
    ids = []
    r = rng.random()
    if r > 0.1:
        for _ in range(rng.choice([1, 1, 1, 2, 2, 3])):
            t = rng.random()
            if cms and t < 0.3:
                c = rng.choice(cms)
                ids.append({"s": rng.choice(c["ids"] + [c["key"], "key%" + c["key"]])})
            elif das and t < 0.55:
                d = rng.choice(das)
                ids.append({"s": rng.choice(d["ids"] + [d["key"], d["key"]])})
            elif coords and t < 0.8:
                c = rng.choice(coords)
                ids.append({"s": rng.choice(c["ids"] + [c["key"]])})
            elif t < 0.88:
                ids.append({"i": rng.randint(-3, 3)})
            else:
                ids.append({"s": rng.choice(["nonexistent", "method:nonexistent", "zzz", "area"])})
        if len(ids) == 1 and rng.random() < 0.2 and "s" in ids[0] and ids[0]["s"]:
            ids = [regex_of(rng, ids[0]["s"])]
    flts, seen = [], set()
    for _ in range(rng.choice([0, 0, 0, 1, 1, 2])):
        f = gen_filter(rng, cms or recs, fa, kinds=["mt", "mt", "key", "nv", "pr", "nx"])
        if f["f"] not in seen:
            seen.add(f["f"]); flts.append(f)
    return dict(ids=ids, flts=flts, **{"def": rng.choice(["all", "all", "all", "none", "val", "exc"])}, todict=rng.random() < 0.5,
                idkw=rng.choice([None, None, None, "first", "last"]))


def gen_dax_kw(rng, recs, fa):
    """domain_axes with identities AND other filter keywords."""
    base = gen_dax(rng, recs, fa)
    das = [r for r in recs if r["type"] == "domain_axis"]
    flts, seen = [], set()
    for _ in range(rng.choice([1, 1, 2])):
        f = gen_filter(rng, das or recs, fa, kinds=["sz", "sz", "nd", "nd", "key", "nv", "da"])
        if f["f"] not in seen:
            seen.add(f["f"]); flts.append(f)
    base["flts"] = flts
    base["idkw"] = rng.choice([None, None, None, "first", "last"])
    return base


def _emit(stream, payload):
    """A case, unless it has no documented meaning *and* the shape of a recorded defect
    (there the model, which mirrors the repaired code, has no authority either)."""
    c = mk(stream, payload)
    if stream in ("C18.err", "C18.idn"):
        return c
    if o_expected(c) is None and ("finding-shape" in c.tags or stream == "C18.cm"):
        # (cell_methods passes the misses on as a *set*: where the two readings differ the result may
        # depend on the hash order of the values)
        return None
    return c


def gen(rng, tier, n):
    per_field = 60
    done = 0
    while done < n:
        spec = expand_field_spec(gen_field_spec(rng))
        f, f0, fp, recs, fa = get_field(spec)
        m = min(per_field, n - done)
        out = []
        # every construct x every identity string it reports (as many as fit in a third of the field's share)
        pairs = [(r, s) for r in recs for s in r["ids"]]
        rng.shuffle(pairs)
        for r, s in pairs[: m // 3]:
            if rng.random() < 0.7:
                out.append(_emit("C18.sel", dict(field=spec, prog=[{"k": "M", "todict": rng.random() < 0.5, "fs": [{"f": "id", "a": [{"s": s}]}], "call": rng.random() < 0.3}])))
            else:
                name = rng.choice([a for a, ts in ACCESSORS.items() if not ts or r["type"] in ts])
                out.append(_emit("C18.acc", dict(field=spec, acc=name, ids=[{"s": s}], flts=[], **{"def": rng.choice(["none", "exc"])}, style=rng.choice(["key", "construct"]))))
        # the exclusion corner, when the field has it
        keys = {r["key"] for r in recs}
        for r in recs:
            for s in r["ids"]:
                if s in keys and s != r["key"] and len(out) < m:
                    out.append(_emit("C18.sel", dict(field=spec, prog=[{"k": "M", "todict": False, "fs": [{"f": "id", "a": [{"s": s}]}], "call": False}])))
                    # with a value that is not a key the pre-pass cannot consume them all: no exclusion then
                    other = rng.choice([{"s": "zzz"}, {"s": "long_name=zzz"}, {"p": [[False, "zzz"]]}])
                    ids2 = [{"s": s}, other] if rng.random() < 0.5 else [other, {"s": s}]
                    out.append(_emit("C18.sel", dict(field=spec, prog=[{"k": "M", "todict": rng.random() < 0.3, "fs": [{"f": "id", "a": ids2}], "call": False}])))
        # the targeted families (about a third of the field's share)
        fams = [(fam_multi_ids, 6), (fam_empty_chain, 3), (fam_inverse_inverse, 2), (fam_repeated_axis, 2),
                (fam_numeric_property, 2)]
        for fam, k in fams:
            for _ in range(k):
                if len(out) >= m:
                    break
                for stream, payload in fam(rng, spec, recs, fa):
                    out.append(_emit(stream, payload))
        tries = 0
        while len(out) < m and tries < 10 * m:
            tries += 1
            r = rng.random()
            if r < 0.6:
                c = _emit("C18.sel", dict(field=spec, prog=gen_prog(rng, recs, fa)))
            elif r < 0.8:
                c = _emit("C18.acc", dict(field=spec, **gen_acc(rng, recs, fa)))
            elif r < 0.87:
                c = _emit("C18.dax", dict(field=spec, flts=[], **gen_dax(rng, recs, fa)))
            elif r < 0.91:
                c = _emit("C18.dax", dict(field=spec, **gen_dax_kw(rng, recs, fa)))
            elif r < 0.94:
                c = _emit("C18.dak", dict(field=spec, **gen_dak(rng, recs, fa)))
            else:
                c = _emit("C18.cm", dict(field=spec, **gen_cm(rng, recs, fa)))
            out.append(c)
        # identity() against identities() and selection, for two constructs of the field
        for r in rng.sample(recs, min(2, len(recs))):
            out.append(_emit("C18.idn", dict(field=spec, idn=r["key"])))
        # the stated errors (two per field)
        for _ in range(2):
            k = rng.choice(sorted(ERR_KINDS))
            pl = dict(field=spec, err=k, a=rng.choice(SN[:6] + ["zzz"]), b=rng.choice(SN[:6]))
            if k.startswith(("accessor", "plural", "default")):
                pl["acc"] = rng.choice([a for a in PLURAL if a != "construct"]) if not k.startswith("default") else rng.choice(sorted(PLURAL))
            out.append(_emit("C18.err", pl))
        # the same kinds of query on the field's Domain (no data axes, no field-only constructs)
        if rng.random() < 0.4:
            dm, dm0, dfp, drecs, dfa = get_field(spec, "domain")
            nd = 0
            fams_d = [fam_multi_ids, fam_empty_chain, fam_repeated_axis]
            while nd < 10:
                r = rng.random()
                if r < 0.3:
                    todo = rng.choice(fams_d)(rng, spec, drecs, dfa)
                elif r < 0.6:
                    todo = [("C18.sel", dict(field=spec, prog=gen_prog(rng, drecs, dfa)))]
                elif r < 0.8:
                    todo = [("C18.acc", dict(field=spec, **gen_acc(rng, drecs, dfa)))]
                elif r < 0.87:
                    todo = [("C18.dak", dict(field=spec, **gen_dak(rng, drecs, dfa)))]
                else:
                    todo = [("C18.dax", dict(field=spec, **(gen_dax_kw(rng, drecs, dfa) if rng.random() < 0.4 else dict(flts=[], **gen_dax(rng, drecs, dfa)))))]
                for stream, payload in todo:
                    nd += 1
                    if stream == "C18.cm" or payload.get("acc") == "field_ancillary":
                        continue
                    out.append(_emit(stream, dict(payload, on="domain")))
        out = [c for c in out if c is not None]
        for c in out:
            yield c
        done += max(len(out), 1)


# ---------------------------------------------------------------- shrinking
def _variants(p):
    """Smaller payloads: fewer steps / filters / values, fewer added constructs and mutations."""
    def without(lst, i):
        return lst[:i] + lst[i + 1:]
    for key in ("prog", "flts", "ids"):
        if key in p:
            for i in range(len(p[key])):
                q = dict(p); q[key] = without(p[key], i); yield q
    for i, s in enumerate(p.get("prog", [])):
        if s["k"] == "F" and len(s["fs"]) > 1:
            for j in range(len(s["fs"])):
                q = dict(p); q["prog"] = list(p["prog"]); q["prog"][i] = dict(s, fs=without(s["fs"], j)); yield q
        if s["k"] in ("F", "M"):
            for j, f in enumerate(s["fs"]):
                if isinstance(f.get("a"), list) and len(f["a"]) > 1:
                    for t in range(len(f["a"])):
                        fs = list(s["fs"]); fs[j] = dict(f, a=without(f["a"], t))
                        q = dict(p); q["prog"] = list(p["prog"]); q["prog"][i] = dict(s, fs=fs); yield q
    fld = p["field"]
    for key in ("add", "muts"):
        for i in range(len(fld[key])):
            q = dict(p); q["field"] = dict(fld, **{key: without(fld[key], i)}); yield q


def shrink(c, run):
    sig = classify(c)
    if sig and sig.startswith("unexplained:field-changed"):
        return c
    best = c
    budget = 150
    improved = True
    while improved and budget > 0:
        improved = False
        base = {k: v for k, v in best.payload.items() if k not in ("recs", "fa")}
        for q in _variants(base):
            budget -= 1
            if budget <= 0:
                break
            try:
                _fields.clear()      # every candidate on a freshly built field: the replay must reproduce it
                d = mk(best.stream, q)
                d.impl_out = impl(d)
                d.oracle_fail = oracle(d)
            except Exception:
                continue
            if d.oracle_fail and classify(d) == sig:
                best, improved = d, True
                break
    if best is not c and best.line is not None:
        try:
            best.model_out = fw.model_run([best.line])[0]
        except Exception:
            pass
    return best


# =====================================================================
# known-finding signatures (computed from the input alone)
# =====================================================================
def _bare(s):
    return not any(ch in s for ch in "=:%")


def _identity_lists(p):
    """Every list of values that reaches _filter_by_identity in this case, with the records in scope."""
    out = []
    if p.get("ids"):
        out.append(p["ids"])
    fls = list(p.get("flts", []))
    for s in p.get("prog", []):
        fls += s.get("fs", [])
    for f in fls:
        if f["f"] == "id" and f["a"]:
            out.append(f["a"])
        if f["f"] == "ax":
            out += [[v] for v in f["a"]]
    if "ids" in p and "acc" not in p:   # dax: every id also goes alone through the coordinate route
        out += [[v] for v in p["ids"]]
    return out


def _identity_lists_scoped(p):
    """(values, records they are matched against) for every identity list of the case."""
    recs = p.get("recs") or []
    out = []
    if p.get("ids"):
        if "acc" in p:
            ts = ACCESSORS[p["acc"]]
            out.append((p["ids"], [r for r in recs if not ts or r["type"] in ts]))
        else:
            out.append((p["ids"], recs))
    fls = list(p.get("flts", []))
    for s in p.get("prog", []):
        fls += s.get("fs", [])
    for f in fls:
        if f["f"] == "id" and f["a"]:
            out.append((f["a"], recs))
    return out


def _got_keys(c):
    """The keys the implementation returned (None before the implementation has run / not a key set)."""
    out = c.impl_out
    if not isinstance(out, str) or not out.startswith("keys=["):
        return None
    return set(k for k in out[6:-1].split(",") if k)


def _known_routes(c):
    """Shapes of the open findings of Field.cell_methods / Constructs.domain_axes: a predicate of the input,
    and - once the implementation has run - of an output that is the one the recorded defect produces."""
    p = c.payload
    recs, fa = p["recs"], p["fa"]
    ids, flts = p["ids"], p.get("flts", [])
    if not ids:
        return None
    ran = c.impl_out is not None
    got = _got_keys(c)
    if c.stream == "C18.dax":
        if p.get("idkw") == "first" and flts and (not ran or c.impl_out in ("raised:AttributeError", "raised:TypeError")):
            return "domain-axes-keyword-identity-not-last"
        scope = o_scope(recs, fa, "domain_axis", flts)
        if flts:
            inscope = {r["key"] for r in scope}
            outside = set()
            for q in ids:
                if not any(o_identity(r, [q]) for r in scope):
                    a, _ = o_resolve(recs, fa, q, check_ids=False)
                    if a is not None and a not in inscope:
                        outside.add(a)
            if outside and (got is None or got & outside):
                return "domain-axes-coordinate-route-drops-filter-keywords"
        return None
    scope = o_scope(recs, fa, "cell_method", flts)
    inscope = {r["key"] for r in scope}
    cms = [r for r in recs if r["type"] == "cell_method"]
    misses = [q for q in ids if not any(o_identity(r, [q]) for r in scope)]
    if not misses:
        return None
    lo, up = o_dax(recs, fa, misses)
    if up and any(r["cmaxes"] is None for r in cms) and (not ran or c.impl_out == "raised:TypeError"):
        return "cell-methods-axis-route-cell-method-without-axes"
    extra_up = {r["key"] for r in cms if r["cmaxes"] is not None and len(r["cmaxes"]) == 1 and r["cmaxes"][0] in up}
    extra_lo = {r["key"] for r in cms if r["cmaxes"] is not None and len(r["cmaxes"]) == 1 and r["cmaxes"][0] in lo}
    direct = {r["key"] for r in scope if o_identity(r, ids)}
    if (extra_up - inscope) and (got is None or got & (extra_up - inscope)):
        return "cell-methods-axis-route-drops-filter-keywords"
    if not direct and not extra_lo and cms:
        allk = {r["key"] for r in cms}
        if not ran or got == allk or (p["def"] != "all" and len(allk) == 1 and c.impl_out == "key=" + next(iter(allk))):
            return "cell-methods-no-match-selects-all"
    return None


_REPAIRED_ROUTES = {"domain-axes-coordinate-route-drops-filter-keywords", "domain-axes-keyword-identity-not-last",
                    "cell-methods-axis-route-drops-filter-keywords", "cell-methods-no-match-selects-all",
                    "cell-methods-axis-route-cell-method-without-axes"}


def _known(c):
    p = c.payload
    if c.stream == "C18.idn":
        # identity() fell through to an identity that HEAD's short iteration does not generate
        # (behind a measure:/cell:/connectivity: identity, or contributed by the bounds)
        out = str(c.impl_out)
        if out.startswith("not selected by its identity() "):
            r = next((x for x in p.get("recs") or [] if x["key"] == p["idn"]), None)
            if r is not None:
                pos = [i for i, t in enumerate(r["ids"]) if repr(t) == out[len("not selected by its identity() "):]]
                allowed = ({r["npre"]} if r["npre"] > 0 else set()) | ({len(r["ids"]) - r["npost"]} if r["npost"] > 0 else set())
                if pos and 0 not in pos and set(pos) <= allowed and _bare(r["ids"][pos[0]]):
                    return "short-iteration-bare-identity-not-first"
                # the identity is the key of ANOTHER construct: the single value is consumed by the key pre-pass
                ident = [t for t in r["ids"] if repr(t) == out[len("not selected by its identity() "):]]
                if ident and any(x["key"] != r["key"] and ident[0] in (x["key"], "key%" + x["key"]) for x in p["recs"]):
                    return "identity-equal-to-another-constructs-key"
        return None
    if c.stream == "C18.err":
        return None
    recs = p.get("recs") or []
    keys = {r["key"] for r in recs}
    if c.stream in ("C18.dax", "C18.cm"):
        sig = _known_routes(c)
        if not sig:
            # the same shapes as HEAD's short iteration sees the coordinates (two findings combined).  The route
            # findings are repaired (b4c2641, 1d7e466) and their signatures suppress nothing: a case that only
            # takes a route shape BECAUSE the short iteration hides an identity belongs to the open
            # short-iteration finding and is left to the test below (which compares with the HEAD prediction)
            global _HEAD_SHORT
            _HEAD_SHORT = True
            try:
                sig = _known_routes(c)
            finally:
                _HEAD_SHORT = False
        if sig in _REPAIRED_ROUTES:
            # (also when the shape matched directly: the input has the shape of a repaired finding, but the failure
            # at hand may be caused by the open short-iteration finding - decided below against the HEAD prediction;
            # if it is not, the case stays unclassified and is reported)
            sig = None
        if sig:
            return sig
    # an identity equal to another construct's key, and asked for
    # (the defect needs EVERY value of the call to be a key: C18_identity_exact)
    def _is_key(q):
        return "s" in q and (q["s"] in keys or (q["s"].startswith("key%") and q["s"][4:] in keys))
    for qs in _identity_lists(p):
        if not all(_is_key(q) for q in qs):
            continue
        for q in qs:
            s = q["s"]
            k = s[4:] if s.startswith("key%") else s
            if any(s in r["ids"] and r["key"] != k for r in recs):
                return "identity-equal-to-another-constructs-key"
    # short iteration: all values bare, and some construct reports one of them not first
    for qs in _identity_lists(p):
        if all("s" in q and _bare(q["s"]) for q in qs):
            want = {q["s"] for q in qs}
            shape, elsewhere = False, False
            for r in recs:
                pos = [i for i, s in enumerate(r["ids"]) if s in want]
                if pos and 0 not in pos:
                    # the recorded defect loses the first identity of the body behind a measure: / cell: /
                    # connectivity: identity, and the first identity contributed by the bounds - nothing else
                    allowed = set()
                    if r["npre"] > 0:
                        allowed.add(r["npre"])
                    if r["npost"] > 0:
                        allowed.add(len(r["ids"]) - r["npost"])
                    if set(pos) <= allowed:
                        shape = True
                    else:
                        elsewhere = True
            if shape and not elsewhere and (c.impl_out is None or c.impl_out == _as_head(c)):
                return "short-iteration-bare-identity-not-first"
    prog = p.get("prog")
    if prog is not None:
        applied = 0
        for i, s in enumerate(prog):
            if s["k"] == "I" and s["d"] and applied == 0 and str(c.impl_out) == "raised:IndexError":
                return "inverse-filter-depth-with-no-filter-applied"
            if s["k"] in ("F", "M"):
                applied += len(s["fs"])
            elif s["k"] == "I":
                applied += 1
            elif s["k"] == "U":
                applied = 0 if s["d"] is None else max(0, applied - s["d"])
        for i, s in enumerate(prog):
            if s["k"] == "F" and not s["todict"] and any(_type_route(f) for f in s["fs"][1:]) \
                    and any(t["k"] in ("I", "U") and t["d"] for t in prog[i + 1:]):
                return "filter-kwargs-type-route-records-wrong-prefiltered"
        first = True
        for s in prog:
            if s["k"] in ("F", "M"):
                if not first:
                    for f in s["fs"]:
                        if f["f"] == "ax" and any(o_resolve(recs, p.get("fa"), v)[1] == "daid" for v in f["a"]):
                            return "axis-identity-looked-up-in-filtered-collection"
                if s["fs"] or s["k"] == "M":
                    first = False
            elif s["k"] == "I":
                first = False
    return None


def classify(c):
    """Signature of a recorded defect, else a coarse bucket (so that one regression is
    reported once, not once per case); buckets never coincide with recorded signatures."""
    sig = _known(c)
    if sig:
        return sig
    if c.impl_out is None and c.oracle_fail is None:
        return None
    if str(c.oracle_fail).startswith("the field was changed"):
        return "unexplained:field-changed-by-query"
    p = c.payload
    if c.stream == "C18.sel":
        last = [s for s in p["prog"]][-1:] or [{"k": "none"}]
        what = last[0]["fs"][-1]["f"] if last[0].get("fs") else last[0]["k"]
    elif c.stream == "C18.acc":
        what = p["acc"]
    elif c.stream == "C18.err":
        return "unexplained:C18.err:" + p["err"]
    elif c.stream == "C18.idn":
        return "unexplained:C18.idn"
    else:
        what = c.stream.split(".")[1] + (":all" if p["def"] == "all" else ":single")
    kind = "raised" if str(c.impl_out).startswith("raised") and p.get("def") != "exc" else "wrong-result"
    return f"unexplained:{c.stream}:{kind}:{what}"


def _type_route(f):
    return f["f"] in ("ty", "da") or (f["f"] in ("nx", "sz", "ax") and not f["a"])
