"""C03 — indexing, assignment and subspacing.

Streams
  C03.get   Data[...] on in-memory / netcdf_indexer / file-backed data   (model + oracle)
  C03.set   Data[...] = value                                             (model + oracle)
  C03.brev  bounds reversal rule of PropertiesDataBounds.__getitem__       (model + oracle)
  C03.field Field.__getitem__ dices every construct per axis              (oracle only)
"""
import itertools
import os
import tempfile

import numpy as np

from .. import fw
from ..fw import Case, fmt_list

REQUIRED = [
    "C03_slice_inrange",
    "C03_sel_inrange",
    "C03_getitem_order_irrelevant",
    "C03_pieces",
    "C03_setitem_axis",
    "C03_setitem_nd",
    "C03_listGroups_ok",
    "C03_bounds_reversal_slice",
]
BUDGET = {"quick": 4000, "thorough": 160000}
RULE = (
    "shapes of rank 0-4 with extents 1-6 x index tuples from {int±, slice any sign/out of range, "
    "int list unsorted/negative/repeated, bool array, Ellipsis, omitted trailing axes} x receivers "
    "{Data in memory, netcdf_indexer(numpy), netCDF4/h5netcdf file-backed Data, masked}; assignment with "
    "broadcastable values and cfdm.masked; coordinates with 2-vertex bounds; example-field subspaces. "
    "non-trivial = not a full-slice-only index; distinct = distinct (stream, shape, index, value shape, receiver)"
)
ASSUMPTIONS = [
    "array values are small integers (dtype promotion and float behaviour are compared against numpy by the oracle only)",
    "Field.__getitem__ (per-construct dice) and masks/dtypes are checked by the oracle, not by a theorem",
]

_cfdm = None


def cfdm():
    global _cfdm
    if _cfdm is None:
        import cfdm as m
        _cfdm = m
    return _cfdm


# ---------------------------------------------------------------- generators
def gen_shape(rng, allow_scalar=True):
    r = rng.choice([0, 1, 1, 2, 2, 2, 3, 3, 4]) if allow_scalar else rng.choice([1, 1, 2, 2, 2, 3, 3, 4])
    return [rng.randint(1, 6) for _ in range(r)]


def gen_axis_index(rng, n, kinds):
    k = rng.choice(kinds)
    if k == "i":
        return ("i", rng.randint(-n, n - 1))
    if k == "s":
        def b():
            return rng.choice([None, None, rng.randint(-n - 2, n + 2)])
        step = rng.choice([None, 1, 1, 2, 3, -1, -1, -2, -3, n + 1, -(n + 1)])
        return ("s", b(), b(), step)
    if k == "l":
        m = rng.randint(1, min(6, n + 2))
        if rng.random() < 0.25:
            l = sorted(rng.sample(range(n), min(m, n)))
        else:
            l = [rng.randint(-n, n - 1) for _ in range(m)]
        return ("l", l)
    if k == "b":
        bs = [rng.random() < 0.5 for _ in range(n)]
        if not any(bs):
            bs[rng.randrange(n)] = True
        return ("b", bs)
    raise AssertionError


def gen_index(rng, shape, kinds=("i", "s", "s", "l", "l", "b")):
    ix = [gen_axis_index(rng, n, kinds) for n in shape]
    r = rng.random()
    if shape and r < 0.15:
        # omit trailing axes
        ix = ix[: rng.randint(0, len(ix))]
    elif r < 0.3:
        # replace a run by Ellipsis
        a = rng.randint(0, len(ix))
        b = rng.randint(a, len(ix))
        ix = ix[:a] + [("e",)] + ix[b:]
    return ix


def enc_ix(ix):
    out = []
    for t in ix:
        if t[0] == "i":
            out.append(f"i:{t[1]}")
        elif t[0] == "s":
            out.append("s:" + ":".join("_" if v is None else str(v) for v in t[1:]))
        elif t[0] == "l":
            out.append("l:" + ",".join(str(v) for v in t[1]))
        elif t[0] == "b":
            out.append("b:" + ",".join("1" if v else "0" for v in t[1]))
        elif t[0] == "e":
            out.append("e")
    return "[" + ";".join(out) + "]"


def py_ix(ix, bool_as_array=True, seqk=0):
    """The Python index tuple.  `seqk` chooses, per sequence entry (2 bits each), HOW an integer or
    boolean sequence is handed to cfdm: list / numpy int64 array / numpy int32 array for integers,
    numpy bool array / list of bool for booleans.  The meaning of the index (and so the protocol
    line of the model) does not depend on it."""
    out = []
    j = 0
    for t in ix:
        if t[0] == "i":
            out.append(int(t[1]))
        elif t[0] == "s":
            out.append(slice(t[1], t[2], t[3]))
        elif t[0] == "l":
            k = (seqk >> (2 * j)) & 3
            j += 1
            if k == 1:
                out.append(np.array(t[1], dtype="int64"))
            elif k == 3:
                out.append(np.array(t[1], dtype="int32"))
            else:
                out.append(list(t[1]))
        elif t[0] == "b":
            k = (seqk >> (2 * j)) & 3
            j += 1
            if k == 1:
                out.append([bool(v) for v in t[1]])
            else:
                out.append(np.array(t[1], dtype=bool))
        elif t[0] == "e":
            out.append(Ellipsis)
    return tuple(out)


def expand(ix, shape):
    """Independent expansion of the raw tuple to per-axis position lists."""
    nd = len(shape)
    ix = list(ix)
    if any(t[0] == "e" for t in ix):
        k = [t[0] for t in ix].index("e")
        fill = nd - (len(ix) - 1)
        ix = ix[:k] + [("s", None, None, None)] * fill + ix[k + 1:]
    ix = ix + [("s", None, None, None)] * (nd - len(ix))
    pos = []
    for t, n in zip(ix, shape):
        if t[0] == "i":
            pos.append([t[1] % n])
        elif t[0] == "s":
            pos.append(list(range(n))[slice(t[1], t[2], t[3])])
        elif t[0] == "l":
            pos.append([v % n for v in t[1]])
        elif t[0] == "b":
            pos.append([i for i, v in enumerate(t[1]) if v])
    return pos


def trivial_ix(ix):
    return all(t[0] == "e" or (t[0] == "s" and t[1:] == (None, None, None)) for t in ix)


_scratch = None


def scratch():
    global _scratch
    if _scratch is None:
        _scratch = tempfile.mkdtemp(prefix="verif_c03_")
        import atexit, shutil
        atexit.register(shutil.rmtree, _scratch, True)
    return _scratch


_file_cache = {}


def file_data(shape, backend):
    """A lazily-read cfdm Data over a netCDF variable holding arange(shape)."""
    import netCDF4
    key = (tuple(shape), backend)
    if key not in _file_cache:
        path = os.path.join(scratch(), f"a_{'_'.join(map(str, shape))}_{os.getpid()}.nc")
        if not os.path.exists(path):
            ds = netCDF4.Dataset(path, "w")
            for i, n in enumerate(shape):
                ds.createDimension(f"d{i}", n)
            v = ds.createVariable("v", "i4", tuple(f"d{i}" for i in range(len(shape))))
            v.long_name = "v"
            v[...] = np.arange(int(np.prod(shape))).reshape(shape)
            ds.close()
        _file_cache[key] = path
    f = cfdm().read(_file_cache[key], netcdf_backend=backend)[0]
    return f.data


def gen_seqk(rng):
    # half of the cases hand every sequence over in the plain form (list / bool array)
    return 0 if rng.random() < 0.5 else rng.randrange(1 << 8)


def gen(rng, tier, n):
    n_get = int(n * 0.5)
    n_set = int(n * 0.3)
    n_brev = int(n * 0.12)
    n_field = max(4, int(n * 0.02))
    for _ in range(n_get):
        shape = gen_shape(rng)
        ix = gen_index(rng, shape)
        recv = rng.choices(["data", "masked", "indexer", "nc4", "h5"], [5, 3, 2, 1, 1])[0]
        if recv in ("nc4", "h5") and not shape:
            recv = "data"
        payload = dict(shape=shape, ix=ix, recv=recv, mseed=rng.randrange(1 << 30), seqk=gen_seqk(rng))
        yield mk_get(payload)
    for _ in range(n_set):
        shape = gen_shape(rng, allow_scalar=rng.random() < 0.1)
        # favour several list axes: that is where _set_subspace does its own work
        kinds = ("i", "s", "l", "l", "l", "b")
        ix = gen_index(rng, shape, kinds)
        pos = expand(ix, shape)
        sel_shape = [len(p) for p in pos]
        # a broadcastable value shape (right aligned)
        vs = []
        for e in sel_shape:
            vs.append(e if rng.random() < 0.7 else 1)
        drop = rng.randint(0, len(vs)) if rng.random() < 0.3 else 0
        # leading axes may only be dropped if they would broadcast anyway
        vshape = vs[drop:]
        masked = rng.random() < 0.08
        payload = dict(shape=shape, ix=ix, vshape=vshape, masked=masked, mseed=rng.randrange(1 << 30), seqk=gen_seqk(rng))
        yield mk_set(payload)
    for _ in range(n_brev):
        nn = rng.randint(1, 7)
        t = gen_axis_index(rng, nn, ("s", "s", "l", "l", "i", "b"))
        yield mk_brev(dict(n=nn, sel=t, seqk=gen_seqk(rng)))
    for _ in range(n_field):
        fi = rng.randrange(8)
        yield mk_field(dict(field=fi, iseed=rng.randrange(1 << 30)))


def mk_get(p):
    p = dict(p)
    p["ix"] = [tuple(t) if not isinstance(t, tuple) else t for t in p["ix"]]
    p["ix"] = [tuple(list(t[:1]) + [list(x) if isinstance(x, (list, tuple)) else x for x in t[1:]]) for t in p["ix"]]
    line = f"C03.get shape={fmt_list(p['shape'])} ix={enc_ix(p['ix'])}"
    tags = ["recv:" + p["recv"]] + ["ix:" + t[0] for t in p["ix"]]
    return Case("C03.get", p, line, key=line + p["recv"] + str(p.get("seqk", 0)), nontrivial=not trivial_ix(p["ix"]), tags=tags)


def mk_set(p):
    p = dict(p)
    p["ix"] = [tuple(list(t[:1]) + [list(x) if isinstance(x, (list, tuple)) else x for x in t[1:]]) for t in p["ix"]]
    line = None if p["masked"] else f"C03.set shape={fmt_list(p['shape'])} ix={enc_ix(p['ix'])} vshape={fmt_list(p['vshape'])}"
    nlist = sum(1 for t in p["ix"] if t[0] in ("l", "b"))
    tags = [f"set:listaxes={min(nlist, 3)}"] + (["set:masked"] if p["masked"] else [])
    key = f"set {p['shape']} {enc_ix(p['ix'])} {p['vshape']} {p['masked']} {p.get('seqk', 0)}"
    return Case("C03.set", p, line, key=key, nontrivial=not trivial_ix(p["ix"]), tags=tags)


def mk_brev(p):
    p = dict(p)
    t = p["sel"]
    t = tuple(list(t[:1]) + [list(x) if isinstance(x, (list, tuple)) else x for x in t[1:]])
    p["sel"] = t
    # the model receives the *parsed* selector (what _parse_indices hands over)
    n = p["n"]
    if t[0] == "i":
        j = t[1] % n
        sel = f"s:{j}:{j + 1}:1"
    elif t[0] == "b":
        pos = [i for i, v in enumerate(t[1]) if v]
        sel = f"s:{pos[0]}:{pos[0] + 1}:1" if len(pos) == 1 else "l:" + ",".join(map(str, pos))
    elif t[0] == "l" and len(t[1]) == 1:
        j = t[1][0] % n
        sel = f"s:{j}:{j + 1}:1"
    else:
        sel = enc_ix([t])[1:-1]
    line = f"C03.brev n={n} sel={sel}"
    return Case("C03.brev", p, line, key=line, nontrivial=True, tags=["brev:" + t[0]])


def mk_field(p):
    return Case("C03.field", dict(p), None, key=f"field {p['field']} {p['iseed']}", nontrivial=True, tags=["field"])


def from_payload(stream, payload):
    return {"C03.get": mk_get, "C03.set": mk_set, "C03.brev": mk_brev, "C03.field": mk_field}[stream](payload)


# ---------------------------------------------------------------- implementation
def base_array(shape, mseed, masked):
    a = np.arange(int(np.prod(shape)) if shape else 1).reshape(shape)
    if masked:
        r = np.random.RandomState(mseed % (1 << 31))
        m = r.rand(*shape) < 0.3 if shape else np.array(False)
        a = np.ma.array(a, mask=m)
    return a


def impl(c):
    C = cfdm()
    p = c.payload
    if c.stream == "C03.get":
        shape = p["shape"]
        a = base_array(shape, p["mseed"], p["recv"] == "masked")
        ix = py_ix(p["ix"], seqk=p.get("seqk", 0))
        try:
            if p["recv"] in ("data", "masked"):
                d = C.Data(a.copy())
                before = d.array.copy()
                r = d[ix].array
                c.extra = dict(src_unchanged=bool(np.ma.allequal(d.array, before) and (np.ma.getmaskarray(d.array) == np.ma.getmaskarray(before)).all()))
            elif p["recv"] == "indexer":
                # the raw indexer is given what Data hands to its array: the parsed tuple
                pix = tuple(C.Data(a)._parse_indices(ix))
                r = C.netcdf_indexer(a, mask=False, unpack=False, orthogonal_indexing=True)[pix]
                c.extra = dict(src_unchanged=True)
            else:
                d = file_data(shape, "netCDF4" if p["recv"] == "nc4" else "h5netcdf")
                r = d[ix].array
                c.extra = dict(src_unchanged=True)
        except Exception as e:
            return "raised:" + fw.exc_enum(e)
        r = np.ma.asanyarray(r)
        c.extra["mask"] = np.ma.getmaskarray(r).astype(int).flatten().tolist()
        c.extra["dtype"] = str(r.dtype)
        return f"shape={fmt_list(r.shape)} src={fmt_list(np.ma.getdata(r).flatten().tolist())}"
    if c.stream == "C03.set":
        shape = p["shape"]
        a = base_array(shape, p["mseed"], False)
        size = int(np.prod(shape)) if shape else 1
        d = C.Data(a.copy() + 1000)  # originals are >= 1000
        ix = py_ix(p["ix"], seqk=p.get("seqk", 0))
        if p["masked"]:
            v = C.masked
        else:
            v = np.arange(int(np.prod(p["vshape"])) if p["vshape"] else 1).reshape(p["vshape"])
        try:
            d[ix] = v
        except Exception as e:
            return "raised:" + fw.exc_enum(e)
        r = np.ma.asanyarray(d.array)
        c.extra = dict(mask=np.ma.getmaskarray(r).astype(int).flatten().tolist())
        flat = np.ma.getdata(r).flatten().tolist()
        return "tgt=" + fmt_list(["-" if x >= 1000 else x for x in flat])
    if c.stream == "C03.brev":
        n = p["n"]
        dc = C.DimensionCoordinate(data=C.Data(np.arange(n) * 10.0))
        b = np.empty((n, 2))
        b[:, 0] = np.arange(n) * 10.0 - 5
        b[:, 1] = np.arange(n) * 10.0 + 5
        dc.set_bounds(C.Bounds(data=C.Data(b)))
        ix = py_ix([p["sel"]], seqk=p.get("seqk", 0))
        try:
            r = dc[ix]
        except Exception as e:
            return "raised:" + fw.exc_enum(e)
        ba = r.bounds.array
        c.extra = dict(coord=r.array.tolist(), bounds=ba.tolist())
        return f"reversed={'true' if ba[0, 0] > ba[0, 1] else 'false'}"
    if c.stream == "C03.field":
        return impl_field(c)
    raise fw.HarnessError("unknown stream " + c.stream)


def agree(c):
    if c.stream == "C03.brev" and c.model_out == "rejected":
        return True
    return c.impl_out == c.model_out


# ---------------------------------------------------------------- oracle
def oracle(c):
    p = c.payload
    if c.stream == "C03.get":
        shape = p["shape"]
        a = base_array(shape, p["mseed"], p["recv"] == "masked")
        pos = expand(p["ix"], shape)
        r = np.ma.asanyarray(a)
        for ax, q in enumerate(pos):
            r = np.ma.take(r, q, axis=ax) if len(q) else r[(slice(None),) * ax + (slice(0, 0),)]
        exp = f"shape={fmt_list(r.shape)} src={fmt_list(np.ma.getdata(r).flatten().tolist())}"
        if c.impl_out != exp:
            return f"expected {exp} got {c.impl_out}"
        if c.extra["mask"] != np.ma.getmaskarray(r).astype(int).flatten().tolist():
            return "mask differs from numpy per-axis take"
        if not c.extra["src_unchanged"]:
            return "source changed by indexing"
        if p["recv"] in ("data", "masked") and c.extra["dtype"] != str(a.dtype):
            return f"dtype {c.extra['dtype']} != {a.dtype}"
        return None
    if c.stream == "C03.set":
        shape = p["shape"]
        pos = expand(p["ix"], shape)
        size = int(np.prod(shape)) if shape else 1
        tgt = np.full(shape, -1, dtype=int)
        msk = np.zeros(shape, dtype=int)
        sel_shape = [len(q) for q in pos]
        if p["masked"]:
            for t in itertools.product(*pos):
                msk[t] = 1
            if c.impl_out.startswith("raised"):
                return "masked assignment raised: " + c.impl_out
            if c.extra["mask"] != msk.flatten().tolist():
                return "mask after assigning cfdm.masked differs"
            if any(x != "-" for x, m in zip(c.impl_out[5:-1].split(","), msk.flatten()) if not m):
                return "unmasked elements changed by masked assignment"
            return None
        try:
            v = np.broadcast_to(np.arange(int(np.prod(p["vshape"])) if p["vshape"] else 1).reshape(p["vshape"]), sel_shape)
        except ValueError:
            return None if c.impl_out.startswith("raised") else "non-broadcastable value accepted"
        for k in itertools.product(*[range(len(q)) for q in pos]):
            tgt[tuple(q[i] for q, i in zip(pos, k))] = v[k]
        exp = "tgt=" + fmt_list(["-" if x < 0 else x for x in tgt.flatten().tolist()])
        if c.impl_out != exp:
            return f"expected {exp} got {c.impl_out}"
        if any(c.extra["mask"]):
            return "assignment produced masked elements"
        return None
    if c.stream == "C03.brev":
        n = p["n"]
        pos = expand([p["sel"]], [n])[0]
        if not pos:
            return None if c.impl_out.startswith("raised") else "empty subspace not rejected"
        if c.impl_out.startswith("raised"):
            return "raised on a non-empty subspace: " + c.impl_out
        if c.extra["coord"] != [10.0 * q for q in pos]:
            return "coordinate values wrong"
        rev = c.impl_out == "reversed=true"
        want = [[10.0 * q - 5, 10.0 * q + 5] for q in pos]
        if rev:
            want = [w[::-1] for w in want]
        if c.extra["bounds"] != want:
            return "bounds are not those of the selected cells"
        inc = all(b > a for a, b in zip(pos, pos[1:]))
        dec = all(b < a for a, b in zip(pos, pos[1:]))
        if len(pos) >= 2 and dec and not rev:
            return "coordinate reversed but 2-vertex bounds not reversed"
        if len(pos) >= 2 and inc and rev:
            return "coordinate not reversed but bounds reversed"
        if len(pos) == 1 and p["sel"][0] != "s" and rev:
            return "single cell selected, bounds reversed"
        return None
    if c.stream == "C03.field":
        return c.extra.get("fail")
    return None


def impl_field(c):
    C = cfdm()
    p = c.payload
    rng = fw.rng_for(p["iseed"], "field")
    f = C.example_field(p["field"])
    shape = list(f.shape)
    kinds = ("i", "s", "s", "l", "b")
    ix = gen_index(rng, shape, kinds)
    pos = expand(ix, shape)
    c.payload["ix"] = [list(t) for t in ix]
    c.payload["fshape"] = shape
    fail = None
    before = f.copy()
    seqk = 0 if rng.random() < 0.5 else rng.randrange(1 << 8)
    c.payload["seqk"] = seqk
    try:
        g = f[py_ix(ix, seqk=seqk)]
    except IndexError:
        g = None
    except Exception as e:
        c.extra = dict(fail="raised " + repr(e)[:200])
        return "raised:" + fw.exc_enum(e)
    empty = any(len(q) == 0 for q in pos)
    if g is None:
        c.extra = dict(fail=None if empty else "IndexError on a non-empty subspace")
        return "rejected"
    if empty:
        c.extra = dict(fail="empty subspace accepted")
        return "ok"

    def take(a, axes_pos):
        r = np.ma.asanyarray(a)
        for ax, q in axes_pos:
            r = np.ma.take(r, q, axis=ax)
        return r

    def same(x, y):
        x = np.ma.asanyarray(x); y = np.ma.asanyarray(y)
        return x.shape == y.shape and (np.ma.getmaskarray(x) == np.ma.getmaskarray(y)).all() and bool(np.ma.allequal(x, y))

    data_axes = list(f.get_data_axes())
    if not same(g.array, take(f.array, list(enumerate(pos)))):
        fail = "field data differ from per-axis take"
    for k, q in zip(data_axes, pos):
        if g.domain_axes(todict=True)[k].get_size() != len(q):
            fail = f"domain axis {k} not resized"
    caxes = f.constructs.data_axes()
    for key, con in f.constructs.filter_by_type(
            "dimension_coordinate", "auxiliary_coordinate", "cell_measure", "field_ancillary",
            "domain_ancillary", "domain_topology", "cell_connectivity", todict=True).items():
        axes = caxes.get(key, ())
        ap = [(i, pos[data_axes.index(a)]) for i, a in enumerate(axes) if a in data_axes]
        g_con = g.constructs[key]
        if con.has_data() and not same(g_con.array, take(con.array, ap)):
            fail = f"construct {key} data differ from per-axis take"
        if getattr(con, "has_bounds", lambda: False)() and con.bounds.has_data():
            want = take(con.bounds.array, ap)
            got = g_con.bounds.array
            if con.ndim == 1 and want.shape[-1] == 2 and ap:
                q = ap[0][1]
                dec = len(q) >= 2 and all(b < a for a, b in zip(q, q[1:]))
                inc = len(q) >= 2 and all(b > a for a, b in zip(q, q[1:]))
                if dec:
                    want = want[..., ::-1]
                elif not inc and not same(got, want):
                    want = want[..., ::-1]  # unordered selection: either orientation is allowed
            if not same(got, want):
                fail = f"construct {key} bounds differ from per-axis take"
    if not f.equals(before):
        fail = "source field changed by subspacing"
    c.extra = dict(fail=fail)
    return "ok"


# ---------------------------------------------------------------- findings
def _full_ix(ix, shape):
    nd = len(shape)
    exp = [tuple(t) for t in ix]
    if any(t[0] == "e" for t in exp):
        k = [t[0] for t in exp].index("e")
        exp = exp[:k] + [("s", None, None, None)] * (nd - (len(exp) - 1)) + exp[k + 1:]
    return exp + [("s", None, None, None)] * (nd - len(exp))


def _neg_start_below(ix, shape):
    """slice with negative step whose start lies below -size (dask normalize_index clips it to -1)."""
    return any(t[0] == "s" and t[3] is not None and t[3] < 0 and t[1] is not None and t[1] < -n
               for t, n in zip(_full_ix(ix, shape), shape))


def _has_bool_list(p, ix):
    """some boolean sequence of the index is handed over as a Python list of bool (see py_ix)."""
    seqk = p.get("seqk", 0)
    j = 0
    for t in ix:
        if t[0] in ("l", "b"):
            k = (seqk >> (2 * j)) & 3
            j += 1
            if t[0] == "b" and k == 1:
                return True
    return False


def classify(c):
    sig = _classify(c)
    if sig:
        return sig
    p = c.payload
    ixs = p.get("ix") if c.stream != "C03.brev" else [p["sel"]]
    if ixs and _has_bool_list(p, ixs) and c.stream in ("C03.get", "C03.set", "C03.brev", "C03.field"):
        # fixed in /repo (see known_findings.json): reported again if it returns
        return "boolean-list-index-taken-as-integers-0-1"
    return None


def _classify(c):
    p = c.payload
    if c.stream == "C03.get":
        shape, ix = p["shape"], p["ix"]
        if _neg_start_below(ix, shape):
            return "slice-negative-step-start-below-minus-size"
        if p["recv"] == "h5" and str(c.impl_out).startswith("raised"):
            full = _full_ix(ix, shape)
            if any(t[0] == "s" and t[3] is not None and t[3] < 0 for t in full):
                return "h5netcdf-backend-negative-step-slice"
            for t, n in zip(full, shape):
                if t[0] == "l":
                    q = [v % n for v in t[1]]
                    if any(b <= a for a, b in zip(q, q[1:])):
                        return "h5netcdf-backend-unsorted-or-repeated-list-index"
    if c.stream == "C03.brev":
        if p["sel"][0] == "s" and _neg_start_below([p["sel"]], [p["n"]]):
            return "slice-negative-step-start-below-minus-size"
    if c.stream == "C03.field" and "ix" in p:
        if _neg_start_below(p["ix"], p["fshape"]):
            return "slice-negative-step-start-below-minus-size"
    return None
