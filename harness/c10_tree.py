"""C10.tree — the aggregation of original file names over the whole component tree.

A construct read lazily from X (and its twin read from M, a second copy of the same dataset under
another name) is taken apart and put together again through the public constructors: compressed
arrays (ragged contiguous / indexed / indexed contiguous, gathered, subsampled, UGRID bounds from
nodes) are rebuilt with every part chosen independently (kept, taken from the twin, brought to
memory, wrapped in a fresh variable), data are moved into fresh `Data`, constructs into fresh
constructs, the whole into a fresh field; then one `to_memory()` of some sub-object; then
`cfdm.write(result, target)`.

Model input: the object graph of the result, abstracted by a *generic* walk over the `_components`
of every object (role = component key; a component that holds a file array and that the model has
no role for is a harness error, so new code cannot hide).  Compared with the model
(`lean/Cfdm/Model/FilesTree.lean`): the files still needed after the `to_memory()` (independent
deep walk over `__dict__`), `get_original_filenames()`, refused / proceeds of the write.
Oracle: every file array reachable from the written object names a file that is byte-identical
after the write; a refusal leaves every file alone.
"""
import gc
import hashlib
import json
import os
import shutil

import numpy as np

from . import fw
from .fw import Case

NAMES = {0: "x.nc", 2: "z.nc", 3: "w.nc", 5: "m.nc"}
SEEDS = [("subsampled_1", 14), ("subsampled_1", 15), ("subsampled_1", 13), ("subsampled_1", 0),
         ("ugrid_1", 1), ("ugrid_1", 2), ("ugrid_2", 1), ("ugrid_2", 2), ("ugrid_1", 0),
         ("contiguous_file", 0), ("indexed_file", 0), ("indexed_contiguous_file", 0), ("gathered_file", 0),
         ("gathered_file", 2), ("geometry_1_file", 0), ("interior_ring_file", 0)]
CTF = sorted(set(s for s, _ in SEEDS))

SIG_IP = "interpolation-parameter-variable-not-aggregated"
SIG_NC = "node-coordinates-of-ugrid-bounds-not-aggregated"

CT = {"": "dnone", "gathered": "dgath", "ragged contiguous": "drc", "ragged indexed": "dri",
      "ragged indexed contiguous": "dric", "subsampled": "dsub", "bounds from nodes": "dbfn"}
ROLE = {("field", "data"): "data", ("pdb", "data"): "data", ("pd", "data"): "data", ("pdb", "bounds"): "bounds",
        ("pdb", "interior_ring"): "ring", ("pdb", "node_count"): "nodeCount", ("pdb", "part_node_count"): "partNodeCount"}
ARRROLE = {"count_variable": "count", "index_variable": "index", "list_variable": "list", "tie_point_indices": "tpi",
           "parameters": "ip", "dependent_tie_points": "dtp", "node_coordinates": "nc"}

_cfdm = None
_c10 = None


def cfdm():
    global _cfdm
    if _cfdm is None:
        import logging
        import cfdm as m
        m.log_level("DISABLE")
        logging.disable(logging.CRITICAL)
        _cfdm = m
    return _cfdm


def C10():
    global _c10
    if _c10 is None:
        from .corr import C10 as m
        _c10 = m
    return _c10


# --------------------------------------------------------------------------- independent deep walk
def deep_files(obj, seen=None, out=None):
    """Names of every file array reachable from `obj` through `__dict__`, dicts, lists, tuples."""
    from cfdm.data.mixin import FileArrayMixin
    if seen is None:
        seen, out = set(), set()
    if id(obj) in seen:
        return out
    seen.add(id(obj))
    if isinstance(obj, FileArrayMixin):
        out.update(obj.get_filenames())
        return out
    if obj is None or isinstance(obj, (str, bytes, int, float, bool, np.ndarray, np.generic, type)):
        return out
    if isinstance(obj, dict):
        for v in obj.values():
            deep_files(v, seen, out)
        return out
    if isinstance(obj, (list, tuple, set, frozenset)):
        for v in obj:
            deep_files(v, seen, out)
        return out
    d = getattr(obj, "__dict__", None)
    if d is not None and type(obj).__module__.startswith("cfdm"):
        for v in d.values():
            deep_files(v, seen, out)
    return out


# --------------------------------------------------------------------------- environment
class Env:
    def __init__(self, payload):
        C = cfdm()
        m = C10()
        self.p = payload
        m._counter[0] += 1
        self.dir = os.path.join(m.scratch(), f"t{os.getpid()}_{m._counter[0]}")
        os.makedirs(self.dir)
        self.path = {n: os.path.join(self.dir, NAMES[n]) for n in NAMES}
        sx = m.seed_path(dict(kind="ctf", name=payload["seed"]))
        shutil.copyfile(sx, self.path[0])
        shutil.copyfile(sx, self.path[5])
        shutil.copyfile(m.seed_path(dict(kind="example", i=2)), self.path[2])
        self.by_path = {os.path.abspath(v): k for k, v in self.path.items()}
        self.fx = C.read(self.path[0])[payload["ix"]]
        self.fm = C.read(self.path[5])[payload["ix"]]
        # the working object starts as a copy of `base`; "the twin" is where the other parts come from
        self.base = payload.get("base", "x")
        self.twin = self.fm if self.base == "x" else self.fx

    def names(self, paths):
        out = set()
        for q in paths:
            k = self.by_path.get(os.path.abspath(q))
            if k is None:
                raise fw.HarnessError(f"file name outside the scratch directory: {q}")
            out.add(k)
        return out

    def S(self, paths):
        s = sorted(self.names(paths))
        return ".".join(str(x) for x in s) if s else "-"

    def close(self):
        self.fx = self.fm = self.twin = None
        gc.collect()
        shutil.rmtree(self.dir, ignore_errors=True)


# --------------------------------------------------------------------------- abstraction
def family(x):
    C = cfdm()
    if isinstance(x, C.Field):
        return "field"
    if isinstance(x, C.Domain):
        return "domain"
    if isinstance(x, C.Data):
        return "data"
    if hasattr(x, "get_bounds") and hasattr(x, "get_data"):
        return "pdb"
    if hasattr(x, "get_data"):
        return "pd"
    return "props"


def cfdm_objects(v):
    """cfdm objects directly in a component value (or one level inside a dict / list / tuple)."""
    def is_obj(o):
        return hasattr(o, "_components") and type(o).__module__.startswith("cfdm")
    if is_obj(v):
        return [v]
    if isinstance(v, dict):
        return [o for _, o in sorted(v.items(), key=lambda kv: str(kv[0])) if is_obj(o)]
    if isinstance(v, (list, tuple)):
        return [o for o in v if is_obj(o)]
    return []


class Node:
    __slots__ = ("role", "cls", "own", "kids", "files", "obj", "parent_fam")

    def __init__(self, role, cls=None, own=(), kids=None, files=None, obj=None, parent_fam=None):
        self.role, self.cls, self.own, self.kids, self.files, self.obj, self.parent_fam = \
            role, cls, own, kids or [], files, obj, parent_fam

    def text(self, env):
        if self.cls is None:
            return f"L{self.role}:{_N(self.files)}"
        return f"O{self.role}:{self.cls}:{_N(self.own)}[" + ",".join(k.text(env) for k in self.kids) + "]"

    def at(self, path):
        n = self
        for i in path:
            n = n.kids[i]
        return n

    def walk(self, path=()):
        yield path, self
        for i, k in enumerate(self.kids):
            yield from k.walk(path + (i,))


def _N(names):
    s = sorted(set(names))
    return ".".join(str(x) for x in s) if s else "-"


def own_of(env, x):
    try:
        return env.names(x._get_component("original_filenames", ()))
    except AttributeError:
        return set()


def abstract(env, x, role="top", parent_fam=None):
    fam = family(x)
    own = own_of(env, x)
    kids = []
    if fam in ("field", "domain"):
        if fam == "field" and x.get_data(None) is not None:
            kids.append(abstract(env, x.get_data(), "data", fam))
        for k, c in sorted(x.constructs.todict().items()):
            if family(c) == "props" and not own_of(env, c):
                if deep_files(c):
                    raise fw.HarnessError(f"a construct without data holds a file array: {k}")
                continue
            kids.append(abstract(env, c, "cons", fam))
        for key, v in x._components.items():
            if key not in ("data", "constructs") and deep_files(v):
                raise fw.HarnessError(f"unmodelled component {key!r} of a {type(x).__name__} holds a file array")
        return Node(role, fam, own, kids, obj=x, parent_fam=parent_fam)
    if fam in ("pdb", "pd"):
        for key, v in sorted(x._components.items()):
            if key == "original_filenames":
                continue
            r = ROLE.get((fam, key))
            objs = cfdm_objects(v)
            if r is None:
                if deep_files(v):
                    raise fw.HarnessError(f"unmodelled component {key!r} of a {type(x).__name__} holds a file array")
                continue
            for o in objs:
                kids.append(abstract(env, o, r, fam))
        return Node(role, fam, own, kids, obj=x, parent_fam=parent_fam)
    if fam == "data":
        A = x.source(None)
        ct = x.get_compression_type()
        cls = CT.get(ct, "dmesh")
        comps = getattr(A, "_components", {}) if A is not None else {}
        if ct:
            kids.append(Node("arr", files=env.names(deep_files(comps.get("compressed_Array")))))
            for key, v in sorted(comps.items()):
                if key == "compressed_Array":
                    continue
                r = ARRROLE.get(key)
                objs = cfdm_objects(v)
                if r is None or not objs:
                    if deep_files(v):
                        raise fw.HarnessError(f"unmodelled component {key!r} of a {type(A).__name__} holds a file array")
                    continue
                for o in objs:
                    kids.append(abstract(env, o, r, "array"))
        else:
            kids.append(Node("arr", files=env.names(deep_files(A))))
        for key, v in x._components.items():
            if key != "array" and deep_files(v):
                raise fw.HarnessError(f"unmodelled component {key!r} of a Data holds a file array")
        return Node(role, cls, own, kids, obj=x, parent_fam=parent_fam)
    if deep_files(x):
        raise fw.HarnessError(f"an object without data holds a file array: {type(x).__name__}")
    return Node(role, "props", own, [], obj=x, parent_fam=parent_fam)


def hidden_files(node, role, inside=False, out=None):
    """Files of the leaves below a component of the given role."""
    if out is None:
        out = set()
    inside = inside or node.role == role
    if node.cls is None:
        if inside:
            out.update(node.files)
    for k in node.kids:
        hidden_files(k, role, inside, out)
    return out


# --------------------------------------------------------------------------- taking apart and putting together
HOWS = ["keep", "other", "otherlazy", "mem", "fresh", "freshlazy"]
KINDS = ["src", "count", "index", "list", "tpi", "ip", "dtp", "nc"]


def var_part(v, vm, how):
    """A variable held by an array: kept, the twin's, the twin's lazy data in a fresh variable, brought to
    memory (the record stays), a fresh variable around the values, a fresh variable around the lazy data."""
    C = cfdm()
    if how == "keep" or v is None:
        return v
    if how == "other":
        return vm if vm is not None else v
    if how == "mem":
        return v.to_memory()
    src = vm if (how == "otherlazy" and vm is not None) else v
    d = src.get_data(None)
    if d is None:
        return v
    w = type(v)()
    w.set_properties(v.properties())
    w.set_data(C.Data(d.array) if how == "fresh" else C.Data(d.source()))
    return w


def arr_part(a, am, how):
    """An array (or Data) held by an array."""
    if how in ("keep", "freshlazy") or a is None:
        return a
    if how in ("other", "otherlazy"):
        return am if am is not None else a
    try:
        return a.to_memory()
    except AttributeError:
        return a


def parse_hows(txt):
    out = {}
    if txt and txt != "-":
        for t in txt.split("."):
            k, v = t.split("-")
            out[k] = v
    return out


def rebuild_array(A, AM, hows):
    """A new array of the class of A from its parts; `hows`: {part kind: choice}, default keep."""
    C = cfdm()
    name = type(A).__name__
    if AM is None or type(AM) is not type(A):
        AM = A
    h = lambda k: hows.get(k, "keep")
    src = arr_part(A.source(), AM.source(), h("src"))
    if name == "RaggedContiguousArray":
        return C.RaggedContiguousArray(compressed_array=src, shape=A.shape,
                                       count_variable=var_part(A.get_count(), AM.get_count(), h("count")))
    if name == "RaggedIndexedArray":
        return C.RaggedIndexedArray(compressed_array=src, shape=A.shape,
                                    index_variable=var_part(A.get_index(), AM.get_index(), h("index")))
    if name == "RaggedIndexedContiguousArray":
        return C.RaggedIndexedContiguousArray(compressed_array=src, shape=A.shape,
                                              count_variable=var_part(A.get_count(), AM.get_count(), h("count")),
                                              index_variable=var_part(A.get_index(), AM.get_index(), h("index")))
    if name == "GatheredArray":
        return C.GatheredArray(compressed_array=src, shape=A.shape, compressed_dimensions=A.compressed_dimensions(),
                               list_variable=var_part(A.get_list(), AM.get_list(), h("list")))
    if name == "SubsampledArray":
        def each(d, dm, how):
            return {k: var_part(v, dm.get(k), how) for k, v in d.items()}
        tpi = each(A.get_tie_point_indices(), AM.get_tie_point_indices(), h("tpi"))
        par = each(A.get_parameters(), AM.get_parameters(), h("ip"))
        dtp = {k: arr_part(v, AM.get_dependent_tie_points().get(k), h("dtp"))
               for k, v in A.get_dependent_tie_points().items()}
        dtp_dims = A.get_dependent_tie_point_dimensions()
        if not dtp and h("dtp") in ("other", "otherlazy"):
            # none of the test files has dependent tie points: the twin's tie points serve as one (the
            # interpolation methods of these files do not look at it)
            t = AM.source()
            dtp = {"extra": t if h("dtp") == "other" else C.Data(t.source())}
            dtp_dims = {"extra": tuple(range(t.ndim))}
        return C.SubsampledArray(interpolation_name=A.get_interpolation_name(None), compressed_array=src, shape=A.shape,
                                 computational_precision=A.get_computational_precision(None),
                                 interpolation_description=A.get_interpolation_description(None),
                                 tie_point_indices=tpi, parameters=par, parameter_dimensions=A.get_parameter_dimensions(),
                                 dependent_tie_points=dtp, dependent_tie_point_dimensions=dtp_dims)
    if name == "BoundsFromNodesArray":
        return C.BoundsFromNodesArray(node_connectivity=src, shape=A.shape, start_index=A.get_start_index(),
                                      cell_dimension=A.get_cell_dimension(),
                                      node_coordinates=arr_part(A.get_node_coordinates(), AM.get_node_coordinates(), h("nc")))
    raise ValueError("not a rebuildable array")


def kinds_of(A):
    """The part kinds an array has."""
    name = type(A).__name__
    out = ["src"]
    if name in ("RaggedContiguousArray", "RaggedIndexedContiguousArray"):
        out.append("count")
    if name in ("RaggedIndexedArray", "RaggedIndexedContiguousArray"):
        out.append("index")
    if name == "GatheredArray":
        out.append("list")
    if name == "SubsampledArray":
        if A.get_tie_point_indices():
            out.append("tpi")
        if A.get_parameters():
            out.append("ip")
        out.append("dtp")
    if name == "BoundsFromNodesArray" and A.get_node_coordinates(None) is not None:
        out.append("nc")
    return out


def slot_holder(f, slot):
    """'f' (the field), 'c-<key>' (a construct), 'b-<key>' (its bounds), 'r-<key>' (its interior ring)."""
    if slot == "f":
        return f
    kind, key = slot.split("-", 1)
    c = f.construct(key)
    if kind == "c":
        return c
    if kind == "b":
        return c.get_bounds()
    return c.get_interior_ring()


def fresh_construct(c, raw):
    """The construct built again from its parts: no record of its own, nor in its bounds / ring."""
    C = cfdm()

    def dat(d):
        return C.Data(d.source()) if raw else d

    c2 = type(c)()
    c2.set_properties(c.properties())
    if c.nc_get_variable(None) is not None:
        c2.nc_set_variable(c.nc_get_variable())
    if c.get_data(None) is not None:
        c2.set_data(dat(c.get_data()))
    for getter, setter in (("get_measure", "set_measure"), ("get_cell", "set_cell"), ("get_connectivity", "set_connectivity"),
                           ("get_geometry", "set_geometry"), ("get_node_count", "set_node_count"),
                           ("get_part_node_count", "set_part_node_count")):
        if hasattr(c, getter):
            v = getattr(c, getter)(None)
            if v is not None:
                getattr(c2, setter)(v)
    if hasattr(c, "get_bounds") and c.get_bounds(None) is not None:
        b = c.get_bounds()
        b2 = C.Bounds()
        b2.set_properties(b.properties())
        if b.get_data(None) is not None:
            b2.set_data(dat(b.get_data()))
        c2.set_bounds(b2)
    if hasattr(c, "get_interior_ring") and c.get_interior_ring(None) is not None:
        r = c.get_interior_ring()
        r2 = C.InteriorRing()
        if r.get_data(None) is not None:
            r2.set_data(dat(r.get_data()))
        c2.set_interior_ring(r2)
    return c2


def fresh_field(f, raw):
    C = cfdm()
    g = C.Field()
    g.set_properties(f.properties())
    if f.nc_get_variable(None) is not None:
        g.nc_set_variable(f.nc_get_variable())
    cons = f.constructs.todict()
    for k, c in cons.items():
        if c.construct_type == "domain_axis":
            g.set_construct(c.copy(), key=k)
    axes = f.constructs.data_axes()
    for k, c in cons.items():
        if c.construct_type == "domain_axis":
            continue
        if k in axes:
            g.set_construct(c, key=k, axes=axes[k])
        else:
            g.set_construct(c, key=k)
    d = f.get_data(None)
    if d is not None:
        g.set_data(C.Data(d.source()) if raw else d, axes=f.get_data_axes())
    return g


def apply_step(env, h, tok):
    """One step on the working object; returns the (possibly new) working object."""
    C = cfdm()
    p = tok.split(":")
    op = p[0]
    if op == "rebuild":
        slot, hows = p[1], parse_hows(p[2])
        holder = slot_holder(h, slot)
        d = holder.get_data()
        A = d.source()
        try:
            AM = slot_holder(env.twin, slot).get_data().source()
        except Exception:
            AM = None
        if d.get_compression_type():
            new = C.Data(rebuild_array(A, AM, hows))
        else:
            new = C.Data(arr_part(A, AM, hows.get("src", "keep")))
        holder.set_data(new)
        return h
    if op == "rawdata":
        holder = slot_holder(h, p[1])
        holder.set_data(C.Data(holder.get_data().source()))
        return h
    if op == "freshcons":
        key = p[1]
        c2 = fresh_construct(h.construct(key), p[2] == "1")
        ax = h.constructs.data_axes().get(key)
        if ax is not None:
            h.set_construct(c2, key=key, axes=ax)
        else:
            h.set_construct(c2, key=key)
        return h
    if op == "freshall":
        raw = p[1] == "1"
        for key, c in list(h.constructs.filter_by_data(todict=True).items()):
            c2 = fresh_construct(c, raw)
            h.set_construct(c2, key=key, axes=h.constructs.data_axes().get(key))
        return fresh_field(h, raw)
    if op == "transplant":
        # the data of the same slot of the twin read from M
        slot = p[1]
        slot_holder(h, slot).set_data(slot_holder(env.twin, slot).get_data())
        return h
    raise fw.HarnessError(f"unknown step {tok}")


def slots_of(f):
    out = ["f"] if f.get_data(None) is not None else []
    for k, c in sorted(f.constructs.filter_by_data(todict=True).items()):
        if c.get_data(None) is not None:
            out.append("c-" + k)
        if hasattr(c, "get_bounds") and c.get_bounds(None) is not None and c.get_bounds().get_data(None) is not None:
            out.append("b-" + k)
        if hasattr(c, "get_interior_ring") and c.get_interior_ring(None) is not None and \
                c.get_interior_ring().get_data(None) is not None:
            out.append("r-" + k)
    return out


def propose(rng, h):
    slots = slots_of(h)
    comp = [s for s in slots if slot_holder(h, s).get_data().get_compression_type() in CT and
            slot_holder(h, s).get_data().get_compression_type()]
    kind = rng.choice(["rebuild"] * 5 + ["rawdata", "freshcons", "freshall", "freshall", "transplant"])
    if kind == "rebuild":
        s = rng.choice(comp * 3 + slots) if comp else rng.choice(slots)
        hows = ".".join(f"{k}-{rng.choice(HOWS)}" for k in KINDS if rng.random() < 0.7)
        return f"rebuild:{s}:{hows or '-'}"
    if kind == "rawdata":
        return f"rawdata:{rng.choice(slots)}"
    if kind == "transplant":
        return f"transplant:{rng.choice(slots)}"
    if kind == "freshcons":
        keys = sorted(k for k, c in h.constructs.filter_by_data(todict=True).items() if c.get_data(None) is not None)
        if not keys:
            return f"freshall:{rng.choice('011')}"
        return f"freshcons:{rng.choice(keys)}:{rng.choice('01')}"
    return f"freshall:{rng.choice('011')}"


def start(env):
    """The working object: a copy of the field read from X (base x) or from M (base m), or the field read from X
    brought to memory and rebuilt from its parts, so that nothing of it remembers or needs a file (base mem)."""
    if env.base == "x":
        return env.fx.copy()
    if env.base == "m":
        return env.fm.copy()
    h = env.fx.copy()
    if h.get_data(None) is not None:
        h.to_memory(inplace=True)
    for c in h.constructs.filter_by_data(todict=True).values():
        c.to_memory(inplace=True)
    h = apply_step(env, h, "freshall:1")
    # the variables inside compressed arrays remember their file too: fresh ones around the values
    for s in slots_of(h):
        d = slot_holder(h, s).get_data()
        if d.get_compression_type() in CT and d.get_compression_type():
            kinds = [k for k in kinds_of(d.source()) if k != "dtp"]
            h = apply_step(env, h, f"rebuild:{s}:" + ".".join(f"{k}-{'mem' if k == 'src' else 'fresh'}" for k in kinds))
    return h


def build(env, steps):
    h = start(env)
    for tok in steps:
        h = apply_step(env, h, tok)
    return h


def mem_candidates(root):
    """Objects on which `to_memory(inplace=True)` is applied directly: the data of the field, constructs, their
    data, bounds and interior rings and the data of those (all handed out by reference by the public getters)."""
    out = []
    for path, n in root.walk():
        if n.cls is None or not path:
            continue
        if n.parent_fam in ("field", "domain", "pdb", "pd") and n.cls != "props":
            out.append(path)
    return out


# --------------------------------------------------------------------------- generation
_AIM = None


def aim_index():
    """{(array class | plain:<f|c|b|r>, part kind): [(seed, ix, slot)]} over the seed datasets: every kind of
    component that can hold a file array, wherever the test files have one."""
    global _AIM
    if _AIM is None:
        idx = {}
        for seed, ix in SEEDS:
            env = Env(dict(seed=seed, ix=ix))
            try:
                f = env.fx
                for s in slots_of(f):
                    d = slot_holder(f, s).get_data()
                    if d.get_compression_type() in CT and d.get_compression_type():
                        A = d.source()
                        for k in kinds_of(A):
                            idx.setdefault((type(A).__name__, k), []).append((seed, ix, s))
                    else:
                        idx.setdefault(("plain:" + s[0], "src"), []).append((seed, ix, s))
            finally:
                env.close()
        _AIM = idx
    return _AIM


def aimed_steps(rng, env, h, slot, kind):
    """One file-backed part in an object that otherwise needs no file (or only M): the part `kind` of the data
    of `slot`, taken lazily from the twin."""
    d = slot_holder(h, slot).get_data()
    how = rng.choice(["other", "otherlazy"])
    if d.get_compression_type():
        rest = rng.choice(["mem", "fresh"]) if env.base == "mem" else "keep"
        hows = ".".join(f"{k}-{how if k == kind else rest}" for k in kinds_of(d.source()))
    else:
        hows = f"src-{how}"
    return [f"rebuild:{slot}:{hows}"]


def gen_one(rng):
    aimed = rng.random() < 0.65
    if aimed:
        # every kind of component equally often, whatever the number of places that have one
        idx = aim_index()
        akey = rng.choice(sorted(idx))
        seed, ix, aslot = rng.choice(idx[akey])
    else:
        seed, ix = rng.choice(SEEDS + SEEDS[:8])
    base = rng.choice(["mem", "mem", "m"]) if aimed else rng.choice(["x", "x", "m", "mem"])
    payload = dict(seed=seed, ix=ix, base=base)
    env = Env(payload)
    try:
        steps = []
        h = start(env)
        if aimed:
            todo = aimed_steps(rng, env, h, aslot, akey[1])
            if base == "m" and rng.random() < 0.5:
                todo = todo + ["freshall:1"]
        else:
            todo = [None] * rng.choice([1, 2, 2, 3, 3, 4])
        for tok in todo:
            if tok is None:
                tok = propose(rng, h)
            trial = h.copy()
            try:
                trial = apply_step(env, trial, tok)
                trial.copy()
                trial.get_original_filenames()
            except fw.HarnessError:
                raise
            except Exception:
                continue
            h = apply_step(env, h, tok)
            steps.append(tok)
        root = abstract(env, h)
        need = sorted(env.names(deep_files(h)))
        mem = None
        if rng.random() < (0.15 if aimed else 0.45):
            cands = mem_candidates(root)
            if cands:
                mem = list(rng.choice(cands))
        # aim at a file that is still needed most of the time
        if aimed and 0 in need:
            target = rng.choice([0] * 8 + [5, 2, 3])
        else:
            target = rng.choice(need * 3 + [0, 5, 2, 3])
        payload.update(steps=steps, mem=mem, target=target, aimed=aimed)
        payload["t"] = root.text(env)
        payload["info"] = dict(need=need)
        return payload
    finally:
        env.close()


def line_of(p):
    mem = "-" if p["mem"] is None else (".".join(str(i) for i in p["mem"]) or ".")
    return f"C10.tree t={p['t']} mem={mem} target={p['target']}"


def make_case(p):
    tags = ["tree:" + p["seed"], "tree-steps:" + str(len(p["steps"])), "tree-target:" + NAMES[p["target"]],
            "tree-base:" + p.get("base", "x")]
    if p.get("aimed"):
        tags.append("tree-aimed")
        for s in p["steps"]:
            if s.startswith("rebuild:"):
                for t in s.split(":")[2].split("."):
                    if t.endswith("-other") or t.endswith("-otherlazy"):
                        tags.append("tree-only-through:" + t.split("-")[0])
    tags += sorted(set("tree-op:" + s.split(":")[0] for s in p["steps"]))
    if p["mem"] is not None:
        tags.append("tree-to_memory")
    for r, tag in (("Oip:", "tree-has:interpolation-parameter"), ("Onc:", "tree-has:node-coordinates"),
                   ("Otpi:", "tree-has:tie-point-index"), ("Ocount:", "tree-has:count"), ("Oindex:", "tree-has:index"),
                   ("Olist:", "tree-has:list"), ("Oring:", "tree-has:interior-ring"), ("Odtp:", "tree-has:dependent-tie-points")):
        if r in p["t"]:
            tags.append(tag)
    info = p.get("info") or {}
    key = json.dumps({k: v for k, v in p.items() if k not in ("t", "info")}, sort_keys=True)
    return Case("C10.tree", p, line_of(p), key=key, nontrivial=bool(info.get("need", True)), tags=tags)


def from_payload(payload):
    p = dict(payload)
    env = Env(p)
    try:
        p["t"] = abstract(env, build(env, p["steps"])).text(env)
    finally:
        env.close()
    return make_case(p)


# --------------------------------------------------------------------------- implementation side
def sha(path):
    if os.path.islink(path):
        return ("link", os.readlink(path))
    if os.path.isfile(path):
        with open(path, "rb") as fh:
            return ("file", hashlib.sha256(fh.read()).hexdigest(), os.stat(path).st_ino)
    return None


def impl(c):
    C = cfdm()
    p = c.payload
    env = Env(p)
    try:
        h = build(env, p["steps"])
        if p["mem"] is not None:
            node = abstract(env, h).at(p["mem"])
            node.obj.to_memory(inplace=True)
        need = env.names(deep_files(h))
        orig = env.names(h.get_original_filenames())
        names = sorted(NAMES)
        e0 = {n: sha(env.path[n]) for n in names}
        tpath = env.path[p["target"]]
        rfd, wfd = os.pipe()
        pid = os.fork()
        if pid == 0:
            code = 1
            try:
                os.close(rfd)
                try:
                    C.write(h, tpath)
                    out = "ok"
                except Exception as e:
                    out = "raised:" + fw.exc_enum(e)
                with os.fdopen(wfd, "w") as fh:
                    fh.write(out)
                code = 0
            finally:
                os._exit(code)
        os.close(wfd)
        with os.fdopen(rfd) as fh:
            outcome = fh.read() or "crashed"
        os.waitpid(pid, 0)
        e1 = {n: sha(env.path[n]) for n in names}
        same = {str(n): e0[n] == e1[n] for n in names}
        refused = outcome == "raised:ValueError" and all(same.values())
        O = dict(need=sorted(need), orig=sorted(orig), same=same, outcome=outcome, refused=refused)
        return f"need={_N(need)} orig={_N(orig)} w={'refused' if refused else 'proceeds'}@@" + json.dumps(O, sort_keys=True)
    finally:
        env.close()


def split(c):
    if c.impl_out is None or "@@" not in c.impl_out:
        return None, None
    a, b = c.impl_out.split("@@", 1)
    return dict(x.split("=", 1) for x in a.split()), json.loads(b)


def model(c):
    if not c.model_out or c.model_out == "bad-op":
        return None
    d = dict(x.split("=", 1) for x in c.model_out.split())
    d["w_old"], d["w_new"] = d["w"].split("/")
    return d


def agree(c):
    a, _ = split(c)
    m = model(c)
    if a is None or m is None:
        return False
    return a["need"] == m["need"] and a["orig"] in (m["old"], m["new"]) and a["w"] in (m["w_old"], m["w_new"])


def oracle(c):
    a, O = split(c)
    if O is None:
        return f"the harness could not observe the case: {c.impl_out}"
    msgs = []
    if O["outcome"] == "crashed":
        msgs.append("the interpreter crashed (fatal signal) during the write")
    for n in O["need"]:
        if not O["same"].get(str(n), True):
            msgs.append(f"file {NAMES[n]}, from which a component of the written construct still has unread data, was "
                        f"deleted or altered (write outcome {O['outcome']}; get_original_filenames() = {O['orig']})")
    return "; ".join(msgs) if msgs else None


def classify(c):
    a, O = split(c)
    m = model(c)
    if O is None or m is None:
        return None
    t = c.payload["target"]
    damaged = [n for n in O["need"] if not O["same"].get(str(n), True)]
    if damaged and a["orig"] == m["old"] and a["w"] == m["w_old"] == "proceeds" and m["w_new"] == "refused" \
            and a["need"] == m["need"] and t not in O["orig"]:
        # which rarely visited component holds the target
        txt = c.payload["t"]
        ip = _under(txt, "Oip:")
        nc = _under(txt, "Onc:")
        if t in ip and t not in nc:
            return SIG_IP
        if t in nc and t not in ip:
            return SIG_NC
        if t in ip or t in nc:
            return SIG_IP + "+" + SIG_NC
    if O["outcome"] == "crashed":
        return "unexplained:interpreter-crashed"
    if damaged:
        return "unexplained:needed-file-damaged"
    return None


def _under(txt, marker):
    """Files named in the leaves of the sub-trees that start with `marker` (bracket matching)."""
    out = set()
    i = txt.find(marker)
    while i >= 0:
        j = txt.index("[", i)
        depth, k = 1, j + 1
        while depth and k < len(txt):
            depth += txt[k] == "["
            depth -= txt[k] == "]"
            k += 1
        sub = txt[j:k]
        pos = sub.find("Larr:")
        while pos >= 0:
            end = pos + 5
            while end < len(sub) and sub[end] not in ",]":
                end += 1
            names = sub[pos + 5:end]
            if names != "-":
                out.update(int(x) for x in names.split("."))
            pos = sub.find("Larr:", end)
        i = txt.find(marker, k)
    return out
