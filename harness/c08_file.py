"""C08 helpers: the netCDF4-only view of a written dataset, the Python statement of `wfFile`
(Lean: Cfdm/Model/NcFile.lean), an independent naive CF decoder written from the CF text, and the
abstraction of live cfdm fields through public accessors that the decoder's output is compared with.

Nothing in this module calls cfdm's reader or writer.
"""
import hashlib
import re

import netCDF4
import numpy as np

REF_KINDS = [
    "coordinates", "bounds", "climatology", "cell_measures", "ancillary_variables", "grid_mapping",
    "formula_terms", "cell_methods", "compress", "sample_dimension", "instance_dimension", "geometry",
    "node_coordinates", "node_count", "part_node_count", "interior_ring", "nodes",
]
STRUCTURAL = set(REF_KINDS) | {"dimensions", "external_variables", "Conventions"}
MARKER = "verif_id"


# ----------------------------------------------------------------------------- canonical values
def _h(b):
    return hashlib.sha1(b).hexdigest()[:12]


def tok(v):
    """Canonical token of an attribute / property value (dtype-blind, exact)."""
    if isinstance(v, bytes):
        v = v.decode()
    if isinstance(v, str):
        return "s:" + v
    try:
        a = np.asarray(v)
        if a.dtype.kind in "SU":
            return "S:" + "|".join(str(x) for x in a.flatten().tolist())
        a = a.astype("f8").flatten()
        if a.size == 1:
            return "n:" + repr(float(a[0]))
        return "a:" + ",".join(repr(float(x)) for x in a)
    except Exception:
        return "?:" + repr(v)[:60]


def hash_array(a):
    """(squeezed shape, hash of values+mask); strings by text, numbers as float64."""
    a = np.ma.asanyarray(a)
    if a.dtype.kind in "SUO":
        if a.dtype.kind == "S" and a.dtype.itemsize == 1 and a.ndim >= 1:
            a = netCDF4.chartostring(np.ma.filled(a, b""))
        flat = [x.decode() if isinstance(x, bytes) else str(x) for x in np.asarray(np.ma.filled(np.ma.asanyarray(a), "")).flatten().tolist()]
        flat = [x.rstrip("\x00").rstrip() for x in flat]
        shape = [n for n in np.shape(a) if n != 1]
        return [shape, _h("\x00".join(flat).encode())]
    mask = np.ma.getmaskarray(a)
    data = np.where(mask, 0.0, np.ma.getdata(a).astype("f8"))
    shape = [n for n in a.shape if n != 1]
    return [shape, _h(np.ascontiguousarray(data).tobytes() + np.ascontiguousarray(mask).tobytes())]


# ----------------------------------------------------------------------------- attribute grammars
def parse_pairs(s):
    """'a: x b: y z' -> [('a', ['x']), ('b', ['y', 'z'])]"""
    out = []
    for t in s.split():
        if t.endswith(":"):
            out.append((t[:-1], []))
        elif out:
            out[-1][1].append(t)
        else:
            out.append((None, [t]))
    return out


def cell_method_axes(s):
    s = re.sub(r"\([^)]*\)", " ", s)
    return [t[:-1] for t in s.split() if t.endswith(":")]


def parse_cell_methods(s):
    """Sequence of (axes, method, qualifiers-string) from the CF grammar (chapter 7.3)."""
    out = []
    # split into "name: [name: ...] method [where ..] [over ..] [(...)]"
    pieces = re.findall(r"((?:[^\s():]+:\s*)+)([^\s():]+)((?:\s+(?:where|over|within)\s+[^\s():]+)*)\s*(\([^)]*\))?", s)
    for names, method, wo, par in pieces:
        axes = [n.strip()[:-1] for n in names.split()]
        quals = " ".join((wo or "").split())
        if par:
            quals = (quals + " " + " ".join(par.split())).strip()
        out.append((axes, method, quals))
    return out


def refs_of_attrs(attrs, container=None):
    """(kind, token) for every token of every reference attribute, in REF_KINDS order (cell_methods last but
    for the compression / geometry attributes, which name dimensions / variables only)."""
    refs = []
    if container is None:
        container = "node_coordinates" in attrs
    for kind in REF_KINDS:
        if kind not in attrs:
            continue
        s = str(attrs[kind])
        if kind in ("cell_measures", "formula_terms"):
            for _, ts in parse_pairs(s):
                for t in ts:
                    refs.append((kind, t))
        elif kind == "grid_mapping":
            if ":" in s:
                for g, cs in parse_pairs(s):
                    refs.append(("grid_mapping", g))
                    for c in cs:
                        refs.append(("grid_mapping_coord", c))
            else:
                for t in s.split():
                    refs.append(("grid_mapping", t))
        elif kind == "cell_methods":
            for t in cell_method_axes(s):
                refs.append((kind, t))
        elif kind == "coordinates" and container:
            for t in s.split():
                refs.append(("container_coord", t))
        else:
            for t in s.split():
                refs.append((kind, t))
    return refs


# ----------------------------------------------------------------------------- abstract(file)
def abstract_file(path, dedup_refs=False):
    """What an independent netCDF reader sees (root group only; the writer is driven flat).
    `dedup_refs`: the written fields contain equal twin constructs (which the writer legitimately shares),
    so a token may be listed once per twin."""
    nc = netCDF4.Dataset(path, "r")
    try:
        A = dict(dims={}, vars={}, order=[], globals={}, external=[], groups=sorted(nc.groups))
        for k in nc.ncattrs():
            A["globals"][k] = nc.getncattr(k)
        A["external"] = str(A["globals"].get("external_variables", "")).split()
        for n, d in nc.dimensions.items():
            A["dims"][n] = (len(d), bool(d.isunlimited()))
        for n, v in nc.variables.items():
            attrs = {a: v.getncattr(a) for a in v.ncattrs()}
            rawdims = list(v.dimensions)
            is_char = (v.dtype == "S1" or str(v.dtype) == "|S1") and len(rawdims) >= 1
            dims = rawdims[:-1] if is_char else rawdims
            if "dimensions" in attrs and not rawdims:
                dims = str(attrs["dimensions"]).split()  # CF 5.8 domain variable
            refs = refs_of_attrs(attrs)
            if dedup_refs:
                refs = list(dict.fromkeys(refs))
            try:
                filt = v.filters() or {}
            except Exception:
                filt = {}
            A["vars"][n] = dict(name=n, dims=dims, rawdims=rawdims, dtype=("str" if v.dtype is str else str(np.dtype(v.dtype))),
                                attrs=attrs, refs=refs, isData=MARKER in attrs, endian=v.endian(),
                                chunking=v.chunking(), filters=filt)
            A["order"].append(n)
        return A
    finally:
        nc.close()


# ----------------------------------------------------------------------------- wfFile in Python
def _subset(a, b):
    return all(x in b for x in a)


def implied(A, ds):
    out = []
    for n in A["order"]:
        w = A["vars"][n]
        for k, t in w["refs"]:
            if k == "sample_dimension":
                if t in ds:
                    out += w["dims"]
            elif k in ("instance_dimension", "compress"):
                if w["dims"] and all(d in ds for d in w["dims"]):
                    out.append(t)
    return out


def eff_dims(A, v):
    d1 = v["dims"] + implied(A, v["dims"])
    return d1 + implied(A, d1)


def ref_ok(A, v, kind, target):
    V = A["vars"]
    if kind in ("coordinates", "ancillary_variables", "grid_mapping_coord"):
        return target in V and _subset(V[target]["dims"], eff_dims(A, v))
    if kind == "cell_measures":
        if target in V:
            return _subset(V[target]["dims"], eff_dims(A, v))
        return target in A["external"]
    if kind in ("bounds", "climatology"):
        if target not in V:
            return False
        t = V[target]["dims"]
        return len(t) == len(v["dims"]) + 1 and t[: len(v["dims"])] == v["dims"]
    if kind in ("grid_mapping", "formula_terms", "geometry", "node_coordinates", "node_count", "part_node_count",
                "interior_ring", "nodes", "container_coord"):
        return target in V
    if kind == "cell_methods":
        return (target in eff_dims(A, v) or target == "area"
                or (("coordinates", target) in v["refs"] and target in V and V[target]["dims"] == []))
    if kind in ("compress", "sample_dimension", "instance_dimension"):
        return target in A["dims"]
    raise ValueError(kind)


def _distinct(xs):
    return len(set(xs)) == len(xs)


def needed(A, v):
    if v["isData"]:
        return True
    if any(k in ("compress", "sample_dimension", "instance_dimension") for k, _ in v["refs"]):
        return True
    for w in A["vars"].values():
        for k, t in w["refs"]:
            if t == v["name"] and k not in ("cell_methods", "compress", "sample_dimension", "instance_dimension"):
                return True
    if v["dims"] == [v["name"]]:
        for w in A["vars"].values():
            if w["name"] != v["name"] and (v["name"] in w["dims"] or ("compress", v["name"]) in w["refs"]):
                return True
    return False


def external_ok(A, e):
    return e not in A["vars"] and any(("cell_measures", e) in w["refs"] for w in A["vars"].values())


def wf_py(A):
    """Same rules, same order of diagnosis as Cfdm.NcFile.firstFailure."""
    vs = [A["vars"][n] for n in A["order"]]
    if not _distinct(list(A["dims"])):
        return "bad:dimension-names"
    if not _distinct(A["order"]):
        return "bad:variable-names"
    for v in vs:
        if not all(d in A["dims"] for d in v["dims"]):
            return "bad:dimension-missing:" + v["name"]
    for v in vs:
        if not all(ref_ok(A, v, k, t) for k, t in v["refs"]):
            return "bad:reference:" + v["name"]
    for v in vs:
        if not _distinct([r for r in v["refs"] if r[0] not in ("cell_methods", "grid_mapping_coord")]):
            return "bad:duplicate-reference:" + v["name"]
    for v in vs:
        if not needed(A, v):
            return "bad:orphan:" + v["name"]
    for e in A["external"]:
        if not external_ok(A, e):
            return "bad:external:" + e
    return "ok"


def apply_steps_py(steps):
    """Cfdm.NcFile.applySteps in Python: (index of the first refused step or None, final abstract file)."""
    A = dict(dims={}, vars={}, order=[], external=[])
    for i, st in enumerate(steps):
        k = st[0]
        if k == "d":
            if st[1] in A["dims"]:
                return i, A
            A["dims"][st[1]] = (st[2], False)
        elif k == "v":
            name, dims = st[1], list(st[2])
            if name in A["vars"] or name in A["external"]:
                return i, A
            v = dict(name=name, dims=dims, refs=[], isData=False)
            A["vars"][name] = v
            A["order"].append(name)
            if not all(d in A["dims"] for d in dims):
                return i, A
        elif k == "r":
            name, kind, target = st[1], st[2], st[3]
            if name not in A["vars"]:
                return i, A
            v = A["vars"][name]
            v["refs"].append((kind, target))
            if not ref_ok(A, v, kind, target):
                return i, A
        elif k == "e":
            if st[1] in A["vars"]:
                return i, A
            A["external"].append(st[1])
        else:
            raise ValueError(st)
    return None, A


def dump_structure(A):
    """Canonical text of dims / variables / references / external names (what `C08.emit` compares)."""
    dims = ",".join(sorted(A["dims"]))
    vs = ";".join(f"{n}|{','.join(A['vars'][n]['dims'])}|{','.join(sorted(k + '>' + t for k, t in set(A['vars'][n]['refs'])))}"
                  for n in sorted(A["vars"]))
    return f"dims=[{dims}] vars=[{vs}] ext=[{','.join(sorted(A['external']))}]"


_SAFE = re.compile(r"^[A-Za-z0-9_.+@-]+$")


def wf_line(A):
    """Protocol line for the Lean driver, or None when a name is not protocol-safe."""
    names = list(A["dims"]) + A["order"] + A["external"] + [t for v in A["vars"].values() for _, t in v["refs"]]
    if not all(_SAFE.match(n) for n in names):
        return None
    dims = ",".join(f"{n}:{s}" for n, (s, _) in A["dims"].items())
    vs = []
    for n in A["order"]:
        v = A["vars"][n]
        vs.append("|".join([n, ",".join(v["dims"]), "D" if v["isData"] else "-", ",".join(f"{k}>{t}" for k, t in v["refs"])]))
    return f"C08.wf dims=[{dims}] vars=[{';'.join(vs)}] ext=[{','.join(A['external'])}]"


# ----------------------------------------------------------------------------- naive CF decoder
def _props(attrs, extra_skip=()):
    return sorted((k, tok(v)) for k, v in attrs.items() if k not in STRUCTURAL and k not in extra_skip and k != MARKER)


class Decoder:
    """Rebuilds, per data variable, the abstract content the CF conventions say the file has.
    Written from the CF text only (chapters 2.4, 4, 5, 6.1, 7.1-7.4); geometry containers and
    compression by gathering / ragged arrays are not decoded (the variables are only listed)."""

    def __init__(self, path):
        self.A = abstract_file(path)
        self.nc = netCDF4.Dataset(path, "r")
        self.nc.set_auto_maskandscale(True)

    def close(self):
        self.nc.close()

    def array(self, name):
        v = self.nc.variables[name]
        if v.dtype is str:
            a = v[...]
            return np.asarray(a, dtype=object) if np.ndim(a) else np.asarray([a], dtype=object)
        v.set_auto_scale(False)
        a = v[...]
        return a

    def hash(self, name):
        return hash_array(self.array(name))

    def axis_id(self, v, token):
        A = self.A
        if token == "area":
            return "area"
        if token in v["dims"]:
            if token in A["vars"] and A["vars"][token]["dims"] == [token]:
                return "c:" + self.hash(token)[1]
            if A["dims"][token][0] == 1:
                # a size-one dimension without coordinate variable: identified by its only 1-d auxiliary coordinate
                cands = [t for t in dict.fromkeys(str(v["attrs"].get("coordinates", "")).split())
                         if t in A["vars"] and A["vars"][t]["dims"] == [token]]
                if len(cands) == 1:
                    return "c:" + self.hash(cands[0])[1]
            return f"n:{A['dims'][token][0]}"
        if token in A["vars"] and A["vars"][token]["dims"] == []:
            return "c:" + self.hash(token)[1]
        return "?:" + token

    def coordinate(self, v, name, role):
        w = self.A["vars"][name]
        attrs = w["attrs"]
        b = attrs.get("bounds") or attrs.get("climatology")
        size = [self.A["dims"][d][0] for d in w["dims"]]
        kind = "dim" if (role == "dim" and size and size[0] > 1) else "coord"
        return dict(kind=kind, props=_props(attrs, ("computed_standard_name",)), data=self.hash(name),
                    bounds=(self.hash(str(b)) if b and str(b) in self.A["vars"] else None),
                    clim="climatology" in attrs, var=name, geometry="nodes" in attrs)

    def field(self, name):
        A = self.A
        v = A["vars"][name]
        attrs = v["attrs"]
        out = dict(var=name)
        props = dict((k, tok(x)) for k, x in A["globals"].items() if k not in STRUCTURAL)
        props.update((k, tok(x)) for k, x in attrs.items() if k not in STRUCTURAL and k != MARKER)
        out["props"] = sorted(props.items())
        domain = "dimensions" in attrs
        dims = str(attrs["dimensions"]).split() if domain else v["dims"]
        out["data"] = None if domain else self.hash(name)
        coords = []
        for d in dims:
            if d in A["vars"] and A["vars"][d]["dims"] == [d]:
                coords.append(self.coordinate(v, d, "dim"))
        for t in str(attrs.get("coordinates", "")).split():
            if t in A["vars"] and not (t in dims and A["vars"][t]["dims"] == [t]):
                coords.append(self.coordinate(v, t, "aux"))
        out["coords"] = coords
        out["measures"] = []
        for m, ts in parse_pairs(str(attrs.get("cell_measures", ""))):
            for t in ts:
                if t in A["vars"]:
                    out["measures"].append([m, _props(A["vars"][t]["attrs"]), self.hash(t)])
                else:
                    out["measures"].append([m, None, "external:" + t])
        out["ancils"] = [[_props(A["vars"][t]["attrs"]), self.hash(t)] for t in str(attrs.get("ancillary_variables", "")).split()
                         if t in A["vars"]]
        gms = []
        gm = str(attrs.get("grid_mapping", ""))
        if gm:
            pairs = parse_pairs(gm) if ":" in gm else [(t, []) for t in gm.split()]
            for g, cs in pairs:
                if g in A["vars"]:
                    gms.append([sorted((k, tok(x)) for k, x in A["vars"][g]["attrs"].items()),
                                sorted(self.hash(c)[1] for c in cs if c in A["vars"]) if cs else None])
        out["grid_mappings"] = gms
        fts = []
        for c in coords:
            ft = A["vars"][c["var"]]["attrs"].get("formula_terms")
            if ft:
                fts.append([c["data"][1], sorted((term, self.hash(ts[0])[1]) for term, ts in parse_pairs(str(ft)) if ts and ts[0] in A["vars"])])
        out["formula_terms"] = fts
        out["cell_methods"] = [[sorted(self.axis_id(v, a) for a in axes), method, quals]
                               for axes, method, quals in parse_cell_methods(str(attrs.get("cell_methods", "")))]
        return out


# ----------------------------------------------------------------------------- abstract(original field)
def _cprops(c, skip=("computed_standard_name",)):
    return sorted((k, tok(v)) for k, v in c.properties().items() if k not in skip)


def abstract_field(f, omit_props=()):
    """The same structure from a live cfdm Field/Domain (public accessors only)."""
    is_field = hasattr(f, "get_data") and type(f).__name__ == "Field"
    out = {}
    out["props"] = sorted((k, tok(v)) for k, v in f.properties().items() if k not in STRUCTURAL and k != MARKER and k not in omit_props)
    data = f.get_data(None) if is_field else None
    out["data"] = hash_array(data.array) if data is not None else None
    da = f.constructs.data_axes()
    axes = f.domain_axes(todict=True)
    data_axes = list(f.get_data_axes(default=())) if is_field else list(axes)
    dimc = f.dimension_coordinates(todict=True)
    auxc = f.auxiliary_coordinates(todict=True)
    key_hash = {}
    coords = []
    for k, c in list(dimc.items()) + list(auxc.items()):
        d = c.get_data(None)
        b = c.get_bounds(None)
        bd = b.get_data(None) if b is not None else None
        hd = hash_array(d.array) if d is not None else None
        key_hash[k] = hd[1] if hd else None
        size1 = all(axes[a].get_size() == 1 for a in da[k])
        kind = "dim" if (k in dimc and not size1) else "coord"
        try:
            clim = c.get_climatology(None) is not None or bool(getattr(c, "is_climatology", lambda: False)())
        except Exception:
            clim = False
        coords.append(dict(kind=kind, props=_cprops(c), data=hd, bounds=hash_array(bd.array) if bd is not None else None,
                           clim=bool(clim), ncvar=c.nc_get_variable(None), geometry=c.get_geometry(None) is not None if hasattr(c, "get_geometry") else False))
    out["coords"] = coords
    out["measures"] = []
    for k, c in f.cell_measures(todict=True).items():
        d = c.get_data(None)
        if c.nc_get_external():
            out["measures"].append([c.get_measure(None), None, "external:" + str(c.nc_get_variable(None))])
        else:
            out["measures"].append([c.get_measure(None), _cprops(c), hash_array(d.array) if d is not None else None])
    out["ancils"] = []
    if is_field:
        for k, c in f.field_ancillaries(todict=True).items():
            out["ancils"].append([_cprops(c), hash_array(c.data.array)])
    danc = f.domain_ancillaries(todict=True)
    gms, fts = [], []
    refs = f.coordinate_references(todict=True)
    vdatums = []
    for k, r in refs.items():
        cc = r.coordinate_conversion
        if cc.get_parameter("grid_mapping_name", None) is not None:
            params = dict(r.datum.parameters())
            params.update(cc.parameters())
            gms.append([sorted((p, tok(v)) for p, v in params.items() if v is not None),
                        sorted(str(key_hash.get(c)) for c in r.coordinates())])
        if cc.get_parameter("standard_name", None) is not None:
            owners = [c for c in r.coordinates() if c in key_hash and (dimc.get(c) or auxc.get(c)).get_property("standard_name", None) == cc.get_parameter("standard_name")]
            terms = []
            for term, dk in cc.domain_ancillaries().items():
                if dk is not None and dk in danc:
                    terms.append((term, hash_array(danc[dk].data.array)[1]))
            for term, val in cc.parameters().items():
                if term not in ("standard_name", "computed_standard_name") and val is not None:
                    terms.append((term, hash_array(np.asarray(getattr(val, "array", val)))[1]))
            if len(owners) == 1:
                fts.append([key_hash[owners[0]], sorted(terms)])
                dp = sorted((p, tok(v)) for p, v in r.datum.parameters().items() if v is not None)
                if dp:
                    vdatums.append(dp)
    out["grid_mappings"] = gms
    out["vertical_datums"] = vdatums
    out["formula_terms"] = fts
    # axis identities for cell methods
    def axis_id(a):
        """The identities under which a CF file may present this axis (any one of them)."""
        if a not in axes:
            return [a if a == "area" else "?:" + str(a)]
        for k in dimc:
            if tuple(da[k]) == (a,):
                return ["c:" + key_hash[k]]
        if axes[a].get_size() == 1:
            # a size-one axis without dimension coordinate: a scalar coordinate variable (any of its 1-d auxiliary
            # coordinates), or a size-one dimension (identified by its only auxiliary coordinate, if it has just one)
            ks = [str(key_hash[k]) for k in auxc if tuple(da[k]) == (a,)]
            if ks:
                return sorted({"c:" + h for h in ks}) + (["n:1"] if len(ks) > 1 else [])
        return [f"n:{axes[a].get_size()}"]
    cms = []
    if is_field:
        for k, cm in f.cell_methods(todict=True).items():
            q = cm.qualifiers()
            parts = []
            for w in ("within", "where", "over"):
                if w in q:
                    parts.append(f"{w} {q[w]}")
            par = []
            if "interval" in q:
                for iv in q["interval"]:
                    par.append(f"interval: {iv}")
            if "comment" in q:
                par.append(f"comment: {q['comment']}")
            if par:
                if len(par) == 1 and "comment" not in q:
                    parts.append("(" + par[0] + ")")
                else:
                    parts.append("(" + " ".join(par) + ")")
            cms.append([[axis_id(a) for a in cm.get_axes(())], cm.get_method(None), " ".join(parts)])
    out["cell_methods"] = cms
    out["ncvar"] = f.nc_get_variable(None)
    return out


def has_twins(f):
    """Two metadata constructs of one field with the same type, properties and data (the writer shares them)."""
    seen = set()
    for k, c in f.constructs.filter_by_data(todict=True).items():
        d = c.get_data(None)
        if d is None:
            continue
        sig = repr([c.construct_type, _cprops(c), hash_array(d.array)])
        if sig in seen:
            return True
        seen.add(sig)
    return False


def _norm_quals(s):
    # "(interval: 1 hour)" vs "(1 hour)" are the same statement in CF when there is no comment
    s = re.sub(r"\(\s*interval:\s*([^():]*?)\s*\)", r"(\1)", s)
    return " ".join(s.split())


def compare(orig, dec):
    """None, or the first difference between abstract(original field) and the decoded variable."""
    if dict(orig["props"]) != dict(dec["props"]):
        a, b = dict(orig["props"]), dict(dec["props"])
        ks = sorted(k for k in set(a) | set(b) if a.get(k) != b.get(k))
        return f"properties differ on {ks[:4]}: {[a.get(k) for k in ks[:2]]} vs {[b.get(k) for k in ks[:2]]}"
    if orig["data"] != dec["data"]:
        return f"data differ: {orig['data']} vs {dec['data']}"

    def ckey(c):
        return repr([c["kind"], c["props"], c["data"], c["bounds"], c["clim"]])
    oc = sorted(ckey(c) for c in orig["coords"] if not (c["data"] is None and c.get("geometry")))
    dc = sorted(ckey(c) for c in dec["coords"] if not c.get("geometry_nodata"))
    if oc != dc:
        only_o = [x for x in oc if x not in dc]
        only_d = [x for x in dc if x not in oc]
        return f"coordinates differ: only in original {only_o[:1]}; only in file {only_d[:1]}"
    # a cell measure marked external is named in external_variables — or, when an equal variable is already in
    # the file (written for another field), shared like any other construct
    om, dm = list(orig["measures"]), list(dec["measures"])
    for e in list(om):
        if e in dm:
            om.remove(e)
            dm.remove(e)
    for e in list(om):
        if e[1] is None and str(e[2]).startswith("external:"):
            hit = next((x for x in dm if x[0] == e[0] and x[1] is not None), None)
            if hit is not None:
                om.remove(e)
                dm.remove(hit)
    if om or dm:
        return f"measures differ: {orig['measures']} vs {dec['measures']}"
    if sorted(map(repr, orig["ancils"])) != sorted(map(repr, dec["ancils"])):
        return f"ancils differ: {orig['ancils']} vs {dec['ancils']}"
    # grid mappings: every original one is in the file with its parameters (and, when the file lists
    # coordinates, with at least its own); a further one may only hold the datum of a parametric vertical
    # coordinate (CF 5.6: the vertical datum is recorded in a grid mapping), and no such datum is lost
    left = list(dec["grid_mappings"])
    for params, coords in orig["grid_mappings"]:
        hit = None
        for g in left:
            if g[0] == params and (g[1] is None or all(c in g[1] for c in coords)):
                hit = g
                break
        if hit is None:
            return f"grid mapping {params} (coordinates {coords}) not found in the file: {dec['grid_mappings']}"
        left.remove(hit)
    for g in left:
        datum = [kv for kv in g[0] if kv[0] != "grid_mapping_name"]
        if ("grid_mapping_name", "s:latitude_longitude") not in g[0] or datum not in orig.get("vertical_datums", []):
            return f"grid mapping in the file that the field does not have: {g[0]}"
    for dp in orig.get("vertical_datums", []):
        if not any(all(kv in g[0] for kv in dp) for g in dec["grid_mappings"]):
            return f"vertical datum {dp} not recorded in any grid mapping of the file"
    if sorted(map(repr, orig["formula_terms"])) != sorted(map(repr, dec["formula_terms"])):
        return f"formula terms differ: {orig['formula_terms']} vs {dec['formula_terms']}"
    ocm = [[a, m, _norm_quals(q)] for a, m, q in orig["cell_methods"]]
    dcm = [[a, m, _norm_quals(q)] for a, m, q in dec["cell_methods"]]
    if len(ocm) != len(dcm) or any(o[1:] != d[1:] or not _axes_match(o[0], d[0]) for o, d in zip(ocm, dcm)):
        return f"cell methods differ: {ocm} vs {dcm}"
    return None


def _axes_match(accept, got):
    """Every axis of the original cell method (a list of acceptable identities each) is one of the decoded
    identities, one to one."""
    if len(accept) != len(got):
        return False
    if not accept:
        return True
    for i, g in enumerate(got):
        if g in accept[0] and _axes_match(accept[1:], got[:i] + got[i + 1:]):
            return True
    return False
