"""C17 — the independent oracle: the property restated on what `c17_observe.run_scenario` saw.

Nothing here calls cfdm.  For every append of a scenario:

  refusal     the request is one that the documentation of cfdm.write(mode='a') lists as
              unsupported (a field with netCDF groups; a featureType incompatible with the
              dataset's: several different ones in the batch, or one that differs from the
              dataset's global attribute, or one when the dataset has none — global attributes are
              never rewritten)  ⇒  the call raised and the file is byte-for-byte unchanged;
  otherwise   the call returned normally and
     old      every field read before is read after (full fingerprint incl. netCDF names and
              nc_global_attributes), as a multiset;
     globals  the dataset's global attributes are unchanged (netCDF4 view);
     file     every variable (dimensions, shape = current lengths of its dimensions, data type, attributes, contents) and
              every dimension (length, unlimited or not) of the dataset is unchanged (netCDF4 view);
     new      exactly one more field per appended construct, each equal to the construct (as its
              own mode-'w' round trip returns it) in everything but netCDF names and the
              properties that the dataset holds as global attributes.
  Whatever the outcome of the call, `old`, `globals` and `file` must hold (a failed append must not
  have damaged what was there).

`analyse` returns (mechanism code, text) pairs; the codes are the signatures used for known findings.
"""
import collections
import json

DESCR = ("comment", "Conventions", "featureType", "history", "institution", "references", "source", "title")

# order in which one signature is chosen for a failing scenario
PRIORITY = [
    "old-variable-modified",
    "global-attributes-changed",
    "dataset-unreadable-after-append",
    "shared-scalar-string-coordinate-unreadable",
    "unsupported-request-modified-file",
    "crash:dataset-reread-while-held-open",
    "featureType-not-refused",
    "groups-not-refused",
    "compatible-featureType-refused",
    "append-domain-attributeerror",
    "missing-value-differs-from-fill-value-rejected",
    "dimension-name-used-as-coordinate-variable-name",
    "name-with-blank-clash",
    "name-in-use-clash",
    "dry-run-registry-names-not-in-dataset",
    "supported-request-failed",
    "external-variable-not-declared",
    "formula-terms-dropped",
    "scalar-formula-term-parameter-written-again",
    "formula-terms-on-shared-coordinate",
    "description-property-dropped",
    "old-field-differs-file-unchanged:datum",
    "old-field-differs-file-unchanged",
    "old-field-lost",
    "new-field-count",
    "new-field-not-equal",
]


def documented_unsupported(step, view0, fmt):
    """None, or the reason for which the documentation says the request cannot be honoured."""
    feats = step["feats"]
    if any(f["groups"] for f in feats):
        return "groups"
    fts = [f["ft"] for f in feats if f["ft"] is not None]
    if fts:
        if len(set(fts)) > 1:
            return "featureType:several"
        file_ft = view0["g"].get("featureType")
        if file_ft is None:
            return "featureType:dataset-has-none"
        if file_ft != fts[0]:
            return "featureType:differs"
    return None


def _k(f):
    return json.dumps([f["full"], f["ga"], f["kind"]], sort_keys=True)


def _ms(fields):
    return collections.Counter(_k(f) for f in fields)


def _modulo(nn, gnames):
    props = [p for p in nn["props"] if p[0] not in gnames]
    return json.dumps([props, nn["rest"]], sort_keys=True)


def _file_changes(step):
    out = []
    v0, v1 = step["view0"], step["view1"]
    if v1["g"] != v0["g"]:
        ks = sorted(k for k in set(v0["g"]) | set(v1["g"]) if v0["g"].get(k) != v1["g"].get(k))
        out.append(("global-attributes-changed", "global attributes changed: " + ",".join(ks)))
    for k, d in v0["d"].items():
        if v1["d"].get(k) != d:
            out.append(("old-variable-modified", f"dimension {k} changed: {d} -> {v1['d'].get(k)}"))
    for k, v in v0["v"].items():
        w = v1["v"].get(k)
        if w != v:
            what = "missing" if w is None else ",".join(x for x in ("dims", "shape", "dtype", "attrs", "sha") if w.get(x) != v.get(x))
            out.append(("old-variable-modified", f"variable {k} changed: {what}"))
    return out


def _only_datum_differs(f, g):
    try:
        x, y = json.loads(f["full"]), json.loads(g["full"])
        for key in set(x) | set(y):
            if key != "refs" and x.get(key) != y.get(key):
                return False
        rx = [json.loads(r) for r in x.get("refs", [])]
        ry = [json.loads(r) for r in y.get("refs", [])]
        if len(rx) != len(ry):
            return False
        strip = lambda r: {k: v for k, v in r.items() if k != "datum"}
        return sorted(json.dumps(strip(r), sort_keys=True) for r in rx) == sorted(json.dumps(strip(r), sort_keys=True) for r in ry)
    except Exception:
        return False


REFS = ("coordinates", "bounds", "climatology", "grid_mapping", "cell_measures", "formula_terms", "ancillary_variables",
        "geometry", "node_coordinates", "node_count", "part_node_count", "interior_ring")


def domain_byproducts(view):
    """Variables reachable from a domain variable (one with a `dimensions` attribute).  A read in field mode
    does not see domain variables, so it returns their coordinate, bounds, grid-mapping … variables as
    'fields' as long as no data variable refers to them; these by-products are not fields of the dataset
    (they come and go as data variables start sharing them) and are left out of the before/after comparison."""
    if view is None:
        return set()
    vs = view["v"]
    seen, todo = set(), [k for k, v in vs.items() if "dimensions" in v["attrs"]]
    roots = set(todo)
    while todo:
        k = todo.pop()
        v = vs.get(k)
        if v is None:
            continue
        names = []
        for a in REFS + ("dimensions",):
            x = v["attrs"].get(a)
            if isinstance(x, str):
                names += [t.rstrip(":") for t in x.split()]
        names += list(v["dims"])
        for n in names:
            if n in vs and n not in seen and n not in roots:
                seen.add(n)
                todo.append(n)
    return seen


def _visible(fields, skip):
    return [f for f in fields if not (f["kind"] == "Field" and f["ncvar"] in skip)]


def check_preserved(step):
    if step.get("view1") is None or step.get("after") is None:
        why = str(step.get("unreadable"))
        code = "dataset-unreadable-after-append"
        if "Shape of (1, 1) does not match" in why:
            code = "shared-scalar-string-coordinate-unreadable"
        return [(code, "dataset unreadable after the call: " + why)]
    out = _file_changes(step)
    skip = domain_byproducts(step["view1"])
    b, a = _ms(_visible(step["before"], skip)), _ms(_visible(step["after"], skip))
    lost = b - a
    if lost:
        n = sum(lost.values())
        code = "old-field-lost"
        if not out:
            # nothing of the old dataset changed on disk: the reader returns another field for the same variable
            code = "old-field-differs-file-unchanged"
            byvar = {(f["ncvar"], f["kind"]): f for f in step["after"]}
            only_datum = True
            for f in step["before"]:
                if lost[_k(f)] > 0:
                    g = byvar.get((f["ncvar"], f["kind"]))
                    if g is None:
                        code = "old-field-lost"
                        break
                    only_datum = only_datum and _only_datum_differs(f, g)
            if code == "old-field-differs-file-unchanged" and only_datum:
                code += ":datum"
        out.append((code, f"{n} field(s) readable before are not read (equal) afterwards"))
    return out


def _new_fields(step):
    skip = domain_byproducts(step.get("view1"))
    left = collections.Counter(_ms(_visible(step["before"], skip)))
    newf = []
    for f in _visible(step["after"], skip):
        k = _k(f)
        if left[k] > 0:
            left[k] -= 1
        else:
            newf.append(f)
    return newf


def _new_mechanism(step, default):
    """Why the appended constructs did not come back: decided on the new variables of the file."""
    v0, v1 = step["view0"], step["view1"]
    newv = {k: v for k, v in v1["v"].items() if k not in v0["v"]}
    listed = str(v0["g"].get("external_variables", "")).split()
    if any(n not in listed for f in step["feats"] for n in f.get("ext", ())):
        # an external cell measure whose name the dataset's external_variables attribute does not list:
        # global attributes are not rewritten, so the new variable's cell_measures entry dangles
        return "external-variable-not-declared"
    # a new variable refers (grid_mapping, coordinates, …) to a name `<base>_<k>` that is not in the dataset although
    # `<base>` is: a name that the dry run made up when it re-allocated the names of the fields read back
    import re as _re
    for k, v in newv.items():
        for a in REFS:
            x = v["attrs"].get(a)
            if not isinstance(x, str):
                continue
            for tok in x.split():
                tok = tok.rstrip(":")
                m = _re.match(r"^(.*)_\d+$", tok)
                if m and tok not in v1["v"] and tok not in listed and m.group(1) in v0["v"]:
                    return "dry-run-registry-names-not-in-dataset"
    terms = [t for f in step["feats"] for t in f.get("scalar_terms", ())]
    if terms:
        # a scalar formula-term parameter written again as a 0-d variable that nothing refers to (the owning
        # coordinate variable is shared, and keeps the formula_terms attribute it had)
        import re
        referred = " ".join(str(v["attrs"].get("formula_terms", "")) for v in v1["v"].values())
        for k, v in newv.items():
            if not v["dims"] and re.sub(r"_\d+$", "", k) in terms and not re.search(r":\s*" + re.escape(k) + r"(\s|$)", referred):
                return "scalar-formula-term-parameter-written-again"
    if any(f["formula_terms"] for f in step["feats"]):
        new_owner = any("computed_standard_name" in v["attrs"] and "formula_terms" not in v["attrs"] for v in newv.values())
        if new_owner and not any("formula_terms" in v["attrs"] for v in newv.values()):
            # a parametric coordinate variable was created by this append and nothing got a formula_terms attribute
            return "formula-terms-dropped"
        return "formula-terms-on-shared-coordinate"
    # a description-of-file-contents property that the dataset does not hold and the new variable lacks
    gnames = set(v0["g"])
    for f in step["feats"]:
        for p in f["props"]:
            if p in DESCR and p not in gnames and p != "Conventions":
                if not any(p in v["attrs"] for v in newv.values()):
                    return "description-property-dropped"
        for p, val in f["ga"].items():
            if val is None and p in f["props"] and p not in gnames and not any(p in v["attrs"] for v in newv.values()):
                return "description-property-dropped"
    return default


def check_new(step):
    out = []
    if step.get("after") is None:
        return out
    skip = domain_byproducts(step["view1"])
    b, a = _ms(_visible(step["before"], skip)), _ms(_visible(step["after"], skip))
    new = a - b
    lost = sum((b - a).values())
    n_new = sum(new.values()) - lost  # a changed old field is charged to `old`, not counted as new
    n_dom = sum(1 for f in step["feats"] if f["kind"] == "Domain")
    new_dom = sum(n for k, n in new.items() if json.loads(k)[2] == "Domain")
    # A domain variable is invisible to a read in field mode, so its own coordinate variables are
    # read as fields there (also after a plain mode-'w' write): with a Domain in the batch only the
    # domains are counted exactly.
    if new_dom != n_dom or (n_dom == 0 and n_new != step["n"]) or n_new < step["n"]:
        out.append((_new_mechanism(step, "new-field-count"), f"{step['n']} construct(s) appended but {n_new} new field(s) are read"))
        return out
    if step.get("twins") is None:
        return out
    gnames = set(step["view0"]["g"])
    # a value forced with nc_set_global_attribute(name, value) is not a property of the construct: the
    # mode-'w' twin shows it (as a global attribute of its own file), an append cannot and need not
    gnames |= {k for f in step["feats"] for k, v in f["ga"].items() if v is not None}
    got = collections.Counter(_modulo(f["nn"], gnames) for f in _new_fields(step))
    # Each new field must equal an appended construct: the construct as its own mode-'w' round trip returns
    # it (so that a write/read difference of the construct itself, property C01, is not charged to append)
    # or the construct as given.
    twins = collections.Counter(_modulo(t, gnames) for t in step["twins"])
    selfs = collections.Counter(_modulo(t, gnames) for t in step.get("selfs", []))
    if n_dom:
        # With a Domain in the batch the field-mode read shows the domain's own coordinate variables as
        # fields (in the twin file too): demand that every appended construct — as its twin or as given — is
        # among the new fields, and nothing about those by-products.
        kinds = [f["kind"] for f in step["feats"]]
        tk = step.get("twin_kinds") or []
        want_t = collections.Counter(_modulo(t, gnames) for t, k in zip(step["twins"], tk) if k == "Domain")
        want_s = [_modulo(t, gnames) for t in step.get("selfs", [])]
        miss = 0
        for i, k in enumerate(kinds):
            sk = want_s[i] if i < len(want_s) else None
            cleared = any(f.get("eq") and f["kind"] == k for f in _new_fields(step))
            if k == "Domain":
                if not (got[sk] > 0 or any(got[t] > 0 for t in want_t) or cleared):
                    miss += 1
            else:
                if not (got[sk] > 0 or any(got[_modulo(t, gnames)] > 0 for t, kk in zip(step["twins"], tk) if kk != "Domain") or cleared):
                    miss += 1
        if miss:
            out.append((_new_mechanism(step, "new-field-not-equal"),
                        f"{miss} appended construct(s) have no equal new field (modulo the dataset's global attributes)"))
        return out
    unmatched = 0
    for f in _new_fields(step):
        k = _modulo(f["nn"], gnames)
        if twins[k] > 0:
            twins[k] -= 1
        elif selfs[k] > 0:
            selfs[k] -= 1
        elif f.get("eq"):
            pass  # cfdm's own equality says it is one of the appended constructs: a fingerprint nicety, not a loss
        else:
            unmatched += 1
    if unmatched:
        out.append((_new_mechanism(step, "new-field-not-equal"),
                    f"{unmatched} new field(s) equal no appended construct (modulo the dataset's global attributes)"))
    return out


def _failure_code(step):
    msg = step.get("message", "") or ""
    st = step["status"]
    if st == "crashed":
        return "crash:dataset-reread-while-held-open"
    if "incompatible fill value" in msg:
        return "missing-value-differs-from-fill-value-rejected"
    if "featureType" in msg:
        return "compatible-featureType-refused"
    if st == "raised:AttributeError" and "get_data" in msg:
        return "append-domain-attributeerror"
    if "cannot find dimension" in msg:
        return "dry-run-registry-names-not-in-dataset"
    if "name in use" in msg or "Can't create variable" in msg or "Can't create size" in msg:
        inuse = set(step["view0"]["d"]) | set(step["view0"]["v"])
        anon = [d for f in step["feats"] for d in f.get("anon_dc", ())]
        if any(d in inuse for d in anon) or len(anon) != len(set(anon)):
            # a dimension coordinate named after its axis' netCDF dimension, which is (or, within the batch,
            # has just become) a name in use: that name is the one the writer does not make unique
            return "dimension-name-used-as-coordinate-variable-name"
        blank = any(" " in str(b) for f in step["feats"] for b in f.get("bases", ()))
        return "name-with-blank-clash" if blank else "name-in-use-clash"
    return "supported-request-failed"


def analyse(step, fmt):
    out = []
    if step.get("twins") is None and step.get("twin_stage") == "read":
        # the batch written on its own (mode 'w') gives a dataset that cfdm cannot read: any dataset that
        # holds these constructs is unreadable, which is a write/read round-trip matter (C01), not append's
        return out
    why = documented_unsupported(step, step["view0"], fmt)
    if why:
        msg = step.get("message") or ""
        refusal = step["status"].startswith("raised") and ("incompatible 'featureType'" in msg or "fields which have groups" in msg)
        kind = "groups" if why == "groups" else "featureType"
        if refusal:
            if step.get("sha_same") is not True:
                bad = check_preserved(step)
                out.append(("unsupported-request-modified-file", f"the refusal of an unsupported request ({why}) came after the file was modified" +
                            (": " + "; ".join(t for _, t in bad) if bad else "")))
        elif step["status"].startswith("raised") and step.get("sha_same") is True:
            pass  # rejected for another reason before anything was written: refused, file unchanged
        else:
            # not refused: whatever happened afterwards (a modified file, a later error, a crash) follows from that
            out.append((kind + "-not-refused", f"documented as unsupported ({why}) but {step['status']}" +
                        ("" if step.get("sha_same") is True else " and the file was modified")))
        return out
    if step["status"] == "crashed":
        # the process died inside the C library in the middle of the append: whatever state the file is left
        # in is charged to the crash
        return [("crash:dataset-reread-while-held-open", f"the process died during the append ({step.get('signal')})")]
    if step["status"] != "ok" and (step["status"] == "crashed" or step.get("twins") is not None):
        # (a batch that cannot be written on its own in this format is not an append matter)
        out.append((_failure_code(step), f"supported request {step['status']} ({(step.get('message') or '')[:80]})"))
    out += check_preserved(step)
    if step["status"] == "ok":
        out += check_new(step)
    return out


def mechanisms(step, fmt):
    return [c for c, _ in analyse(step, fmt)]


def judge(obs, spec):
    """None if the property holds on the observation, else a description."""
    if "harness_exc" in obs or obs.get("e") != "ok":
        return None
    fmt = spec.get("fmt", "NETCDF4")
    fails = []
    for i, st in enumerate(judged_steps(obs), 1):
        for c, t in analyse(st, fmt):
            fails.append(f"append {i}: {t} [{c}]")
    return "; ".join(fails) if fails else None


def judged_steps(obs):
    """The appends up to and including the first one that ended abnormally after touching the file: what
    later appends do with a half-written dataset (orphan coordinate variables and dimensions) is not
    something the property speaks about — the failure itself has been judged."""
    for st in obs.get("steps", []):
        yield st
        if st["status"] != "ok" and st.get("sha_same") is not True:
            return
