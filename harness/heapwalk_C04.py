"""Walk the real Python object graph of a cfdm object (C04).

The walker abstracts an object into the *cell tree* of the Lean heap model
(lean/Cfdm/Model/Heap.lean):

  i<h>                immutable value (str, numbers, None, numpy scalars, dtypes, classes, cftime dates …); h = content hash
  b<h>                numpy buffer (identity = the array that owns the memory); h = hash of the owner's bytes
  X<h>                opaque mutable leaf (object without __dict__ that is not known to be immutable)
  D{k:t,…}            dict            C{…}  the `_components` dict of a cfdm container
  L[…] U[…] S[…]      list / tuple / set (keys are positions)
  M{d:t,m:t}          numpy masked array (data buffer, mask buffer)
  O<f><Class>{k:t,…}  object with attributes; f = family decided by reflection:
                        n  copy() is core.NumpyArray.copy (``new.__dict__ = self.__dict__.copy()``)
                        k  a Constructs collection
                        f  a file array (NetCDF4Array, H5netcdfArray)
                        s  a Subarray helper
                        c  any other cfdm Container
                        o  anything else
  ^<n>                the n-th cell (pre-order, 0-based) again: same object reached by another path

Cell numbers are positions in pre-order, so the same text is parsed by the Lean
driver into a tree whose addresses are those numbers.  Keys are percent-encoded.
`shared(gx, gy)` lists the cells of x that the object graph of y reaches too
(by id(); numpy arrays by the identity of the owner of their memory).
"""
import hashlib
import re
import types
import zlib

import numpy as np

from .gen import fields as genfields

_IMM = (str, bytes, int, float, complex, bool, type(None), np.generic, type, types.FunctionType, types.BuiltinFunctionType,
        types.MethodType, np.dtype, range, slice, type(Ellipsis), types.ModuleType, np.ufunc, re.Pattern)
_IMM_CLASSNAMES = {"datetime", "date", "timedelta", "Datetime360Day", "DatetimeNoLeap", "DatetimeGregorian", "DatetimeAllLeap",
                   "DatetimeJulian", "DatetimeProlepticGregorian", "real_datetime", "MaskedConstant", "Version", "PosixPath",
                   "cython_function_or_method", "method_descriptor", "builtin_function_or_method", "wrapper_descriptor",
                   "getset_descriptor", "property", "cached_property", "partial", "mappingproxy", "Logger", "RLock", "lock"}

_KEY_OK = re.compile(r"[A-Za-z0-9_.\-]")


def enc_key(k):
    s = k if isinstance(k, str) else "~" + repr(k)
    return "".join(c if _KEY_OK.match(c) else "%" + format(ord(c), "04x") for c in s) or "%"


def _hash(b):
    return format(zlib.crc32(b) & 0xFFFFFF, "x")


def _imm_hash(o):
    try:
        if isinstance(o, np.generic):
            return _hash(repr((str(o.dtype), o.item())).encode())
        return _hash((type(o).__name__ + ":" + repr(o)).encode())
    except Exception:
        return "0"


def owner(a):
    """The array that owns the memory of ndarray `a`."""
    b = a
    while isinstance(getattr(b, "base", None), np.ndarray):
        b = b.base
    return b


def buf_hash(a):
    o = owner(a)
    try:
        if o.dtype.kind == "O":
            return _hash(repr(o.tolist()).encode())
        return _hash(np.ascontiguousarray(o).tobytes())
    except Exception:
        return "0"


def family(o):
    C = genfields.cfdm()
    K = type(o)
    if isinstance(o, C.core.Constructs):
        return "k"
    if isinstance(o, C.core.abstract.Container):
        cp = getattr(K, "copy", None)
        if cp is not None and getattr(cp, "__qualname__", "") == "NumpyArray.copy" and cp.__module__.startswith("cfdm.core"):
            return "n"
        names = {B.__name__ for B in K.__mro__}
        if "FileArrayMixin" in names or "NetCDFFileMixin" in names:
            return "f"
        if "Subarray" in names:
            return "s"
        return "c"
    return "o"


def is_imm(o):
    if isinstance(o, _IMM):
        return True
    if isinstance(o, (frozenset, tuple)):
        return all(is_imm(v) for v in o)
    if type(o).__name__ in _IMM_CLASSNAMES:
        return True
    return False


# `inherited_properties` of a Bounds is a cache that get_bounds() re-derives from the parent's
# properties on every access (cfdm/mixin/propertiesdatabounds.py get_bounds): not part of the state.
CACHE_COMPONENTS = {"inherited_properties"}


def _dict_items(o, kind):
    items = [(k, o[k]) for k in sorted(o, key=lambda k: enc_key(k))]
    if kind == "C":
        items = [(k, v) for k, v in items if k not in CACHE_COMPONENTS]
    return items


def _children(c):
    """[(encoded key, python value)] of a container cell as the object is NOW."""
    o = c.obj
    if c.kind == "M":
        m = np.ma.getmask(o)
        return [("d", np.ma.getdata(o).view(np.ndarray)), ("m", m if m is not np.ma.nomask else None)]
    if c.kind in "DC":
        return [(enc_key(k), v) for k, v in _dict_items(o, c.kind)]
    if c.kind in "LU":
        return [(str(i), v) for i, v in enumerate(o)]
    if c.kind == "S":
        return [(str(i), v) for i, v in enumerate(sorted(o, key=repr))]
    if c.kind == "O":
        d = o.__dict__
        return [(enc_key(k), d[k]) for k in sorted(d, key=lambda k: enc_key(k))]
    return []


class Cell:
    __slots__ = ("idx", "kind", "cls", "obj", "kids", "path", "content", "fam")

    def __init__(self, idx, kind, obj, path, cls="", fam=""):
        self.idx = idx
        self.kind = kind      # one of b X D C L U S M O
        self.cls = cls
        self.fam = fam
        self.obj = obj
        self.kids = []        # (encoded key, ("c", idx) | ("i", hash))
        self.path = path
        self.content = None


class Graph:
    def __init__(self, root):
        self.cells = []
        self.by_id = {}
        self.keep = []        # keeps temporaries alive so that ids stay unique
        self.root = self._walk(root, "", None, None)

    def _ident(self, o):
        if isinstance(o, np.ndarray) and not isinstance(o, np.ma.MaskedArray):
            return id(owner(o))
        return id(o)

    def _walk(self, o, path, parent_cell, key):
        if is_imm(o):
            return ("i", _imm_hash(o))
        ident = self._ident(o)
        if ident in self.by_id:
            return ("c", self.by_id[ident])
        idx = len(self.cells)
        self.by_id[ident] = idx
        self.keep.append(o)
        if isinstance(o, np.ma.MaskedArray):
            c = Cell(idx, "M", o, path)
            self.cells.append(c)
            c.kids.append(("d", self._walk(np.ma.getdata(o).view(np.ndarray), path + "/d", c, "d")))
            m = np.ma.getmask(o)
            c.kids.append(("m", self._walk(m if m is not np.ma.nomask else None, path + "/m", c, "m")))
            return ("c", idx)
        if isinstance(o, np.ndarray):
            ow = owner(o)
            self.keep.append(ow)
            c = Cell(idx, "b", ow, path)
            c.content = buf_hash(o)
            self.cells.append(c)
            return ("c", idx)
        if isinstance(o, dict):
            kind = "D"
            if key == "_components" and parent_cell is not None and parent_cell.kind == "O" and parent_cell.fam in "cnfs":
                kind = "C"
            c = Cell(idx, kind, o, path)
            self.cells.append(c)
            for k, v in _dict_items(o, kind):
                ek = enc_key(k)
                c.kids.append((ek, self._walk(v, path + "/" + ek, c, k)))
            return ("c", idx)
        if isinstance(o, (list, tuple)):
            c = Cell(idx, "L" if isinstance(o, list) else "U", o, path)
            self.cells.append(c)
            for i, v in enumerate(o):
                c.kids.append((str(i), self._walk(v, f"{path}/{i}", c, i)))
            return ("c", idx)
        if isinstance(o, (set, frozenset)):
            c = Cell(idx, "S", o, path)
            self.cells.append(c)
            for i, v in enumerate(sorted(o, key=repr)):
                c.kids.append((str(i), self._walk(v, f"{path}/{i}", c, i)))
            return ("c", idx)
        d = getattr(o, "__dict__", None)
        if isinstance(d, dict):
            c = Cell(idx, "O", o, path, cls=type(o).__name__, fam=family(o))
            self.cells.append(c)
            for k in sorted(d, key=lambda k: enc_key(k)):
                ek = enc_key(k)
                c.kids.append((ek, self._walk(d[k], path + "/" + ek, c, k)))
            return ("c", idx)
        c = Cell(idx, "X", o, path, cls=type(o).__name__)
        c.content = _hash(type(o).__name__.encode())
        self.cells.append(c)
        return ("c", idx)

    # ---- text of the tree for the Lean driver
    def text(self):
        out = []
        seen = set()

        def emit(ref):
            tag, v = ref
            if tag == "i":
                out.append("i" + v)
                return
            if v in seen:
                out.append("^" + str(v))
                return
            seen.add(v)
            c = self.cells[v]
            if c.kind == "b":
                out.append("b" + c.content)
            elif c.kind == "X":
                out.append("X" + c.content)
            else:
                if c.kind == "O":
                    out.append("O" + c.fam + re.sub(r"[^A-Za-z0-9_]", "_", c.cls))
                else:
                    out.append(c.kind)
                out.append("{")
                first = True
                for k, r in c.kids:
                    if not first:
                        out.append(",")
                    first = False
                    out.append(k + ":")
                    emit(r)
                out.append("}")
        emit(self.root)
        return "".join(out)

    def signature(self, c):
        """Content signature of one cell (to detect writes into it)."""
        if c.kind == "b":
            return buf_hash(c.obj)
        return None


def shared(gx, gy):
    """[(path in x, kind, class)] of the cells of x that y reaches too."""
    out = []
    for ident, idx in gx.by_id.items():
        if ident in gy.by_id:
            c = gx.cells[idx]
            out.append((c.path or "/", c.kind, c.cls))
    return sorted(out)


def _fresh_text(g0, o, stack):
    """Text of a value stored by a write: cells that existed before are `@path`, new ones are spelled out."""
    if is_imm(o):
        return "i" + _imm_hash(o)
    ident = g0._ident(o)
    if ident in g0.by_id:
        return "@" + (g0.cells[g0.by_id[ident]].path or "/")
    if ident in stack or len(stack) > 60:
        return "X0"
    stack = stack | {ident}
    if isinstance(o, np.ma.MaskedArray):
        m = np.ma.getmask(o)
        return "M{d:" + _fresh_text(g0, np.ma.getdata(o).view(np.ndarray), stack) + ",m:" + \
            _fresh_text(g0, m if m is not np.ma.nomask else None, stack) + "}"
    if isinstance(o, np.ndarray):
        ow = owner(o)
        if id(ow) in g0.by_id:
            return "@" + (g0.cells[g0.by_id[id(ow)]].path or "/")
        return "b" + buf_hash(o)
    tmp = Cell(-1, "?", o, "")
    if isinstance(o, dict):
        tmp.kind = "D"
    elif isinstance(o, list):
        tmp.kind = "L"
    elif isinstance(o, tuple):
        tmp.kind = "U"
    elif isinstance(o, (set, frozenset)):
        tmp.kind = "S"
    elif isinstance(getattr(o, "__dict__", None), dict):
        tmp.kind = "O"
        tmp.fam = family(o)
        tmp.cls = type(o).__name__
    else:
        return "X" + _hash(type(o).__name__.encode())
    head = tmp.kind if tmp.kind != "O" else "O" + tmp.fam + re.sub(r"[^A-Za-z0-9_]", "_", tmp.cls)
    parts = []
    for k, v in _children(tmp):
        if tmp.kind == "O" and tmp.fam in "cnfs" and k == "_components" and isinstance(v, dict):
            sub = Cell(-1, "C", v, "")
            inner = ",".join(f"{k2}:{_fresh_text(g0, v2, stack | {id(v)})}" for k2, v2 in _children(sub))
            parts.append(f"{k}:C{{{inner}}}" if id(v) not in g0.by_id else f"{k}:@" + (g0.cells[g0.by_id[id(v)]].path or "/"))
        else:
            parts.append(f"{k}:{_fresh_text(g0, v, stack)}")
    return head + "{" + ",".join(parts) + "}"


def observe_writes(g0, limit=400):
    """The primitive writes performed on the cells of `g0` (a Graph taken before a call) since then.

    Each is `<path>|s~<key>~<tree>`, `<path>|d~<key>` or `<path>|p~<hash>`; path = first path of the written
    cell from the root of g0."""
    out = []
    for c in g0.cells:
        if len(out) >= limit:
            break
        path = c.path or "/"
        if c.kind == "b":
            h = buf_hash(c.obj)
            if h != c.content:
                out.append(f"{path}|p~{h}")
            continue
        if c.kind == "X":
            continue
        old = dict(c.kids)
        try:
            now = _children(c)
        except Exception:
            continue
        seen = set()
        for k, v in now:
            seen.add(k)
            if is_imm(v):
                ref = ("i", _imm_hash(v))
            else:
                ident = g0._ident(v)
                ref = ("c", g0.by_id[ident]) if ident in g0.by_id else ("new", None)
            if k in old and old[k] == ref:
                continue
            out.append(f"{path}|s~{k}~{_fresh_text(g0, v, frozenset())}")
        for k in old:
            if k not in seen:
                out.append(f"{path}|d~{k}")
    return out
