/-
C07 — masking and unpacking of file data (core Lean only, no imports).

Model of `cfdm/data/netcdfindexer.py` (`netcdf_indexer.__getitem__`, `_check_safecast`,
`_default_FillValue`, `_mask`, `_unpack`), of `Data.apply_masking`
(cfdm/data/data.py), `PropertiesData.apply_masking`, `PropertiesDataBounds.apply_masking`
(cfdm/mixin), `Field.apply_masking` (cfdm/field.py), and of the reader's
`_set_default_FillValue` (cfdm/read_write/netcdf/netcdfread.py).

Values are exact: `V.num z` (an integer, also used for integer-valued floats and for
character codes of 1-character strings, the empty string being 0) or `V.nan`.
IEEE rounding is not modelled.  Arrays are flat lists (masking is elementwise; the
N-d shape plays no role, subspacing is a gather by flat positions).

The model mirrors /repo HEAD - which contains the four C07 repairs
  f62b33c  (NaN fill values in `Data.apply_masking`)
  ebd1f5d  (`f._apply_masking_constructs()`)
  f8e6b8c  (`_Unsigned` view only for signed integers)
  32b9e20  (reader default fill value of string variables)
whose earlier behaviour is kept as `…Old` - plus the proposed patch
  fixes/C07-apply-masking-vector-missing-value.patch  (a vector `missing_value` gives several
                                                       fill values in `apply_masking`)
whose unpatched (HEAD) behaviour is kept as `fillsOfOld` / `propsApplyMaskingVecOld`.
Data types of unpacked data: Cfdm/Model/MaskDType.lean.
-/
namespace Cfdm.Mask

/-- Equality of `Except` results is decidable (used by the concrete witnesses). -/
instance instDecEqExcept {ε α : Type} [DecidableEq ε] [DecidableEq α] : DecidableEq (Except ε α)
  | .ok a, .ok b => if h : a = b then isTrue (by rw [h]) else isFalse (by intro h'; cases h'; exact h rfl)
  | .error a, .error b => if h : a = b then isTrue (by rw [h]) else isFalse (by intro h'; cases h'; exact h rfl)
  | .ok _, .error _ => isFalse (by intro h; cases h)
  | .error _, .ok _ => isFalse (by intro h; cases h)

/-! ## Values and data types -/

inductive V where
  | nan
  | num (z : Int)
  deriving DecidableEq, Repr, Inhabited

namespace V
def isNan : V → Bool
  | nan => true
  | num _ => false

/-- numpy `==` (NaN equals nothing). -/
def eq : V → V → Bool
  | num a, num b => a == b
  | _, _ => false

/-- numpy `!=`. -/
def ne (a b : V) : Bool := !(eq a b)

/-- numpy `<` (any comparison with NaN is False). -/
def lt : V → V → Bool
  | num a, num b => decide (a < b)
  | _, _ => false

/-- numpy `>`. -/
def gt (a b : V) : Bool := lt b a

def mul : V → V → V
  | num a, num b => num (a * b)
  | _, _ => nan

def add : V → V → V
  | num a, num b => num (a + b)
  | _, _ => nan
end V

/-- `np.isnan(m)` then `np.isnan(data)`, else `data == m`: the element test of a
missing/fill value `m` against a datum `d`, as both `_mask` and netCDF4 `_toma` code it. -/
def matchFill (m d : V) : Bool := if m.isNan then d.isNan else V.eq d m

inductive Kind where
  | int | uint | float | char | vstr
  deriving DecidableEq, Repr

/-- kind and width in bits (8,16,32,64; 8 for character/strings). -/
structure DType where
  kind : Kind
  bits : Nat
  deriving DecidableEq, Repr

namespace DType
def isString (dt : DType) : Bool := dt.kind == .char || dt.kind == .vstr
def isVlen (dt : DType) : Bool := dt.kind == .vstr

/-- Smallest representable integer (integer kinds). -/
def lo (dt : DType) : Int :=
  match dt.kind with
  | .int => -((2 : Int) ^ (dt.bits - 1))
  | _ => 0

/-- Largest representable integer (integer kinds). -/
def hi (dt : DType) : Int :=
  match dt.kind with
  | .int => (2 : Int) ^ (dt.bits - 1) - 1
  | .uint => (2 : Int) ^ dt.bits - 1
  | _ => 0

/-- Is the value exactly representable in the type?  (`np.array(att, dtype)` followed by
`_safecast`: every element unchanged by the cast.)  Floats hold every modelled value;
strings hold non-negative character codes. -/
def fits (dt : DType) : V → Bool
  | .nan => dt.kind == .float
  | .num z =>
    match dt.kind with
    | .int | .uint => decide (dt.lo ≤ z) && decide (z ≤ dt.hi)
    | .float => true
    | .char | .vstr => decide (0 ≤ z)
end DType

/-- `netCDF4.default_fillvals` as exact integers (`S1`: NUL, which numpy's string
comparison equates with the empty string, code 0).  The harness asserts this table
against the installed netCDF4 on every run. -/
def defaultFill (dt : DType) : V :=
  match dt.kind, dt.bits with
  | .int, 8 => .num (-127)
  | .int, 16 => .num (-32767)
  | .int, 32 => .num (-2147483647)
  | .int, _ => .num (-9223372036854775806)
  | .uint, 8 => .num 255
  | .uint, 16 => .num 65535
  | .uint, 32 => .num 4294967295
  | .uint, _ => .num 18446744073709551614
  | .float, _ => .num 9969209968386869046778552952102584320
  | .char, _ => .num 0
  | .vstr, _ => .num 0

/-! ## Attributes -/

/-- A netCDF attribute value: a non-empty numeric vector, or text that numpy cannot
cast to the variable's type (also: a `str`-typed attribute on a character variable,
which `_safecast` never accepts). -/
inductive AttrVal where
  | vals (hd : V) (tl : List V)
  | text
  deriving DecidableEq, Repr

abbrev Attr := Option AttrVal

structure Attrs where
  fillValue : Attr := none
  missingValue : Attr := none
  validMin : Attr := none
  validMax : Attr := none
  validRange : Attr := none
  scaleFactor : Attr := none
  addOffset : Attr := none
  /-- the text of `_Unsigned`, if present -/
  unsigned : Option String := none
  deriving DecidableEq, Repr

/-- `_check_safecast`: `some (hd, tl)` when the attribute exists and every element
survives the cast to the variable's type; `none` otherwise (absent, text, unsafe). -/
def safecast (dt : DType) : Attr → Option (V × List V)
  | some (.vals hd tl) => if (hd :: tl).all dt.fits then some (hd, tl) else none
  | _ => none

/-- `attributes.get("_Unsigned") in ("true", "True")`. -/
def unsignedAttr (a : Attrs) : Bool := a.unsigned == some "true" || a.unsigned == some "True"

/-- `__getitem__` (since f8e6b8c): the unsigned view is taken only when unpacking, only when
`_Unsigned` says so and only for signed integer data. -/
def unsignedView (dt : DType) (a : Attrs) (unpackOn : Bool) : Bool :=
  unpackOn && unsignedAttr a && dt.kind == .int

/-- `__getitem__` before f8e6b8c: any data type is re-viewed. -/
def unsignedViewOld (_dt : DType) (a : Attrs) (unpackOn : Bool) : Bool :=
  unpackOn && unsignedAttr a

/-- `x.view('u<n>')` of a two's-complement integer. -/
def viewU (bits : Nat) : V → V
  | .nan => .nan
  | .num z => .num (z % (2 : Int) ^ bits)

def view (u : Bool) (bits : Nat) (v : V) : V := if u then viewU bits v else v

/-! ## `netcdf_indexer._mask` as coded -/

abbrev MaskArr := List Bool

/-- `totalmask = mask` / `totalmask += mask`. -/
def accum (tot : Option MaskArr) (m : MaskArr) : Option MaskArr :=
  match tot with
  | none => some m
  | some t => some (List.zipWith (· || ·) t m)

/-- `if mask.any(): accumulate`. -/
def accumIfAny (tot : Option MaskArr) (m : MaskArr) : Option MaskArr :=
  if m.any id then accum tot m else tot

/-- The `validmin`/`validmax` selection: `valid_range` (safe, exactly two elements)
takes precedence over `valid_min`/`valid_max`; a vector `valid_min` contributes its
first element. -/
def validBounds (dt : DType) (a : Attrs) : Option V × Option V :=
  match safecast dt a.validRange with
  | some (lo, [hi]) => (some lo, some hi)
  | _ => ((safecast dt a.validMin).map (·.1), (safecast dt a.validMax).map (·.1))

/-- The elements of a safely castable `missing_value` (scalar or vector); nothing otherwise. -/
def safeMissing (dt : DType) (a : Attrs) : List V :=
  match safecast dt a.missingValue with
  | some (hd, tl) => hd :: tl
  | none => []

/-- `_FillValue` (first element) when safely castable, else `_default_FillValue(dtype)`. -/
def fillOf (dt : DType) (a : Attrs) : V :=
  match safecast dt a.fillValue with
  | some (hd, _) => hd
  | none => defaultFill dt

/-- `_mask`: returns `totalmask` (`none` = Python `None`).  `u` says whether the
data were re-viewed as unsigned (`dtype_unsigned_int is not None`). -/
def maskAlgo (dt : DType) (a : Attrs) (u : Bool) (data : List V) : Option MaskArr :=
  -- missing_value: scalar or vector, every element in turn
  let tot : Option MaskArr :=
    (safeMissing dt a).foldl (fun tot m => accumIfAny tot (data.map (matchFill (view u dt.bits m)))) none
  -- _FillValue, or the default fill value when there is none (or it is unsafe)
  let tot := accumIfAny tot (data.map (matchFill (view u dt.bits (fillOf dt a))))
  -- valid range: never for strings
  let (vmin, vmax) := validBounds dt a
  let vmin := vmin.map (view u dt.bits)
  let vmax := vmax.map (view u dt.bits)
  if dt.isString then tot else
  let tot := match vmin with
    | some lo => accum tot (data.map (fun d => V.lt d lo))
    | none => tot
  match vmax with
  | some hi => accum tot (data.map (fun d => V.gt d hi))
  | none => tot

/-! ## `netcdf_indexer._unpack` as coded -/

/-- `np.array(x)`, first element of a vector, `float(x)`: `none` = "can't be converted
to a float" (no unpacking at all is then done). -/
def floatOf : AttrVal → Option V
  | .vals hd _ => some hd
  | .text => none

/-- The presence table of `_unpack` on one (unmasked) element.  The `astype` branches
change the data type only. -/
def unpackElem (a : Attrs) (d : V) : V :=
  match a.scaleFactor, a.addOffset with
  | none, none => d
  | some s, none =>
    match floatOf s with
    | none => d
    | some sf => if V.ne sf (.num 1) then V.mul d sf else d
  | none, some o =>
    match floatOf o with
    | none => d
    | some ao => if V.ne ao (.num 0) then V.add d ao else d
  | some s, some o =>
    match floatOf s, floatOf o with
    | some sf, some ao =>
      if V.ne ao (.num 0) || V.ne sf (.num 1) then V.add (V.mul d sf) ao else d
    | _, _ => d

/-! ## The read -/

inductive ResKind where
  | masked | plain
  deriving DecidableEq, Repr

/-- What a read presents: a numpy masked array or a plain array, and the elements
(`none` = masked). -/
structure Result where
  kind : ResKind
  elems : List (Option V)
  deriving DecidableEq, Repr

def applyMask (data : List V) (m : Option MaskArr) : List (Option V) :=
  match m with
  | none => data.map some
  | some m => List.zipWith (fun d b => if b then none else some d) data m

/-- `totalmask is not None and totalmask.any()`. -/
def anyMasked (tot : Option MaskArr) : Bool :=
  match tot with
  | some m => m.any id
  | none => false

/-- The masking step of `__getitem__`: is the result a masked array, and its elements. -/
def maskStep (dt : DType) (a : Attrs) (u maskOn : Bool) (data : List V) : Bool × List (Option V) :=
  let tot := if maskOn then maskAlgo dt a u data else none
  (anyMasked tot, applyMask data (if anyMasked tot then tot else none))

/-- `netcdf_indexer.__getitem__` after the index has been applied to the variable:
unsigned view (when unpacking), `_mask` (when masking), `_unpack` (when unpacking).
`always_masked_array` is False in both backends. -/
def readWith (uv : DType → Attrs → Bool → Bool) (dt : DType) (a : Attrs) (maskOn unpackOn : Bool)
    (raw : List V) : Result :=
  let u := uv dt a unpackOn
  let data := raw.map (view u dt.bits)
  let r := maskStep dt a u maskOn data
  let elems := if unpackOn then r.2.map (Option.map (unpackElem a)) else r.2
  { kind := if r.1 then .masked else .plain, elems := elems }

def read (dt : DType) (a : Attrs) (maskOn unpackOn : Bool) (raw : List V) : Result :=
  readWith unsignedView dt a maskOn unpackOn raw

def readOld (dt : DType) (a : Attrs) (maskOn unpackOn : Bool) (raw : List V) : Result :=
  readWith unsignedViewOld dt a maskOn unpackOn raw

/-- Subspace of a flat array by positions (the file is indexed first, then masked). -/
def gather {α} (l : List α) (ix : List Nat) : List α := ix.filterMap (fun i => l[i]?)

/-! ## The specification: the netCDF4-python rule, per element

Written from the netCDF user guide's attribute conventions as `netCDF4.Variable`
implements them (`_toma`): it is a predicate on ONE stored value; no accumulators, no
arrays. -/

/-- The reference re-views as unsigned only signed-integer data with auto-scale on. -/
def refUnsigned (dt : DType) (a : Attrs) (scaleOn : Bool) : Bool :=
  scaleOn && (a.unsigned == some "true" || a.unsigned == some "True") && dt.kind == .int

/-- Reinterpretation of a stored two's-complement value as unsigned. -/
def reinterp (u : Bool) (dt : DType) (v : V) : V :=
  match u, v with
  | true, .num z => .num (if z < 0 then z + (2 : Int) ^ dt.bits else z)
  | _, v => v

/-- Usable attribute: present, numeric, every element representable in the variable's type. -/
def usable (dt : DType) (at_ : Attr) : Option (List V) :=
  match at_ with
  | some (.vals hd tl) => if ∀ v ∈ hd :: tl, dt.fits v = true then some (hd :: tl) else none
  | _ => none

/-- `x` is "missing" w.r.t. the value `m`: both NaN, or equal numbers. -/
def sameValue (m x : V) : Prop :=
  (m = .nan ∧ x = .nan) ∨ (∃ z, m = .num z ∧ x = .num z)

/-- Lower/upper valid bound: from a usable two-element `valid_range`, else from usable
`valid_min` / `valid_max` (first element). -/
def specLower (dt : DType) (a : Attrs) : Option V :=
  match usable dt a.validRange with
  | some [lo, _] => some lo
  | _ => (usable dt a.validMin).bind List.head?

def specUpper (dt : DType) (a : Attrs) : Option V :=
  match usable dt a.validRange with
  | some [_, hi] => some hi
  | _ => (usable dt a.validMax).bind List.head?

/-- The stored value `d` of a variable of type `dt` with attributes `a` is presented as
missing by the reference library (auto-mask on, auto-scale = `scaleOn`). -/
def maskedBy (dt : DType) (a : Attrs) (scaleOn : Bool) (d : V) : Prop :=
  let u := refUnsigned dt a scaleOn
  let x := reinterp u dt d
  -- variable-length types are never masked by the reference
  dt.isVlen = false ∧
  ( -- equal to a missing_value element
    (∃ l, usable dt a.missingValue = some l ∧ ∃ m ∈ l, sameValue (reinterp u dt m) x)
    -- equal to _FillValue, or (no usable _FillValue) to the type's default fill value,
    -- which the reference does NOT re-view as unsigned
  ∨ (∃ l, usable dt a.fillValue = some l ∧ ∃ m, l.head? = some m ∧ sameValue (reinterp u dt m) x)
  ∨ (usable dt a.fillValue = none ∧ sameValue (defaultFill dt) x)
    -- outside the valid range (numbers only; never for character data)
  ∨ (dt.isString = false ∧ ∃ lo z w, specLower dt a = some lo ∧ reinterp u dt lo = .num z ∧ x = .num w ∧ w < z)
  ∨ (dt.isString = false ∧ ∃ hi z w, specUpper dt a = some hi ∧ reinterp u dt hi = .num z ∧ x = .num w ∧ z < w))

/-- The reference's unpacking: `x * scale_factor + add_offset` with the absent one
defaulting to 1 / 0, nothing at all when either cannot be converted to a float. -/
def specUnpack (a : Attrs) (d : V) : V :=
  let num? : Attr → Option (Option V) := fun at_ =>
    match at_ with
    | none => some none
    | some (.vals hd _) => some (some hd)
    | some .text => none
  match num? a.scaleFactor, num? a.addOffset with
  | some s, some o => V.add (V.mul d (s.getD (.num 1))) (o.getD (.num 0))
  | _, _ => d

/-! ## `apply_masking` -/

/-- The five masking properties of a construct. -/
structure Props where
  fillValue : Attr := none
  missingValue : Attr := none
  validMin : Attr := none
  validMax : Attr := none
  validRange : Attr := none
  deriving DecidableEq, Repr

/-- The reader with `mask=False`: properties are the file attributes, and
`_set_default_FillValue` records the default fill value when there is no `_FillValue`
(since 32b9e20 also for string variables). -/
def readerProps (dt : DType) (a : Attrs) : Props :=
  { fillValue := match a.fillValue with
      | some x => some x
      | none => some (.vals (defaultFill dt) [])
    missingValue := a.missingValue
    validMin := a.validMin
    validMax := a.validMax
    validRange := a.validRange }

/-- `_set_default_FillValue` before 32b9e20: `default_fillvals[dtype.str[-2:]]` has
no entry for a netCDF string variable (`str` / object dtype), so the `mask=False` read of a
string variable without `_FillValue` raises (AttributeError or KeyError by backend). -/
def readerPropsOld (dt : DType) (a : Attrs) : Except String Props :=
  if dt.kind == .vstr && a.fillValue.isNone then .error "AttributeError" else .ok (readerProps dt a)

/-- numpy `array == x` / `array < x` / `array > x` for an attribute value `x`
against `n` elements: a scalar broadcasts; a vector must have length `n`
(`ValueError` otherwise); text compares unequal everywhere and has no ordering
(`TypeError`). -/
def cmpWith (f : V → V → Bool) (ordering : Bool) (x : AttrVal) (arr : List (Option V)) :
    Except String MaskArr :=
  match x with
  | .vals hd [] => .ok (arr.map (fun o => match o with | some d => f d hd | none => false))
  | .vals hd tl =>
    if (hd :: tl).length == arr.length then
      .ok (List.zipWith (fun o m => match o with | some d => f d m | none => false) arr (hd :: tl))
    else .error "ValueError"
  | .text => if ordering then .error "TypeError" else .ok (arr.map (fun _ => false))

def orMask (a b : MaskArr) : MaskArr := List.zipWith (· || ·) a b

/-- `array == fill_value`, with a NaN fill value treated as netCDF does (since f62b33c). -/
def fillEq (d m : V) : Bool := matchFill m d

/-- `array == fill_value` before f62b33c (NaN never matches). -/
def fillEqOld (d m : V) : Bool := V.eq d m

/-- `mask = m` / `mask |= m`. -/
def orOpt (mask : Option MaskArr) (m : MaskArr) : Option MaskArr :=
  some (match mask with | none => m | some t => orMask t m)

/-- One more criterion; a numpy error aborts the whole call. -/
def addCrit (mask : Except String (Option MaskArr)) (r : Except String MaskArr) :
    Except String (Option MaskArr) :=
  match mask, r with
  | .ok k, .ok m => .ok (orOpt k m)
  | .error e, _ => .error e
  | .ok _, .error e => .error e

/-- The `valid_range` argument check and its split into `valid_min`, `valid_max`. -/
def splitRange (vmin vmax vrange : Attr) : Except String (Attr × Attr) :=
  match vrange with
  | some vr =>
    if vmin.isSome || vmax.isSome then .error "ValueError" else
    match vr with
    | .vals lo [hi] => .ok (some (AttrVal.vals lo []), some (AttrVal.vals hi []))
    | _ => .error "ValueError"
  | none => .ok (vmin, vmax)

/-- `if mask is not None: array = np.ma.where(mask, masked, array)`. -/
def finishMask (mask : Except String (Option MaskArr)) (arr : List (Option V)) :
    Except String (List (Option V)) :=
  match mask with
  | .error e => .error e
  | .ok none => .ok arr
  | .ok (some m) => .ok (List.zipWith (fun o b => if b then none else o) arr m)

/-- `Data.apply_masking` after the argument checks: the mask from the fill values, then
`array < valid_min`, then `array > valid_max`; `np.ma.where(mask, masked, array)`. -/
def dataApplyCore (feq : V → V → Bool) (fillValues : List AttrVal) (vmin vmax : Attr)
    (arr : List (Option V)) : Except String (List (Option V)) :=
  let mask := fillValues.foldl (fun mask fv => addCrit mask (cmpWith feq false fv arr)) (.ok none)
  let mask := match vmin with
    | some x => addCrit mask (cmpWith V.lt true x arr)
    | none => mask
  let mask := match vmax with
    | some x => addCrit mask (cmpWith V.gt true x arr)
    | none => mask
  finishMask mask arr

/-- `Data.apply_masking(fill_values, valid_min, valid_max, valid_range)`. -/
def dataApplyMaskingWith (feq : V → V → Bool) (fillValues : List AttrVal)
    (vmin vmax vrange : Attr) (arr : List (Option V)) : Except String (List (Option V)) :=
  match splitRange vmin vmax vrange with
  | .error e => .error e
  | .ok (vmin, vmax) => dataApplyCore feq fillValues vmin vmax arr

/-- The `fill_values` argument of `Data.apply_masking`: `None`, a bool, a sequence of
fill values, or something that is not a sequence (a number, a `str`). -/
inductive FillArg where
  | none_
  | flag (b : Bool)
  | seq (l : List AttrVal)
  | notSeq
  deriving DecidableEq, Repr

/-- `fill_values=None` means `False`; `True` means the data's own fill value, if it has
one; anything that is not a sequence (or is a `str`) is a TypeError. -/
def resolveFills (dataFill : Attr) : FillArg → Except String (List AttrVal)
  | .none_ => .ok []
  | .flag false => .ok []
  | .flag true => .ok dataFill.toList
  | .seq l => .ok l
  | .notSeq => .error "TypeError"

/-- `Data.apply_masking(fill_values, valid_min, valid_max, valid_range)` called directly:
the `valid_range` checks come first, then the `fill_values` checks. -/
def dataApplyMasking (dataFill : Attr) (arg : FillArg) (vmin vmax vrange : Attr)
    (arr : List (Option V)) : Except String (List (Option V)) :=
  match splitRange vmin vmax vrange with
  | .error e => .error e
  | .ok (vmin, vmax) =>
    match resolveFills dataFill arg with
    | .error e => .error e
    | .ok fills => dataApplyCore fillEq fills vmin vmax arr

/-- Specification of `Data.apply_masking` for scalar criteria, on ONE element: an element
that is already masked stays masked; an unmasked one becomes masked iff it equals a fill
value (NaN matches NaN), is below `valid_min` or above `valid_max`. -/
def specApplyElem (fills : List V) (vmin vmax : Option V) (o : Option V) : Option V :=
  match o with
  | none => none
  | some d =>
    if (∃ m ∈ fills, matchFill m d = true) ∨ (∃ lo, vmin = some lo ∧ V.lt d lo = true)
        ∨ (∃ hi, vmax = some hi ∧ V.gt d hi = true)
    then none else some d

/-- `fill_values.extend(x if np.ndim(x) else (x,))`: a vector-valued property gives one
fill value per element (patched). -/
def fillList : Attr → List AttrVal
  | none => []
  | some (.vals hd tl) => (hd :: tl).map (fun v => AttrVal.vals v [])
  | some .text => [.text]

/-- The fill values `PropertiesData.apply_masking` hands to `Data.apply_masking`:
`_FillValue` then `missing_value`, every element of a vector on its own (patched). -/
def fillsOf (p : Props) : List AttrVal := fillList p.fillValue ++ fillList p.missingValue

/-- As at /repo HEAD: `fill_values.append(x)` - a vector is ONE fill value. -/
def fillsOfOld (p : Props) : List AttrVal := [p.fillValue, p.missingValue].filterMap id

/-- `PropertiesData.apply_masking`: `_FillValue` then `missing_value` are the fill
values; `valid_range` together with `valid_min`/`valid_max` is an error. -/
def propsApplyMaskingWith (feq : V → V → Bool) (fl : Props → List AttrVal) (p : Props)
    (arr : List (Option V)) : Except String (List (Option V)) :=
  if p.validRange.isSome && (p.validMin.isSome || p.validMax.isSome) then .error "ValueError"
  else dataApplyMaskingWith feq (fl p) p.validMin p.validMax p.validRange arr

def propsApplyMasking (p : Props) (arr : List (Option V)) : Except String (List (Option V)) :=
  propsApplyMaskingWith fillEq fillsOf p arr

/-- Before f62b33c: `array == fill_value` only (a NaN fill value masks nothing). -/
def propsApplyMaskingOld (p : Props) (arr : List (Option V)) : Except String (List (Option V)) :=
  propsApplyMaskingWith fillEqOld fillsOf p arr

/-- /repo HEAD (without fixes/C07-apply-masking-vector-missing-value.patch): a vector
`missing_value` is compared as a whole (`array == vector`). -/
def propsApplyMaskingVecOld (p : Props) (arr : List (Option V)) : Except String (List (Option V)) :=
  propsApplyMaskingWith fillEq fillsOfOld p arr

/-- `PropertiesDataBounds.apply_masking`, bounds part: each property of the bounds
falls back to the parent's property. -/
def inheritProps (b c : Props) : Props :=
  { fillValue := b.fillValue.orElse (fun _ => c.fillValue)
    missingValue := b.missingValue.orElse (fun _ => c.missingValue)
    validMin := b.validMin.orElse (fun _ => c.validMin)
    validMax := b.validMax.orElse (fun _ => c.validMax)
    validRange := b.validRange.orElse (fun _ => c.validRange) }

def boundsApplyMasking (b c : Props) (arr : List (Option V)) : Except String (List (Option V)) :=
  let p := inheritProps b c
  dataApplyMaskingWith fillEq (fillsOf p) p.validMin p.validMax p.validRange arr

/-! ## Field level -/

/-- One netCDF variable. -/
structure Var where
  dt : DType
  attrs : Attrs
  raw : List V
  deriving DecidableEq, Repr

/-- A metadata construct with data, optionally with bounds. -/
structure ConVar where
  main : Var
  bounds : Option Var
  deriving DecidableEq, Repr

/-- A construct in memory: its masking properties and its data. -/
structure Con where
  props : Props
  data : List (Option V)
  bprops : Option Props
  bdata : Option (List (Option V))
  deriving DecidableEq, Repr

/-- A field in memory: its own properties/data and its metadata constructs. -/
structure FieldState where
  props : Props
  data : List (Option V)
  cons : List Con
  deriving DecidableEq, Repr

def readVarElems (maskOn unpackOn : Bool) (v : Var) : List (Option V) :=
  (read v.dt v.attrs maskOn unpackOn v.raw).elems

/-- The properties a construct carries after the read (default fill only with mask=False). -/
def propsAfterRead (maskOn : Bool) (v : Var) : Props :=
  if maskOn then
    { fillValue := v.attrs.fillValue, missingValue := v.attrs.missingValue, validMin := v.attrs.validMin,
      validMax := v.attrs.validMax, validRange := v.attrs.validRange }
  else readerProps v.dt v.attrs

def readCon (maskOn unpackOn : Bool) (c : ConVar) : Con :=
  { props := propsAfterRead maskOn c.main
    data := readVarElems maskOn unpackOn c.main
    bprops := c.bounds.map (propsAfterRead maskOn)
    bdata := c.bounds.map (readVarElems maskOn unpackOn) }

/-- `cfdm.read(mask=, unpack=)` of a file holding one field variable and its
coordinate-like variables. -/
def readField (maskOn unpackOn : Bool) (f : Var) (cs : List ConVar) : FieldState :=
  { props := propsAfterRead maskOn f
    data := readVarElems maskOn unpackOn f
    cons := cs.map (readCon maskOn unpackOn) }

/-- A construct's `apply_masking(inplace=True)` (data, then bounds with inheritance). -/
def conApplyMasking (c : Con) : Except String Con := do
  let d ← propsApplyMasking c.props c.data
  match c.bprops, c.bdata with
  | some bp, some bd =>
    let b ← boundsApplyMasking bp c.props bd
    pure { c with data := d, bdata := some b }
  | _, _ => pure { c with data := d }

/-- `Field.apply_masking(inplace)` (since ebd1f5d).  Returns (receiver afterwards, returned field);
with `inplace=True` the receiver *is* the result. -/
def fieldApplyMasking (inplace : Bool) (s : FieldState) : Except String (FieldState × FieldState) := do
  let d ← propsApplyMasking s.props s.data
  let cs ← s.cons.mapM conApplyMasking
  let r : FieldState := { s with data := d, cons := cs }
  pure (if inplace then r else s, r)

/-- `Field.apply_masking(inplace)` before ebd1f5d: the metadata constructs of
`self` are masked, whichever field is returned. -/
def fieldApplyMaskingOld (inplace : Bool) (s : FieldState) : Except String (FieldState × FieldState) := do
  let d ← propsApplyMasking s.props s.data
  let cs ← s.cons.mapM conApplyMasking
  if inplace then
    let r : FieldState := { s with data := d, cons := cs }
    pure (r, r)
  else
    pure ({ s with cons := cs }, { s with data := d })

/-! ## The hypotheses under which `apply_masking` reproduces the masked read -/

/-- Absent, or a scalar that the variable's type holds exactly. -/
def scalarSafe (dt : DType) : Attr → Bool
  | none => true
  | some (.vals hd []) => dt.fits hd
  | _ => false

/-- `valid_range` absent, or two safe elements with neither `valid_min` nor `valid_max`. -/
def rangeOK (dt : DType) (a : Attrs) : Bool :=
  match a.validRange with
  | none => true
  | some (.vals lo [hi]) => dt.fits lo && dt.fits hi && a.validMin.isNone && a.validMax.isNone
  | _ => false

/-- Absent, or a scalar or vector of values that the variable's type holds exactly. -/
def vectorSafe (dt : DType) : Attr → Bool
  | none => true
  | some (.vals hd tl) => (hd :: tl).all dt.fits
  | some .text => false

/-- Exactly what `PropertiesData.apply_masking` needs in order to agree with the read:
every masking attribute is a safely castable scalar (`missing_value`: a safe scalar or
vector; `valid_range`: a safe pair, alone);
no valid-range attribute on character data; and, when the read unpacks, the data were
not transformed (no `scale_factor`/`add_offset`, no unsigned view). -/
def ApplyOK (dt : DType) (a : Attrs) (unpackOn : Bool) : Bool :=
  scalarSafe dt a.fillValue && vectorSafe dt a.missingValue
  && scalarSafe dt a.validMin && scalarSafe dt a.validMax && rangeOK dt a
  && (!dt.isString || (a.validMin.isNone && a.validMax.isNone && a.validRange.isNone))
  && (!unpackOn || (a.scaleFactor.isNone && a.addOffset.isNone && !unsignedView dt a true))

/-- Bounds inherit nothing from the parent: every masking property the parent has, the
bounds variable has too (`_FillValue` is always set on the bounds by the reader). -/
def BoundsOK (b c : Attrs) : Bool :=
  (c.missingValue.isNone || b.missingValue.isSome) && (c.validMin.isNone || b.validMin.isSome)
  && (c.validMax.isNone || b.validMax.isSome) && (c.validRange.isNone || b.validRange.isSome)

def VarOK (unpackOn : Bool) (v : Var) : Bool := ApplyOK v.dt v.attrs unpackOn

def ConOK (unpackOn : Bool) (c : ConVar) : Bool :=
  VarOK unpackOn c.main &&
  match c.bounds with
  | none => true
  | some b => VarOK unpackOn b && BoundsOK b.attrs c.main.attrs

end Cfdm.Mask
