import Cfdm.Model.Append
/-
C17 — the decidable hypotheses of the preservation theorems (core Lean only: also linked into the model
driver, which evaluates them on the sampled inputs: `C17.hyp`).
-/
namespace Cfdm.Append

/-- If `d` names an unlimited dimension of `E`, that dimension has length `n`. -/
def DimFits (E : Ds) (d : Name) (n : Nat) : Prop := ∀ D ∈ E.dims, D.unlim = true → D.name = d → n = D.size

instance (E : Ds) (d : Name) (n : Nat) : Decidable (DimFits E d n) := by unfold DimFits; infer_instance


/-- The writer's tables agree with the dataset about the length of its unlimited dimensions: the sizes in
`ncdim_to_size`, the sizes stored with `ncdim_size_to_spanning_constructs`, and the leading extent of every
registered construct. -/
def HeadFits (E : Ds) : List Name → List Nat → Prop
  | d :: _, n :: _ => DimFits E d n
  | _, _ => True

instance (E : Ds) (ds : List Name) (sh : List Nat) : Decidable (HeadFits E ds sh) := by
  unfold HeadFits; split <;> infer_instance

def SeenFits (E : Ds) (e : SeenE) : Prop :=
  match e.ncdims with
  | some ds => HeadFits E ds e.shape
  | none => True

instance (E : Ds) (e : SeenE) : Decidable (SeenFits E e) := by
  unfold SeenFits; split <;> infer_instance

def RegAgrees (E : Ds) (r : Reg) : Prop :=
  (∀ p ∈ r.nm.dimSize, DimFits E p.1 p.2) ∧
  (∀ x ∈ r.aux.spans, DimFits E x.1 x.2.1) ∧
  (∀ x ∈ r.aux.localSpans, DimFits E x.1 x.2.1) ∧
  (∀ e ∈ r.aux.seen, SeenFits E e)

instance (E : Ds) (r : Reg) : Decidable (RegAgrees E r) := by
  unfold RegAgrees; infer_instance


/-- Every axis of the field being written that has been given a dimension has that dimension's length. -/
def Safe (E : Ds) (sz : Nat → Nat) (r : Reg) : Prop := ∀ p ∈ r.aux.axisDim, DimFits E p.2 (sz p.1)


def bWF (b : Option BReq) (sh : List Nat) : Prop :=
  match b with
  | none => True
  | some b => b.c.shape = sh ++ [b.size]

instance (b : Option BReq) (sh : List Nat) : Decidable (bWF b sh) := by unfold bWF; split <;> infer_instance

/-- The shapes of a field's requests fit together: `sz` gives the size of each axis. -/
def Req.wf (sz : Nat → Nat) : Req → Prop
  | .dimCoord _ axis c _ _ size _ b => c.shape = [size] ∧ sz axis = size ∧ bWF b [size]
  | .axisDim axis size _ _ _ _ => sz axis = size
  | .scalarCoord _ _ c _ b => c.shape = [] ∧ bWF b []
  | .aux _ c axes _ b => c.shape = axes.map sz ∧ bWF b (axes.map sz)
  | .domAnc _ c axes _ b => c.shape = axes.map sz ∧ bWF b (axes.map sz)
  | .msr _ c axes _ _ ext => ext.isSome = true ∨ c.shape = axes.map sz
  | .formula _ _ _ params => ∀ p ∈ params, p.2.shape = []
  | .gridMap _ _ _ _ => True
  | .fieldAnc _ c axes _ => c.shape = axes.map sz
  | .data c _ axes _ isDomain => if isDomain = true then c.shape = [] else c.shape = axes.map sz

instance (sz : Nat → Nat) (q : Req) : Decidable (q.wf sz) := by
  cases q <;> (unfold Req.wf; infer_instance)


/-- The size of each axis of a field, as its axis requests give it. -/
def FieldReq.sz (f : FieldReq) (ax : Nat) : Nat :=
  (f.reqs.findSome? (fun q => match q with
    | .dimCoord _ a _ _ _ s _ _ => if a == ax then some s else none
    | .axisDim a s _ _ _ _ => if a == ax then some s else none
    | _ => none)).getD 1

/-- The data of every construct of the field has the shape that the sizes of its axes give (what
`set_construct` / `set_data` enforce in cfdm). -/
def FieldReq.wf (f : FieldReq) : Prop := ∀ q ∈ f.reqs, q.wf f.sz

instance (f : FieldReq) : Decidable f.wf := by unfold FieldReq.wf; infer_instance


/-- The registry with which the post-dry-run pass starts is the one the dry run over `rb` left. -/
def dryReg (fx : Fix) (E : Ds) (rb : List FieldReq) : Reg := (run fx .dry (emitAll fx [] rb) {} ⟨E, []⟩).2.1


/-- the bounds of a request name a dimension of the dataset only with its length -/
def bFaithful (E : Ds) (b : Option BReq) : Prop :=
  match b with
  | none => True
  | some b => DimFits E (underscore b.dimBase) b.size

instance (E : Ds) (b : Option BReq) : Decidable (bFaithful E b) := by unfold bFaithful; split <;> infer_instance


/-- What a field read back must report for the dry run to build correct tables: every netCDF dimension name
it carries (for a coordinate variable, an axis, a bounds dimension) either is not an unlimited dimension of
the dataset or comes with that dimension's length.  (Names as registered: blanks replaced.) -/
def Req.faithful (E : Ds) : Req → Prop
  | .dimCoord _ _ _ base ncdim size _ b =>
    DimFits E (underscore (match base with | some bs => bs | none => ncdim.getD "coordinate")) size ∧ bFaithful E b
  | .axisDim _ size _ base _ _ => DimFits E (underscore base) size
  | .scalarCoord _ _ _ _ b => bFaithful E b
  | .aux _ _ _ _ b => bFaithful E b
  | .domAnc _ _ _ _ b => bFaithful E b
  | _ => True

instance (E : Ds) (q : Req) : Decidable (q.faithful E) := by
  cases q <;> (unfold Req.faithful; infer_instance)


/-- A field read back reports the dataset's dimension lengths. -/
def FieldReq.faithful (E : Ds) (f : FieldReq) : Prop := ∀ q ∈ f.reqs, q.faithful E

instance (E : Ds) (f : FieldReq) : Decidable (f.faithful E) := by unfold FieldReq.faithful; infer_instance


end Cfdm.Append
