import Cfdm.Model.Heap
/-
C04 — the documented *views* and the shallow copy of a constructs collection (core Lean only).

A view is not a copy in the sense of the property: its sharing is intended.  The model states
what is intended, so that the correspondence can check that the implementation shares exactly that:

  * `Constructs._view()` (behind `Field.domain`, `Domain.fromconstructs`): `new.__dict__ =
    source.__dict__.copy()` — a new instance whose every attribute value is the source's own
    object; `_viewed` points at the viewed collection (cfdm/core/constructs.py);
  * `Field.domain`: a new `Domain` whose `constructs` component is such a view;
  * `Constructs.shallow_copy()` = `type(self)(source=self, copy=False)`: new bookkeeping dictionaries
    (`_construct_axes`, `_construct_type`, `_key_base`, the two sets, `_constructs` and each per-type
    dictionary in it), the construct objects themselves shared.
-/
namespace Cfdm.Heap

/-- `Constructs._view()` -/
def viewT : T → Nat → T × Nat
  | .node a k ks, n => (.node n k (ks.set "_viewed" ((ks.get? "_viewed").getD (.node a k ks))), n + 1)
  | t, n => (t, n)

/-- `Field.domain`: a new Domain (cells `n`, `n+1`) around a view of the field's constructs -/
def domainOfT (f : T) (n : Nat) : Option (T × Nat) :=
  match resolve f [.attr, .comp "constructs"] with
  | some c =>
    let v := viewT c (n + 2)
    some (.node n (.obj .container "Domain") (.cons "_components"
      (.node (n + 1) (.comps .container) (.cons "constructs" v.1 .nil)) .nil), v.2)
  | none => none

def shallowCopyMode : Kind → String → Mode
  | .obj .constructs _, key =>
    if key == "_constructs" || key == "_prefiltered" then .own
    else if key == "_filters_applied" || key == "_field_data_axes" || key == "_ignore" then .share
    else if key == "_construct_axes" || key == "_construct_type" || key == "_key_base"
         || key == "_array_constructs" || key == "_non_array_constructs" then .shallow
    else .drop
  | .dict, _ => .shallow     -- `_constructs` and each per-type dictionary are new, the constructs in them shared
  | .list, _ => .shallow
  | _, _ => .share

/-- `Constructs.shallow_copy()` as a copy table -/
def shallowCopyTbl : Tbl := ⟨shallowCopyMode⟩

/-- membership writes of a collection: `_set_construct`, `_pop`, `_set_construct_data_axes`, `_del_data_axes` -/
inductive MembershipWrite : Write → Prop
  | construct (t k v) : MembershipWrite ⟨[.cattr "_constructs", .item t], .setKey k v, .placeholder⟩
  | delConstruct (t k) : MembershipWrite ⟨[.cattr "_constructs", .item t], .delKey k, .placeholder⟩
  | setMeta (a k v) (h : a ∈ ["_construct_type", "_construct_axes", "_key_base"]) :
      MembershipWrite ⟨[.cattr a], .setKey k v, .placeholder⟩
  | delMeta (a k) (h : a ∈ ["_construct_type", "_construct_axes", "_key_base"]) :
      MembershipWrite ⟨[.cattr a], .delKey k, .placeholder⟩

end Cfdm.Heap
