import Cfdm.Model.PySlice
import Cfdm.Model.Arr
/-
C03 — `netcdf_indexer._variable_subspace` for variables that are neither numpy arrays nor
natively orthogonal (h5netcdf / h5py): h5py refuses a negative slice step and any list index
that is not strictly increasing, so the code reads an *acceptable* index and re-orders the
result in memory:

    if i.step is not None and i.step < 0:
        r = range(*i.indices(size))
        if r: index[n] = slice(r[-1], r[0] + 1, -r.step)
        else: index[n] = slice(0, 0)
        reorder[n] = slice(None, None, -1)
    ...
    elif list:  if i.size > 1 and (np.diff(i) <= 0).any():
        index[n], reorder[n] = np.unique(i, return_inverse=True)
    data = data[tuple(index)];  if reordered: data = data[tuple(reorder)]

Import-free (core Lean only).
-/
namespace Cfdm.IndexBackend
open Cfdm.PySlice Cfdm.Arr

/-- What goes to the library for one axis (`read`) and what is applied to the array in memory
afterwards (`reorder`; `none` = `slice(None)`). -/
structure AxisRead where
  read : Sel
  reorder : Option Sel
  deriving Repr, DecidableEq

/-- The slice branch.  Note the anchoring on `r[-1]`, the LAST selected element: when `|step|`
does not divide the span, `stop + 1` is not selected by the original slice. -/
def convSlice (a b c : Option Int) (n : Nat) : AxisRead :=
  match c with
  | some st =>
    if st < 0 then
      let r := slicePositions a b (some st) n          -- range(*i.indices(size))
      match r.head?, r.getLast? with
      | some r0, some rl =>
        ⟨.slice (some rl) (some (r0 + 1)) (some (-st)), some (.slice none none (some (-1)))⟩
      | _, _ => ⟨.slice (some 0) (some 0) none, some (.slice none none (some (-1)))⟩
    else ⟨.slice a b c, none⟩
  | none => ⟨.slice a b c, none⟩

/-- A tempting but wrong conversion: swap the adjusted bounds (`slice(stop+1, start+1, -step)`).
Kept for the counter-example theorem only. -/
def convSliceNaive (a b : Option Int) (st : Int) (n : Nat) : AxisRead :=
  let (s, e) := adjust a b st n
  ⟨.slice (some (e + 1)) (some (s + 1)) (some (-st)), some (.slice none none (some (-1)))⟩

/-- `np.diff(i) <= 0).any()`. -/
def hasDescent : List Int → Bool
  | x :: y :: rest => decide (y ≤ x) || hasDescent (y :: rest)
  | _ => false

/-- Insertion into a strictly increasing list, dropping duplicates. -/
def insertU (x : Int) : List Int → List Int
  | [] => [x]
  | y :: ys => if x < y then x :: y :: ys else if x = y then y :: ys else y :: insertU x ys

/-- `np.unique(i)`: the sorted distinct values. -/
def uniq (l : List Int) : List Int := l.foldr insertU []

/-- `np.unique(i, return_inverse=True)[1]`: for each entry its rank among the distinct values. -/
def inverse (l : List Int) : List Int := l.map (fun x => (((uniq l).idxOf x : Nat) : Int))

/-- The list branch, on normalised (non-negative) positions as dask's `normalize_index` has left
them. -/
def convList (l : List Int) : AxisRead :=
  if decide (1 < l.length) && hasDescent l then ⟨.list (uniq l), some (.list (inverse l))⟩
  else ⟨.list l, none⟩

/-- `_variable_subspace` on one axis (lists normalised first, as `normalize_index` does). -/
def convSel (n : Nat) : Sel → AxisRead
  | .slice a b c => convSlice a b c n
  | .list l => convList (l.map (norm n))

/-- Positions of a selector as naturals. -/
def posNat (n : Nat) (s : Sel) : List Nat := (s.positions n).map Int.toNat

/-- The positions finally delivered on one axis: the in-memory re-order applied to what was read. -/
def delivered (n : Nat) (ar : AxisRead) : List Nat :=
  let r := posNat n ar.read
  match ar.reorder with
  | none => r
  | some s => (posNat r.length s).map (fun j => r.getD j 0)

/-- Is the read index acceptable to h5py?  Positive (or absent) step; list strictly increasing. -/
def h5Accepts (n : Nat) : Sel → Bool
  | .slice _ _ c => decide (0 < c.getD 1)
  | .list l => !hasDescent (l.map (norm n))

/-- `_variable_subspace` on a whole index tuple: one read, one re-order. -/
def variableSubspace {α} (A : Arr α) (sels : List Sel) : Arr α :=
  let ars := List.zipWith (fun s n => convSel n s) sels A.shape
  let reads := List.zipWith (fun ar n => posNat n ar.read) ars A.shape
  let B := takeAll A reads
  takeSome B (List.zipWith (fun ar m => ar.reorder.map (posNat m)) ars B.shape)

/-- `idx` is a valid multi-index of an array of shape `shape`. -/
def InRange (shape idx : List Nat) : Prop :=
  idx.length = shape.length ∧ ∀ k (h1 : k < idx.length) (h2 : k < shape.length), idx[k] < shape[k]

/-- Same shape and same element at every valid multi-index: what an observer of two arrays can
tell apart. -/
def EqvIn {α} (A B : Arr α) : Prop :=
  A.shape = B.shape ∧ ∀ idx, InRange A.shape idx → A.get idx = B.get idx

/-- Per-axis positions of a parsed index tuple. -/
def positionsNat (shape : List Nat) (sels : List Sel) : List (List Nat) :=
  List.zipWith (fun s n => posNat n s) sels shape

def selsWf (shape : List Nat) (sels : List Sel) : Bool :=
  sels.length == shape.length && (List.zipWith (fun s n => s.wf n) sels shape).all id

def isList : Sel → Bool
  | .list _ => true
  | _ => false

/-- `index1` of `_index`: every sequence index except the one on axis `first` is replaced by
`slice(None)`. -/
def maskLists (sels : List Sel) (first : Nat) : List Sel :=
  List.zipWith (fun s k => if isList s && k != first then Sel.slice none none none else s)
    sels (List.range sels.length)

/-- `netcdf_indexer._index` on a variable that is not natively orthogonal, with two or more
sequence indices: the slices and ONE sequence (axis `first`, chosen by an `argmin` heuristic) go
to `_variable_subspace`; the other sequences (`rest`, in the order the heuristic picks) are then
applied one at a time to the array in memory. -/
def indexNonOrth {α} (A : Arr α) (sels : List Sel) (first : Nat) (rest : List Nat) : Arr α :=
  let ps := positionsNat A.shape sels
  rest.foldl (fun B k => takeAxis B k (ps.getD k [])) (variableSubspace A (maskLists sels first))

end Cfdm.IndexBackend
