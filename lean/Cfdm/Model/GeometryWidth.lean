import Cfdm.Model.Geometry
/-
C14 — the storage type of the count variables.

CF does not prescribe the netCDF type of `node_count` / `part_node_count`: they
may be stored as `byte`, `ubyte`, `short`, … (a `w`-bit signed or unsigned
integer).  `_parse_geometry` converts every count to a Python `int`
(`int(get_array(parts_data[k])[0])`) before it is added to the running node
total, so the total is an unbounded integer whatever the storage type:
`partIndexZ` is that loop over integers, `storedVal` the value of a stored
count.

`partIndexW` is the loop with the running total kept in the storage type of
`part_node_count` (what `n_nodes += parts_array[k]` does under numpy ≥ 2:
`0 + np.int8(100)` is an `np.int8`): the total wraps around modulo `2^w`.

Core Lean only.
-/
namespace Cfdm.GeometryWidth
open Cfdm.Geometry

/-- The integer a `w`-bit netCDF integer holds. -/
def storedVal {w : Nat} (signed : Bool) (v : BitVec w) : Int :=
  if signed then v.toInt else (v.toNat : Int)

/-! ## the loop as coded: an unbounded accumulator -/

def innerZ (need : Int) (inst : Nat) : (k : Nat) → (n : Int) → (ps : List Int) → (index : List Nat) →
    List Nat × Option Nat
  | _, _, [], index => (index, none)
  | k, n, p :: ps, index =>
    let index := index.set k inst
    if need ≤ n + p then (index, some k) else innerZ need inst (k + 1) (n + p) ps index

def stepZ (parts : List Int) (st : St) (need : Int) : St :=
  match innerZ need st.inst st.i 0 (parts.drop st.i) st.index with
  | (index, some k) => ⟨index, st.inst + 1, k + 1⟩
  | (index, none) => ⟨index, st.inst, st.i⟩

/-- The part → cell vector for integer counts (the index variable starts as a
copy of the part counts). -/
def partIndexZ (nc parts : List Int) : List Nat :=
  (nc.foldl (stepZ parts) ⟨parts.map Int.toNat, 0, 0⟩).index

/-- `_parse_geometry` on count variables stored in `wn`- / `wp`-bit integers. -/
def partIndexStored {wn wp : Nat} (sn sp : Bool) (nc : List (BitVec wn)) (pnc : List (BitVec wp)) : List Nat :=
  partIndexZ (nc.map (storedVal sn)) (pnc.map (storedVal sp))

/-! ## the loop with the total kept in the storage type -/

def innerW {w : Nat} (signed : Bool) (need : Int) (inst : Nat) :
    (k : Nat) → (n : BitVec w) → (ps : List (BitVec w)) → (index : List Nat) → List Nat × Option Nat
  | _, _, [], index => (index, none)
  | k, n, p :: ps, index =>
    let index := index.set k inst
    if need ≤ storedVal signed (n + p) then (index, some k) else innerW signed need inst (k + 1) (n + p) ps index

def stepW {w : Nat} (signed : Bool) (parts : List (BitVec w)) (st : St) (need : Int) : St :=
  match innerW signed need st.inst st.i 0 (parts.drop st.i) st.index with
  | (index, some k) => ⟨index, st.inst + 1, k + 1⟩
  | (index, none) => ⟨index, st.inst, st.i⟩

def partIndexW {wn wp : Nat} (sn sp : Bool) (nc : List (BitVec wn)) (pnc : List (BitVec wp)) : List Nat :=
  ((nc.map (storedVal sn)).foldl (stepW sp pnc) ⟨pnc.map (fun v => (storedVal sp v).toNat), 0, 0⟩).index

/-- Largest value of the storage type. -/
def maxStored (w : Nat) (signed : Bool) : Nat := if signed then 2 ^ (w - 1) - 1 else 2 ^ w - 1

end Cfdm.GeometryWidth
