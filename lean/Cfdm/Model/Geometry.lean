/-
C14 — CF 7.5 geometry containers.

Model of the decision core of

* `NetCDFRead._parse_geometry` (netcdfread.py): the default node count when the
  `node_count` attribute is absent, the part→cell assignment loop with its
  running offset, the choice between the ragged *contiguous* decode
  (no `part_node_count`) and the ragged *indexed contiguous* decode;
* `RaggedContiguousArray.subarrays`, `RaggedIndexedContiguousArray.subarrays`,
  `RaggedIndexedArray.subarrays` + `RaggedSubarray.__getitem__` +
  `CompressedArray.__getitem__`: rows are found through `np.unique(index)` and
  `np.where(index == i)`, written into an all-masked array row by row (`zip`
  of the uncompressed and compressed index products);
* `_create_bounded_construct` (geometry branch): a 2-d node array gets a size-1
  part dimension;
* `core/abstract/propertiesdatabounds.py` `shape`/`ndim`: inferred from the
  bounds when there are no representative values;
* `NetCDFWrite._write_node_coordinates`, `_write_node_count`,
  `_write_part_node_count`, `_write_interior_ring`.

Node values are abstract (`α`); a masked element is `none`.

Two places were found wrong when this model was first written and have since
been repaired in /repo (commits 6288525, fe4e445, 99956cc): the model mirrors the
code as it is now, the code as it was is kept as `…Old` with `decide` witnesses:

* `partIndex true` is the loop with `i = k + 1` (the code), `partIndex false` the
  loop as it was coded before 6288525 (`i += k + 1`);
* `wPartNodeCount` drops every zero count and is written whenever there is an
  interior ring (the code), `wPartNodeCountOld` is the code before fe4e445 /
  99956cc: `np.trim_zeros`, skipped whenever no cell has more than one part.

Several containers / fields in one dataset, the storage type of the count
variables and the operations that keep the part and node dimensions are in
`Model/GeometryWrite.lean`, `Model/GeometryWidth.lean`, `Model/GeometryOps.lean`.

Core Lean only.
-/
namespace Cfdm.Geometry

/-! ## Specification (CF 7.5) -/

/-- A geometry: cells → parts → nodes, in file order. -/
abbrev Cells (α : Type) := List (List (List α))

/-- Every cell has a part and every part has a node. -/
def WF {α} (cs : Cells α) : Prop := ∀ c ∈ cs, c ≠ [] ∧ ∀ p ∈ c, p ≠ []

/-- The node coordinate variable: all nodes in file order. -/
def nodesOf {α} (cs : Cells α) : List α := cs.flatten.flatten
/-- The `part_node_count` variable. -/
def partNodeCount {α} (cs : Cells α) : List Nat := cs.flatten.map List.length
/-- The `node_count` variable. -/
def nodeCount {α} (cs : Cells α) : List Nat := cs.map (fun c => (c.map List.length).sum)

/-- Consecutive runs of the given lengths: run `p` is `xs[N_p, N_{p+1})` with
`N` the running sums of the counts. -/
def splitBy {α} : List Nat → List α → List (List α)
  | [], _ => []
  | n :: ns, xs => xs.take n :: splitBy ns (xs.drop n)

/-- First node offset of every part: `[0, p₀, p₀+p₁, …]`. -/
def partStartsFrom (o : Nat) : List Nat → List Nat
  | [] => []
  | p :: ps => o :: partStartsFrom (o + p) ps

/-- One-past-the-last node offset of every cell (or part): `[n₀, n₀+n₁, …]`. -/
def endsFrom (o : Nat) : List Nat → List Nat
  | [] => []
  | n :: ns => (o + n) :: endsFrom (o + n) ns

/-- CF 7.5: part `p` belongs to the cell whose node range contains the part's
first node, i.e. to cell number `#{c | C_{c+1} ≤ N_p}` (closed form over the
cumulative counts — no loop). -/
def specAssign (nc pnc : List Nat) : List Nat :=
  (partStartsFrom 0 pnc).map (fun s => (endsFrom 0 nc).countP (· ≤ s))

/-- The elements of `xs` whose label is `c`, in order. -/
def pickLabel {β} (labels : List Nat) (xs : List β) (c : Nat) : List β :=
  ((labels.zip xs).filter (fun t => t.1 == c)).map (·.2)

/-- The independent CF 7.5 decoder: part `p` = nodes `[N_p, N_{p+1})`, cell `c`
= the parts assigned to `c`, in file order. -/
def specDecode {α} (nc pnc : List Nat) (nodes : List α) : Cells α :=
  (List.range nc.length).map (pickLabel (specAssign nc pnc) (splitBy pnc nodes))

/-- Interior-ring flags by cell: flag `p` goes with part `p`. -/
def specRing (nc pnc : List Nat) (flags : List Int) : List (List Int) :=
  (List.range nc.length).map (pickLabel (specAssign nc pnc) flags)

/-- Count vectors of a CF-consistent container: the part counts can be grouped
into non-empty runs (the cells), every count is ≥ 1, and the node count of a
cell is the sum of its part counts (so Σ part_node_count = Σ node_count and
every cell boundary is a part boundary). -/
def Consistent (nc pnc : List Nat) : Prop :=
  ∃ g : List (List Nat), (∀ c ∈ g, c ≠ []) ∧ (∀ c ∈ g, ∀ x ∈ c, 0 < x) ∧ g.flatten = pnc ∧ g.map List.sum = nc

/-- The same, stated on the cumulative counts only. -/
def Aligned (nc pnc : List Nat) : Prop :=
  (∀ x ∈ nc, 0 < x) ∧ (∀ x ∈ pnc, 0 < x) ∧ nc.sum = pnc.sum ∧ ∀ e ∈ endsFrom 0 nc, e ∈ endsFrom 0 pnc

def maxLen {β} (rows : List (List β)) : Nat := (rows.map List.length).foldl max 0

def padTo {γ} (n : Nat) (fill : γ) (l : List γ) : List γ := l ++ List.replicate (n - l.length) fill

/-- What the property asks of the bounds: `bounds[c][i][j]` = node `j` of part
`i` of cell `c`, else masked; trailing sizes are the largest part count and the
largest node count. -/
def padSpec {α} (cs : Cells α) : List (List (List (Option α))) :=
  let mp := maxLen cs
  let mn := maxLen cs.flatten
  cs.map (fun c => padTo mp (List.replicate mn none) (c.map (fun p => padTo mn none (p.map some))))

/-- Ring flags as presented: `ring[c][i]` = flag of part `i` of cell `c`, else masked. -/
def padRows {β} (rows : List (List β)) : List (List (Option β)) :=
  rows.map (fun r => padTo (maxLen rows) none (r.map some))

/-! ## `_parse_geometry`: part → cell assignment loop -/

/-- The inner loop `for k in range(i, total_number_of_parts)`; `ps` is
`parts_data[k:]`.  Writes `instance_index` at `k`, adds the part's node count
and stops (`some k`) as soon as the cell's node count is reached. -/
def inner (need inst : Nat) : (k n : Nat) → (ps index : List Nat) → List Nat × Option Nat
  | _, _, [], index => (index, none)
  | k, n, p :: ps, index =>
    let index := index.set k inst
    if need ≤ n + p then (index, some k) else inner need inst (k + 1) (n + p) ps index

structure St where
  index : List Nat
  inst : Nat
  i : Nat

/-- One pass of the outer loop `for cell_no in range(n_cells)`.  With
`fixed = true` the offset is advanced as coded, `i = k + 1`; with
`fixed = false` as it was before commit 6288525, `i += k + 1`. -/
def step (fixed : Bool) (parts : List Nat) (st : St) (need : Nat) : St :=
  match inner need st.inst st.i 0 (parts.drop st.i) st.index with
  | (index, some k) => ⟨index, st.inst + 1, if fixed then k + 1 else st.i + (k + 1)⟩
  | (index, none) => ⟨index, st.inst, st.i⟩

/-- The index variable handed to the ragged-indexed machinery.  It starts as a
copy of the part node counts (`set_data(index, data=parts_data)`), so a part the
loop never visits keeps its node count as "cell number". -/
def partIndex (fixed : Bool) (nc parts : List Nat) : List Nat :=
  (nc.foldl (step fixed parts) ⟨parts, 0, 0⟩).index

/-! ## Ragged decodes -/

/-- `np.unique(index)`: the distinct values in increasing order. -/
def uniq (l : List Nat) : List Nat :=
  (List.range (l.foldl max 0 + 1)).filter (fun i => l.contains i)

/-- For each `i` of `np.unique(index)` the elements at `np.where(index == i)`, in order. -/
def groupRows {β} (index : List Nat) (xs : List β) : List (List β) :=
  (uniq index).map (pickLabel index xs)

/-- `RaggedIndexedContiguousArray[...]`: the uncompressed array has shape
(cells, max #parts of a unique index value, max part size) and starts all
masked; the `r`-th group of `np.unique` is written into row `r` (the `zip` stops
at the shorter of the two products). -/
def decodeRIC {α} (ncells : Nat) (index : List Nat) (parts : List (List α)) : List (List (List (Option α))) :=
  let rows := groupRows index parts
  let mp := maxLen rows
  let mn := maxLen parts
  (List.range ncells).map (fun r =>
    padTo mp (List.replicate mn none) ((rows.getD r []).map (fun p => padTo mn none (p.map some))))

/-- `RaggedIndexedArray[...]` for the interior-ring variable: shape (cells, max #parts). -/
def decodeRI {β} (ncells : Nat) (index : List Nat) (xs : List β) : List (List (Option β)) :=
  let rows := groupRows index xs
  let mp := maxLen rows
  (List.range ncells).map (fun r => padTo mp none ((rows.getD r []).map some))

/-- `RaggedContiguousArray[...]` (no `part_node_count`): shape (cells, max node
count); `_create_bounded_construct` then inserts a size-1 part dimension. -/
def decodeRC {α} (counts : List Nat) (nodes : List α) : List (List (List (Option α))) :=
  let rows := splitBy counts nodes
  let mn := maxLen rows
  rows.map (fun r => [padTo mn none (r.map some)])

/-- `node_count` absent: `np.ones(size of the node dimension)`. -/
def defaultNodeCount (nc : Option (List Nat)) (nnodes : Nat) : List Nat :=
  nc.getD (List.replicate nnodes 1)

/-- Bounds of a node coordinate variable as `cfdm.read` presents them. -/
def readBounds {α} (fixed : Bool) (nc pnc : Option (List Nat)) (nodes : List α) : List (List (List (Option α))) :=
  let counts := defaultNodeCount nc nodes.length
  match pnc with
  | none => decodeRC counts nodes
  | some pnc => decodeRIC counts.length (partIndex fixed counts pnc) (splitBy pnc nodes)

/-- Interior ring as `cfdm.read` presents it (only parsed when `part_node_count` is there). -/
def readRing (fixed : Bool) (nc : Option (List Nat)) (nnodes : Nat) (pnc : List Nat) (flags : List Int) :
    List (List (Option Int)) :=
  let counts := defaultNodeCount nc nnodes
  decodeRI counts.length (partIndex fixed counts pnc) flags

/-! ## Shape without representative values -/

/-- `PropertiesDataBounds.shape`: that of the data if there are data, else that
of the bounds without the trailing part and node dimensions (geometry) or
without the trailing vertex dimension. -/
def coordShape (dataShape boundsShape : Option (List Nat)) (hasGeometry : Bool) : Option (List Nat) :=
  match dataShape with
  | some s => some s
  | none => boundsShape.map (fun s => s.take (s.length - (if hasGeometry then 2 else 1)))

def shape3 {β} (b : List (List (List β))) : List Nat :=
  [b.length, (b.head?.map List.length).getD 0, ((b.head?.bind List.head?).map List.length).getD 0]

def shape2 {β} (b : List (List β)) : List Nat :=
  [b.length, (b.head?.map List.length).getD 0]

/-! ## Writer -/

/-- `np.ma.count` along the node axis. -/
def countSome {α} (l : List (Option α)) : Nat := (l.filter Option.isSome).length

/-- `_numpy_compressed`: the unmasked elements in C order. -/
def wNodes {α} (b : List (List (List (Option α)))) : List α := b.flatten.flatten.filterMap id

/-- `_write_node_count`: `np.ma.count(array, axis=2).sum(axis=1)`. -/
def wNodeCount {α} (b : List (List (List (Option α)))) : List Nat := b.map (fun c => (c.map countSome).sum)

/-- `np.trim_zeros`: leading and trailing zeros only. -/
def trimZeros (l : List Nat) : List Nat :=
  ((l.dropWhile (· == 0)).reverse.dropWhile (· == 0)).reverse

/-- `_write_part_node_count` as it was before commits fe4e445 / 99956cc: nothing
when the part dimension has size 1, else
`np.trim_zeros(np.ma.count(array, axis=2).flatten())`. -/
def wPartNodeCountOld {α} (b : List (List (List (Option α)))) : Option (List Nat) :=
  if (shape3 b).getD 1 0 == 1 then none else some (trimZeros (b.flatten.map countSome))

/-- `_write_part_node_count` (as coded): every padding part (count 0) is left
out, and the variable is also written when there is an interior ring. -/
def wPartNodeCount {α} (b : List (List (List (Option α)))) (hasRing : Bool) : Option (List Nat) :=
  if (shape3 b).getD 1 0 == 1 && !hasRing then none else some ((b.flatten.map countSome).filter (· != 0))

/-- `_write_interior_ring`: the unmasked flags in C order. -/
def wRing {β} (r : List (List (Option β))) : List β := r.flatten.filterMap id

end Cfdm.Geometry
