import Cfdm.Model.Indexing
import Cfdm.Model.IndexBackend
/-
C03 — `Field.__getitem__` and the construct `__getitem__`s it calls
(`PropertiesData.__getitem__`, `PropertiesDataBounds.__getitem__`), as coded:

    indices = data._parse_indices(indices)                      # parsed once, against the field data
    new_data = data[tuple(indices)];  0 in new_data.shape -> IndexError
    for key, size in zip(data_axes, new_data.shape): domain_axes[key].set_size(size)
    for key, construct in new.constructs.filter_by_axis(*data_axes, axis_mode='or'):
        dice = [indices[data_axes.index(axis)] if axis in data_axes else slice(None)
                for axis in new_constructs_data_axes[key]]       # in the CONSTRUCT's own axis order
        new.set_construct(construct[tuple(dice)], key=key)

    construct[dice]:  data[dice] (parsed AGAIN by Data.__getitem__), 0 in shape -> IndexError,
                      interior_ring[dice], bounds[parse(dice) with the trailing axis reversed
                      when bounds.ndim <= 2 and the first index is a negative-step slice or a
                      list whose last element lies before its first]

Import-free (core Lean only).  Array values are abstract (`α`): masks are `α = Option _`.
-/
namespace Cfdm.FieldSubspace
open Cfdm.PySlice Cfdm.Arr Cfdm.Indexing Cfdm.IndexBackend

/-- A metadata construct with data: its key, the domain axes it spans IN ITS OWN ORDER, its data,
optional bounds (shape = data shape ++ [vertices], or ++ [parts, nodes] for geometry cells) and optional interior ring (shape = data shape
++ [parts]). -/
structure Construct (α : Type) where
  key : String
  axes : List String
  data : Arr α
  bounds : Option (Arr α)
  ring : Option (Arr α)

/-- The abstract field: domain axes with sizes, the axes spanned by the data (in order), the data
and the metadata constructs. -/
structure Field (α : Type) where
  axes : List (String × Nat)
  dataAxes : List String
  data : Arr α
  constructs : List (Construct α)

def full : Sel := .slice none none none
def rev : Sel := .slice none none (some (-1))

/-- A parsed selector handed on as an index (a slice object or a list). -/
def toRaw : Sel → RawIx
  | .slice a b c => .slice a b c
  | .list l => .list l

/-- The order in which the driver applies the axes (sequence axes first, then the slices); any
order gives the same array (`C03_getitem_order_irrelevant`). -/
def codeOrder (sels : List Sel) : List Nat :=
  (List.range sels.length).filter (fun k => isList (sels.getD k full)) ++
  (List.range sels.length).filter (fun k => !isList (sels.getD k full))

/-- `Data.__getitem__`: `_parse_indices`, then the array's `__getitem__` (`netcdf_indexer._index`).
Returns the subspace and the parsed tuple. -/
def getData {α} (A : Arr α) (ix : List RawIx) : Except String (Arr α × List Sel) :=
  match parseIndices A.shape ix with
  | .error e => .error e
  | .ok sels =>
    if selsWf A.shape sels then
      .ok (seqTake A (positionsNat A.shape sels) (codeOrder sels), sels)
    else .error "IndexError"

/-- `PropertiesData.__getitem__`: the data are indexed; a size-0 result is refused. -/
def getPD {α} (A : Arr α) (ix : List RawIx) : Except String (Arr α) :=
  match getData A ix with
  | .error e => .error e
  | .ok (B, _) => if B.shape.contains 0 then .error "IndexError" else .ok B

def setLast {β} (l : List β) (x : β) : List β := l.set (l.length - 1) x

/-- The bounds' index tuple of `PropertiesDataBounds.__getitem__`: the construct's indices parsed
against the bounds (so a full slice is appended for the trailing axis), with that trailing slice
reversed by the rule quoted in the header.  `bshape` = shape of the bounds. -/
def boundsIndices (bshape : List Nat) (bi : List Sel) : List Sel :=
  if bshape.length ≤ 2 then
    match bi.head? with
    | some (.slice _ _ (some st)) => if st < 0 then setLast bi rev else bi
    | some (.slice _ _ none) => bi
    | some (.list l) =>
      if 1 < bshape.foldl (· * ·) 1 then
        match l.head?, l.getLast? with
        | some a, some b => if norm (bshape.headD 0) b < norm (bshape.headD 0) a then setLast bi rev else bi
        | _, _ => bi
      else bi
    | none => bi
  else bi

def getOpt {α} (o : Option (Arr α)) (f : Arr α → Except String (Arr α)) : Except String (Option (Arr α)) :=
  match o with
  | none => .ok none
  | some a => match f a with
    | .error e => .error e
    | .ok b => .ok (some b)

/-- `PropertiesDataBounds.__getitem__` (`PropertiesData.__getitem__` when there are neither bounds
nor an interior ring). -/
def getConstruct {α} (c : Construct α) (ix : List RawIx) : Except String (Construct α) :=
  match getPD c.data ix with
  | .error e => .error e
  | .ok d =>
    match getOpt c.ring (fun r => getPD r ix) with
    | .error e => .error e
    | .ok ring =>
      match getOpt c.bounds (fun b =>
          match parseIndices b.shape ix with
          | .error e => .error e
          | .ok bi => getPD b ((boundsIndices b.shape bi).map toRaw)) with
      | .error e => .error e
      | .ok bounds => .ok { c with data := d, ring := ring, bounds := bounds }

/-- `data_axes.index(axis)` (`none` = `axis not in data_axes`). -/
def indexIn (a : String) : List String → Option Nat
  | [] => none
  | x :: xs => if x = a then some 0 else (indexIn a xs).map (· + 1)

/-- The dice of `Field.__getitem__` for a construct spanning `caxes` (its own order). -/
def diceOf (dataAxes : List String) (sels : List Sel) (caxes : List String) : List Sel :=
  caxes.map (fun a => match indexIn a dataAxes with
    | some k => sels.getD k full
    | none => full)

def needsSlicing (dataAxes caxes : List String) : Bool := caxes.any (fun a => dataAxes.contains a)

def mapE {β γ} (f : β → Except String γ) : List β → Except String (List γ)
  | [] => .ok []
  | x :: xs => match f x with
    | .error e => .error e
    | .ok y => match mapE f xs with
      | .error e => .error e
      | .ok ys => .ok (y :: ys)

/-- `domain_axis.set_size(size)` for one key. -/
def setSize (axes : List (String × Nat)) (key : String) (size : Nat) : List (String × Nat) :=
  axes.map (fun kn => if kn.1 = key then (kn.1, size) else kn)

/-- `Field.__getitem__`. -/
def subspaceField {α} (f : Field α) (ix : List RawIx) : Except String (Field α) :=
  match getData f.data ix with
  | .error e => .error e
  | .ok (newData, sels) =>
    if newData.shape.contains 0 then .error "IndexError" else
    let axes' := (f.dataAxes.zip newData.shape).foldl (fun ax ks => setSize ax ks.1 ks.2) f.axes
    match mapE (fun c =>
        if needsSlicing f.dataAxes c.axes then
          getConstruct c ((diceOf f.dataAxes sels c.axes).map toRaw)
        else .ok c) f.constructs with
    | .error e => .error e
    | .ok cs => .ok { axes := axes', dataAxes := f.dataAxes, data := newData, constructs := cs }

/-! ### Specification -/

/-- The positions selected on the domain axis `a`: those of the index of the data dimension that
spans it; `none` when the data do not span the axis. -/
def axisPositions (dataAxes : List String) (P : List (List Nat)) (a : String) : Option (List Nat) :=
  (dataAxes.zip P).lookup a

/-- What numpy's per-axis take of a construct's own array needs: for each of ITS axes, in ITS
order, the positions selected on that domain axis, or every position. -/
def specPositions (dataAxes : List String) (P : List (List Nat)) (caxes : List String) (cshape : List Nat) :
    List (List Nat) :=
  List.zipWith (fun a n => (axisPositions dataAxes P a).getD (List.range n)) caxes cshape

/-- Size of a domain axis. -/
def sizeOf (axes : List (String × Nat)) (a : String) : Nat := (axes.lookup a).getD 0

/-- Shapes agree with the domain axis sizes; data axes are distinct. -/
structure WF {α} (f : Field α) : Prop where
  nodup : f.dataAxes.Nodup
  data : f.data.shape = f.dataAxes.map (sizeOf f.axes)
  cons : ∀ c ∈ f.constructs, c.data.shape = c.axes.map (sizeOf f.axes)
  bounds : ∀ c ∈ f.constructs, ∀ b, c.bounds = some b → ∃ tr, tr ≠ [] ∧ b.shape = c.data.shape ++ tr
  ring : ∀ c ∈ f.constructs, ∀ r, c.ring = some r → ∃ np, r.shape = c.data.shape ++ [np]

/-- No array of a construct has a zero extent (so that only the index can make a result empty). -/
structure Positive {α} (f : Field α) : Prop where
  cons : ∀ c ∈ f.constructs, 0 ∉ c.data.shape
  bounds : ∀ c ∈ f.constructs, ∀ b, c.bounds = some b → 0 ∉ b.shape
  ring : ∀ c ∈ f.constructs, ∀ r, c.ring = some r → 0 ∉ r.shape

/-- The selector deciding the bounds reversal with its list entries normalised (as
`boundsReversed` expects). -/
def normSel (n : Nat) : Sel → Sel
  | .list l => .list (l.map (norm n))
  | s => s

/-- Are the vertices of the bounds reversed?  1-d constructs only; for a list only when the
bounds hold more than one element. -/
def vertexReversed (cshape : List Nat) (nv : Nat) (dice : List Sel) : Bool :=
  match cshape, dice with
  | [n], [s] =>
    (match s with
     | .list _ => decide (1 < n * nv)
     | _ => true) && boundsReversed (normSel n s)
  | [], [] => false
  | _, _ => false

/-- The vertex order of subspaced bounds. -/
def vertexOrder (reversed : Bool) (nv : Nat) : List Nat :=
  if reversed then (List.range nv).reverse else List.range nv

/-- What the specification says about one construct of the subspaced field: `c'` is `c` with every
array replaced by its per-axis take at the positions `Q` (in the construct's own axis order);
bounds with one trailing axis keep every vertex, in reversed order iff `vrev`; bounds with two or
more trailing axes (geometry cells: parts, nodes) keep them whole; interior rings keep every part. -/
def ConstructSpec {α} (c c' : Construct α) (Q : List (List Nat)) (vrev : Nat → Bool) : Prop :=
  c'.key = c.key ∧ c'.axes = c.axes ∧
  EqvIn c'.data (takeAll c.data Q) ∧
  (∀ r np, c.ring = some r → r.shape = c.data.shape ++ [np] →
    ∃ r', c'.ring = some r' ∧ EqvIn r' (takeAll r (Q ++ [List.range np]))) ∧
  (c.ring = none → c'.ring = none) ∧
  (∀ b nv, c.bounds = some b → b.shape = c.data.shape ++ [nv] →
    ∃ b', c'.bounds = some b' ∧ EqvIn b' (takeAll b (Q ++ [vertexOrder (vrev nv) nv]))) ∧
  (∀ b tr, c.bounds = some b → b.shape = c.data.shape ++ tr → 2 ≤ tr.length →
    ∃ b', c'.bounds = some b' ∧ EqvIn b' (takeAll b (Q ++ tr.map List.range))) ∧
  (c.bounds = none → c'.bounds = none)

end Cfdm.FieldSubspace
