import Cfdm.Model.PySlice
import Cfdm.Model.Arr
import Cfdm.Model.Indexing
/-
C12 decision core: file-backed ("lazy") data.

* `AState`   what a `Data` object holds: `disk (file, address, shape)` (a `NetCDF4Array` /
             `H5netcdfArray`, nothing but the recipe for a later fetch) or `mem values`
             (a `NumpyArray`).
* `Store`    what is on disk: `Loc → Arr α`.
* `World`    every live `Data` object (a heap indexed by handle number), the **fetch log**
             `[(loc, per-axis positions)]` — one entry per call of the file array's
             `__getitem__` — and the number of open dataset handles.
* `fetch`    `NetCDF4Array.__getitem__` / `H5netcdfArray.__getitem__`: open → `netcdf_indexer`
             (`_index`: native orthogonal indexing for netCDF4, one list axis at a time for
             h5py and numpy) → close; when the backend refuses the index the explicit `close`
             is skipped and the handle goes away with the frame.
* `step`     the `Data` methods as coded in this numpy-backed snapshot: a subspace of `disk`
             data is **not** deferred, it fetches exactly the requested part at once and yields
             `mem`; `array` fetches everything and caches nothing; `__setitem__`, `transpose`,
             `insert_dimension`, `squeeze`, `flatten` fetch everything and leave `mem` (the last three
             return at once, fetching nothing, when there is nothing to do); `copy` and property edits touch
             nothing; `equals` stops at a shape mismatch before fetching.
* `estep`    the specification: the same operations on plain in-memory arrays (eager access).
* `readVar`  what `NetCDFRead` does to each netCDF variable, by role.
Import-free (core Lean only).
-/
namespace Cfdm.Lazy
open Cfdm.PySlice Cfdm.Arr Cfdm.Indexing

/-- A netCDF variable: (file, address). -/
structure Loc where
  file : Nat
  addr : Nat
  deriving DecidableEq, Repr, Inhabited

abbrev Store (α : Type) := Loc → Arr α

inductive AState (α : Type) where
  | disk (loc : Loc) (shape : List Nat)
  | mem (a : Arr α)

/-- One call of a file array's `__getitem__`: which variable, which positions per axis. -/
structure Fetch where
  loc : Loc
  ps : List (List Nat)
  deriving DecidableEq, Repr

inductive Err where
  | indexError | valueError | backend
  deriving DecidableEq, Repr

structure World (α : Type) where
  heap : List (AState α)
  log : List Fetch
  handles : Nat

/-- What indexes, and which version of the code: `native` = the variable does orthogonal indexing
itself (netCDF4); `strict` = h5py's restrictions reach the caller (no negative step, a list must be
strictly increasing); `leaky` = `__getitem__` has no `try/finally`, so a failed access does not
close its dataset. -/
structure Backend where
  native : Bool
  strict : Bool
  leaky : Bool
  deriving DecidableEq, Repr

/-- netCDF4 backend after `fixes/C12-getitem-closes-dataset-on-error.patch`. -/
def nc4 : Backend := ⟨true, false, false⟩
/-- h5netcdf after `fixes/C12-h5netcdf-index-order.patch` (`_variable_subspace` reads the same
elements in storage order and re-orders them in memory, so nothing is refused) and the
`try/finally` patch. -/
def h5 : Backend := ⟨false, false, false⟩
/-- The two backends as coded before the patches. -/
def nc4Old : Backend := ⟨true, false, true⟩
def h5Old : Backend := ⟨false, true, true⟩
def numpy : Backend := ⟨false, false, false⟩

/-! ### Arrays -/

def Arr.size {α} (A : Arr α) : Nat := A.shape.foldl (· * ·) 1

/-- `np.transpose(a)` with the default (reversed) axes. -/
def transposeArr {α} (A : Arr α) : Arr α :=
  { shape := A.shape.reverse, get := fun idx => A.get idx.reverse }

/-- `np.expand_dims(a, 0)`. -/
def insertDimArr {α} (A : Arr α) : Arr α :=
  { shape := 1 :: A.shape, get := fun idx => A.get idx.tail }

/-- Multi-index of the source for a multi-index of `np.squeeze(a)`: a 0 at every axis of size one. -/
def expandIdx : List Nat → List Nat → List Nat
  | [], _ => []
  | n :: ns, idx =>
    if n == 1 then 0 :: expandIdx ns idx
    else match idx with
      | [] => 0 :: expandIdx ns []
      | i :: is => i :: expandIdx ns is

/-- `np.squeeze(a)`: the axes of size one removed. -/
def squeezeArr {α} (A : Arr α) : Arr α :=
  { shape := A.shape.filter (· != 1), get := fun idx => A.get (expandIdx A.shape idx) }

/-- `np.unravel_index(i, shape)`. -/
def unravel : List Nat → Nat → List Nat
  | [], _ => []
  | _ :: ns, i => let p := ns.foldl (· * ·) 1; (i / p) :: unravel ns (i % p)

/-- `a.reshape(a.size)`: all axes flattened into one (row-major). -/
def flattenArr {α} (A : Arr α) : Arr α :=
  { shape := [A.shape.foldl (· * ·) 1], get := fun idx => A.get (unravel A.shape (idx.headD 0)) }

/-- Is multi-index `idx` selected by the per-axis position lists? -/
def hit : List (List Nat) → List Nat → Bool
  | [], [] => true
  | p :: ps, i :: is => p.contains i && hit ps is
  | _, _ => false

/-- `a[ix] = v` for a scalar `v` (orthogonal assignment). -/
def assignArr {α} (A : Arr α) (ps : List (List Nat)) (v : α) : Arr α :=
  { shape := A.shape, get := fun idx => if hit ps idx then v else A.get idx }

/-- Per-axis positions (as naturals) of parsed selectors. -/
def positionsNat (shape : List Nat) (sels : List Sel) : List (List Nat) :=
  List.zipWith (fun s n => (s.positions n).map Int.toNat) sels shape

def selsWf (shape : List Nat) (sels : List Sel) : Bool :=
  sels.length == shape.length && (List.zipWith (fun s n => s.wf n) sels shape).all id

/-- Every position of every axis, i.e. the index `...`. -/
def fullPs (shape : List Nat) : List (List Nat) := shape.map List.range

/-! ### `netcdf_indexer._index` -/

def isList : Sel → Bool
  | .list _ => true
  | .slice .. => false

def isListAt (sels : List Sel) (k : Nat) : Bool :=
  match sels[k]? with
  | some s => isList s
  | none => false

def listAxes (sels : List Sel) : List Nat :=
  (List.range sels.length).filter (isListAt sels)

/-- `np.argmin`: position of the first minimum. -/
def argminAux : List Nat → Nat → Nat → Nat → Nat
  | [], _, _, besti => besti
  | x :: xs, i, best, besti => if x < best then argminAux xs (i + 1) x i else argminAux xs (i + 1) best besti

def argmin : List Nat → Nat
  | [] => 0
  | x :: xs => argminAux xs 1 x 0

/-- First list axis chosen by `_index`: `sizes = [size1 * (len(index[i]) // shape1[i])]`,
`shape1` = the shape after the slices alone, `argmin`. -/
def firstListAxis (shape : List Nat) (ps : List (List Nat)) (sels : List Sel) : Option Nat :=
  let la := listAxes sels
  if la.isEmpty then none else
  let shape1 := List.zipWith (fun (sp : Sel × List Nat) n => if isList sp.1 then n else sp.2.length) (sels.zip ps) shape
  let size1 := shape1.foldl (· * ·) 1
  let sizes := la.map (fun i => size1 * ((ps.getD i []).length / shape1.getD i 1))
  la[argmin sizes]?

/-- The remaining list axes in the order the `while` loop pops them:
`sizes = [len(index[i]) * size // shape[i]]` on the current data. -/
def restOrder (ps : List (List Nat)) : Nat → List Nat → List Nat → List Nat
  | 0, _, _ => []
  | fuel + 1, cur, rem =>
    if rem.isEmpty then [] else
    let size1 := cur.foldl (· * ·) 1
    let sizes := rem.map (fun i => (ps.getD i []).length * size1 / cur.getD i 1)
    let k := argmin sizes
    match rem[k]? with
    | none => []
    | some n => n :: restOrder ps fuel (cur.set n (ps.getD n []).length) (rem.eraseIdx k)

/-- The first access to the variable when it cannot index orthogonally and there are at least
two list axes: the slices and ONE list axis; the other list axes are read in full. -/
def firstMask (sels : List Sel) (ps : List (List Nat)) (n : Nat) : List (Option (List Nat)) :=
  (List.range ps.length).map (fun k =>
    if k = n || !(isListAt sels k) then some (ps.getD k []) else none)

/-- Order in which `_index` applies the list axes that were not part of the first access. -/
def laterAxes (shape : List Nat) (sels : List Sel) (ps : List (List Nat)) : List Nat :=
  match firstListAxis shape ps sels with
  | none => []
  | some n =>
    let cur := (takeSome (iota shape) (firstMask sels ps n)).shape
    restOrder ps sels.length cur ((listAxes sels).filter (· != n))

/-- What `_index` returns. -/
def indexBackend {α} (b : Backend) (A : Arr α) (sels : List Sel) : Arr α :=
  let ps := positionsNat A.shape sels
  if b.native || (listAxes sels).length ≤ 1 then takeAll A ps
  else match firstListAxis A.shape ps sels with
    | none => takeAll A ps
    | some n =>
      (laterAxes A.shape sels ps).foldl (fun B k => takeAxis B k (ps.getD k [])) (takeSome A (firstMask sels ps n))

/-- The positions the *variable* is asked for by the first access of `_index` (everything that
comes off the disk). -/
def backendReads (b : Backend) (shape : List Nat) (sels : List Sel) : List (List Nat) :=
  let ps := positionsNat shape sels
  if b.native || (listAxes sels).length ≤ 1 then ps
  else match firstListAxis shape ps sels with
    | none => ps
    | some n => List.zipWith (fun (p : Option (List Nat)) m => match p with | some l => l | none => List.range m)
        (firstMask sels ps n) shape

def strictlyIncreasing : List Nat → Bool
  | a :: b :: rest => decide (a < b) && strictlyIncreasing (b :: rest)
  | _ => true

def negStep : Sel → Bool
  | .slice _ _ (some c) => decide (c < 0)
  | _ => false

/-- Does h5py refuse the first access?  (A negative step anywhere; the list axis that goes to
the library not strictly increasing.  The list axes applied afterwards act on numpy arrays.) -/
def backendRejects (b : Backend) (shape : List Nat) (sels : List Sel) : Bool :=
  b.strict && (sels.any negStep ||
    (let ps := positionsNat shape sels
     match firstListAxis shape ps sels with
     | none => false
     | some n => !strictlyIncreasing (ps.getD n [])))

/-! ### Fetching -/

/-- What dask's `normalize_index` (called by `netcdf_indexer._index`) or numpy refuses: a list
entry out of range (`IndexError`), a zero step (`ValueError`). -/
def checkIndex (shape : List Nat) (sels : List Sel) : Option Err :=
  if selsWf shape sels then none
  else if sels.any (fun s => match s with | .slice _ _ (some 0) => true | _ => false) then some .valueError
  else some .indexError

/-- The handle count after a failed access: with `try/finally` the dataset is closed; without it
the open dataset is left to the garbage collector. -/
def afterError (b : Backend) (opened : Nat) : Nat := if b.leaky then opened else opened - 1

/-- `NetCDF4Array.__getitem__` / `H5netcdfArray.__getitem__` with already parsed indices:
open, index, close.  `none` = the index `...`.  The call is logged on entry. -/
def fetch {α} (b : Backend) (st : Store α) (w : World α) (loc : Loc) (shape : List Nat)
    (sels : Option (List Sel)) : Except Err (Arr α) × World α :=
  -- open
  let w1 := { w with handles := w.handles + 1 }
  match sels with
  | none =>
    let w2 := { w1 with log := w1.log ++ [Fetch.mk loc (fullPs shape)] }
    -- close
    (.ok (st loc), { w2 with handles := w2.handles - 1 })
  | some sels =>
    let w2 := { w1 with log := w1.log ++ [Fetch.mk loc (positionsNat shape sels)] }
    match checkIndex shape sels with
    | some e => (.error e, { w2 with handles := afterError b w2.handles })
    | none =>
      if backendRejects b shape sels then
        (.error .backend, { w2 with handles := afterError b w2.handles })
      else
        (.ok (indexBackend b (st loc) sels), { w2 with handles := w2.handles - 1 })

def AState.shape {α} : AState α → List Nat
  | .disk _ s => s
  | .mem a => a.shape

def AState.isDisk {α} : AState α → Bool
  | .disk .. => true
  | .mem _ => false

/-- `Data.array`: the whole array; nothing is cached. -/
def getArray {α} (b : Backend) (st : Store α) (w : World α) (s : AState α) : Except Err (Arr α) × World α :=
  match s with
  | .mem a => (.ok a, w)
  | .disk loc shape => fetch b st w loc shape none

def errOfString (_ : String) : Err := .indexError

/-- `Data._parse_indices`. -/
def parse (shape : List Nat) (ix : List RawIx) : Except Err (List Sel) :=
  match parseIndices shape ix with
  | .error e => .error (errOfString e)
  | .ok sels => .ok sels

/-- `Data.__getitem__` up to the new array: a `disk` array fetches exactly the requested part. -/
def getSub {α} (b : Backend) (st : Store α) (w : World α) (s : AState α) (ix : List RawIx) :
    Except Err (Arr α) × World α :=
  match parse s.shape ix with
  | .error e => (.error e, w)
  | .ok sels =>
    match s with
    | .mem a =>
      match checkIndex a.shape sels with
      | some e => (.error e, w)
      | none => (.ok (indexBackend numpy a sels), w)
    | .disk loc shape => fetch b st w loc shape (some sels)

/-! ### Operations -/

inductive Op (α : Type) where
  | copy (i : Nat)
  | subspace (i : Nat) (ix : List RawIx)
  | toMemory (i : Nat) (inplace : Bool)
  | array (i : Nat)
  | setitem (i : Nat) (ix : List RawIx) (v : α)
  | equals (i j : Nat)
  | first (i : Nat)
  | last (i : Nat)
  | second (i : Nat)
  | str (i : Nat)
  | transpose (i : Nat) (inplace : Bool)
  | insertDim (i : Nat) (inplace : Bool)
  | squeeze (i : Nat) (inplace : Bool)
  | flatten (i : Nat) (inplace : Bool)
  | edit (i : Nat)

inductive Obs (α : Type) where
  | none
  | handle (h : Nat)
  | values (shape : List Nat) (vals : List α)
  | bool (b : Bool)
  | elems (vals : List α)
  | raised (e : Err)
  deriving DecidableEq, Repr

/-- Does the operation look at or change array values?  (Taken from the property text:
"values are fetched from the file only when inspected or modified".) -/
def Op.inspects {α} : Op α → Bool
  | .copy _ => false
  | .edit _ => false
  | _ => true

def firstIx (ndim : Nat) : List RawIx := List.replicate ndim (.slice (some 0) (some 1) (some 1))
def lastIx (ndim : Nat) : List RawIx := List.replicate ndim (.slice (some (-1)) none (some 1))

/-- `np.unravel_index(1, shape)`. -/
def unravel1 : List Nat → List Nat
  | [] => []
  | shape => (List.range shape.length).map (fun k =>
      let tailProd := (shape.drop (k + 1)).foldl (· * ·) 1
      (1 / tailProd) % (shape.getD k 1))

def secondIx (shape : List Nat) : List RawIx := (unravel1 shape).map (fun (i : Nat) => RawIx.int (i : Int))

/-- `Data._item(index)`: `self[index].array`, must hold exactly one element. -/
def item {α} (b : Backend) (st : Store α) (w : World α) (s : AState α) (ix : List RawIx) :
    Except Err α × World α :=
  match getSub b st w s ix with
  | (.error e, w') => (.error e, w')
  | (.ok a, w') =>
    match toList a with
    | [x] => (.ok x, w')
    | _ => (.error .valueError, w')

def put {α} (w : World α) (i : Nat) (s : AState α) (inplace : Bool) : World α × Obs α :=
  if inplace then ({ w with heap := w.heap.set i s }, .none)
  else ({ w with heap := w.heap ++ [s] }, .handle w.heap.length)

/-- Which elements `Data.__str__` shows: first; last when size > 1; the middle one when
size ≤ 3 and the last axis has size 3. -/
def strPlan (shape : List Nat) : List (List RawIx) :=
  let size := shape.foldl (· * ·) 1
  let nd := shape.length
  if size == 1 then [firstIx nd]
  else if size > 3 then [firstIx nd, lastIx nd]
  else if shape.getLast? == some 3 then [firstIx nd, lastIx nd, secondIx shape]
  else [firstIx nd, lastIx nd]

def items {α} (b : Backend) (st : Store α) (s : AState α) :
    List (List RawIx) → World α → List α → Except Err (List α) × World α
  | [], w, acc => (.ok acc.reverse, w)
  | ix :: rest, w, acc =>
    match item b st w s ix with
    | (.error e, w') => (.error e, w')
    | (.ok x, w') => items b st s rest w' (x :: acc)

variable {α : Type} [DecidableEq α]

/-- One `Data` method call. -/
def step (b : Backend) (st : Store α) (w : World α) (op : Op α) : World α × Obs α :=
  match op with
  | .copy i =>
    match w.heap[i]? with
    | none => (w, .raised .indexError)
    | some s => put w i s false
  | .edit i =>
    match w.heap[i]? with
    | none => (w, .raised .indexError)
    | some _ => (w, .none)
  | .subspace i ix =>
    match w.heap[i]? with
    | none => (w, .raised .indexError)
    | some s =>
      match getSub b st w s ix with
      | (.error e, w') => (w', .raised e)
      | (.ok a, w') => put w' i (.mem a) false
  | .toMemory i inplace =>
    match w.heap[i]? with
    | none => (w, .raised .indexError)
    | some s =>
      match getArray b st w s with
      | (.error e, w') => (w', .raised e)
      | (.ok a, w') => put w' i (.mem a) inplace
  | .array i =>
    match w.heap[i]? with
    | none => (w, .raised .indexError)
    | some s =>
      match getArray b st w s with
      | (.error e, w') => (w', .raised e)
      | (.ok a, w') => (w', .values a.shape (toList a))
  | .setitem i ix v =>
    match w.heap[i]? with
    | none => (w, .raised .indexError)
    | some s =>
      match parse s.shape ix with
      | .error e => (w, .raised e)
      | .ok sels =>
        -- `array = self.array` comes after the index has been parsed
        match getArray b st w s with
        | (.error e, w') => (w', .raised e)
        | (.ok a, w') =>
          -- numpy refuses the assignment after the data have been fetched; the object is unchanged
          match checkIndex a.shape sels with
          | some e => (w', .raised e)
          | none => put w' i (.mem (assignArr a (positionsNat a.shape sels) v)) true
  | .equals i j =>
    match w.heap[i]?, w.heap[j]? with
    | some s, some t =>
      -- `_equals_preprocess`: `if self is other: return True`
      if i == j then (w, .bool true) else
      if s.shape != t.shape then (w, .bool false) else
      match getArray b st w s with
      | (.error e, w') => (w', .raised e)
      | (.ok a, w') =>
        match getArray b st w' t with
        | (.error e, w'') => (w'', .raised e)
        | (.ok c, w'') => (w'', .bool (decide (toList a = toList c)))
    | _, _ => (w, .raised .indexError)
  | .first i =>
    match w.heap[i]? with
    | none => (w, .raised .indexError)
    | some s =>
      match item b st w s (firstIx s.shape.length) with
      | (.error e, w') => (w', .raised e)
      | (.ok x, w') => (w', .elems [x])
  | .last i =>
    match w.heap[i]? with
    | none => (w, .raised .indexError)
    | some s =>
      match item b st w s (lastIx s.shape.length) with
      | (.error e, w') => (w', .raised e)
      | (.ok x, w') => (w', .elems [x])
  | .second i =>
    match w.heap[i]? with
    | none => (w, .raised .indexError)
    | some s =>
      match item b st w s (secondIx s.shape) with
      | (.error e, w') => (w', .raised e)
      | (.ok x, w') => (w', .elems [x])
  | .str i =>
    match w.heap[i]? with
    | none => (w, .raised .indexError)
    | some s =>
      -- `try: first = self.first_element() except Exception:` → only the units are shown
      match item b st w s (firstIx s.shape.length) with
      | (.error _, w') => (w', .elems [])
      | (.ok x, w1) =>
        match items b st s (strPlan s.shape).tail w1 [x] with
        | (.error e, w') => (w', .raised e)
        | (.ok xs, w') => (w', .elems xs)
  | .transpose i inplace =>
    match w.heap[i]? with
    | none => (w, .raised .indexError)
    | some s =>
      -- `if ndim <= 1: return d` before anything is fetched
      if s.shape.length ≤ 1 then put w i s inplace else
      match getArray b st w s with
      | (.error e, w') => (w', .raised e)
      | (.ok a, w') => put w' i (.mem (transposeArr a)) inplace
  | .insertDim i inplace =>
    match w.heap[i]? with
    | none => (w, .raised .indexError)
    | some s =>
      match getArray b st w s with
      | (.error e, w') => (w', .raised e)
      | (.ok a, w') => put w' i (.mem (insertDimArr a)) inplace
  | .squeeze i inplace =>
    match w.heap[i]? with
    | none => (w, .raised .indexError)
    | some s =>
      -- `if not axes: return d` (no axis of size one) before anything is fetched
      if !(s.shape.any (· == 1)) then put w i s inplace else
      match getArray b st w s with
      | (.error e, w') => (w', .raised e)
      | (.ok a, w') => put w' i (.mem (squeezeArr a)) inplace
  | .flatten i inplace =>
    match w.heap[i]? with
    | none => (w, .raised .indexError)
    | some s =>
      -- `if ndim <= 1: return d`; otherwise `d.transpose(range(ndim))` returns at once and
      -- `d.array.reshape(…)` fetches everything
      if s.shape.length ≤ 1 then put w i s inplace else
      match getArray b st w s with
      | (.error e, w') => (w', .raised e)
      | (.ok a, w') => put w' i (.mem (flattenArr a)) inplace

def run (b : Backend) (st : Store α) : World α → List (Op α) → World α × List (Obs α)
  | w, [] => (w, [])
  | w, op :: ops =>
    let (w1, o) := step b st w op
    let (w2, os) := run b st w1 ops
    (w2, o :: os)

/-! ### The specification: eager access (every array in memory from the start) -/

abbrev EWorld (α : Type) := List (Arr α)

def eput (e : EWorld α) (i : Nat) (a : Arr α) (inplace : Bool) : EWorld α × Obs α :=
  if inplace then (e.set i a, .none) else (e ++ [a], .handle e.length)

/-- numpy's answer for a parsed index: every axis' selector applied independently. -/
def eSub (a : Arr α) (ix : List RawIx) : Except Err (Arr α) :=
  match parse a.shape ix with
  | .error e => .error e
  | .ok sels =>
    match checkIndex a.shape sels with
    | some e => .error e
    | none => .ok (takeAll a (positionsNat a.shape sels))

def eItem (a : Arr α) (ix : List RawIx) : Except Err α :=
  match eSub a ix with
  | .error e => .error e
  | .ok r => match toList r with
    | [x] => .ok x
    | _ => .error .valueError

def eItems (a : Arr α) : List (List RawIx) → List α → Except Err (List α)
  | [], acc => .ok acc.reverse
  | ix :: rest, acc =>
    match eItem a ix with
    | .error e => .error e
    | .ok x => eItems a rest (x :: acc)

def estep (e : EWorld α) (op : Op α) : EWorld α × Obs α :=
  match op with
  | .copy i => match e[i]? with
    | none => (e, .raised .indexError)
    | some a => eput e i a false
  | .edit i => match e[i]? with
    | none => (e, .raised .indexError)
    | some _ => (e, .none)
  | .subspace i ix => match e[i]? with
    | none => (e, .raised .indexError)
    | some a => match eSub a ix with
      | .error er => (e, .raised er)
      | .ok r => eput e i r false
  | .toMemory i inplace => match e[i]? with
    | none => (e, .raised .indexError)
    | some a => eput e i a inplace
  | .array i => match e[i]? with
    | none => (e, .raised .indexError)
    | some a => (e, .values a.shape (toList a))
  | .setitem i ix v => match e[i]? with
    | none => (e, .raised .indexError)
    | some a => match parse a.shape ix with
      | .error er => (e, .raised er)
      | .ok sels =>
        match checkIndex a.shape sels with
        | some er => (e, .raised er)
        | none => eput e i (assignArr a (positionsNat a.shape sels) v) true
  | .equals i j => match e[i]?, e[j]? with
    | some a, some c =>
      if a.shape != c.shape then (e, .bool false) else (e, .bool (decide (toList a = toList c)))
    | _, _ => (e, .raised .indexError)
  | .first i => match e[i]? with
    | none => (e, .raised .indexError)
    | some a => match eItem a (firstIx a.shape.length) with
      | .error er => (e, .raised er)
      | .ok x => (e, .elems [x])
  | .last i => match e[i]? with
    | none => (e, .raised .indexError)
    | some a => match eItem a (lastIx a.shape.length) with
      | .error er => (e, .raised er)
      | .ok x => (e, .elems [x])
  | .second i => match e[i]? with
    | none => (e, .raised .indexError)
    | some a => match eItem a (secondIx a.shape) with
      | .error er => (e, .raised er)
      | .ok x => (e, .elems [x])
  | .str i => match e[i]? with
    | none => (e, .raised .indexError)
    | some a => match eItem a (firstIx a.shape.length) with
      | .error _ => (e, .elems [])
      | .ok x => match eItems a (strPlan a.shape).tail [x] with
        | .error er => (e, .raised er)
        | .ok xs => (e, .elems xs)
  | .transpose i inplace => match e[i]? with
    | none => (e, .raised .indexError)
    | some a => if a.shape.length ≤ 1 then eput e i a inplace else eput e i (transposeArr a) inplace
  | .insertDim i inplace => match e[i]? with
    | none => (e, .raised .indexError)
    | some a => eput e i (insertDimArr a) inplace
  | .squeeze i inplace => match e[i]? with
    | none => (e, .raised .indexError)
    | some a => if !(a.shape.any (· == 1)) then eput e i a inplace else eput e i (squeezeArr a) inplace
  | .flatten i inplace => match e[i]? with
    | none => (e, .raised .indexError)
    | some a => if a.shape.length ≤ 1 then eput e i a inplace else eput e i (flattenArr a) inplace

def erun : EWorld α → List (Op α) → EWorld α × List (Obs α)
  | e, [] => (e, [])
  | e, op :: ops =>
    let (e1, o) := estep e op
    let (e2, os) := erun e1 ops
    (e2, o :: os)

/-- What a `Data` object denotes. -/
def realise (st : Store α) : AState α → Arr α
  | .disk loc _ => st loc
  | .mem a => a

/-! ### `cfdm.read`: what the reader does with each netCDF variable -/

/-- The role a netCDF variable plays for the construct built from it. -/
inductive Role where
  | data            -- a data variable → field data
  | coord           -- coordinate / auxiliary coordinate variable with ≥ 1 dimension
  | scalarCoord     -- coordinate variable with no dimensions, named by `coordinates`
  | scalarBounds    -- the bounds variable of such a scalar coordinate variable
  | bounds          -- bounds / climatology variable
  | measure         -- cell measure, field ancillary, domain ancillary (formula terms)
  | count           -- DSG count variable, `node_count`, `part_node_count`
  | index           -- DSG index variable
  | listVar         -- the list variable of compression by gathering
  | sample          -- a variable stored on a ragged / gathered sample dimension
  | nodesFlat       -- geometry node coordinates when there is no `part_node_count`
  | connT           -- UGRID connectivity stored with the cell dimension last
  | connS           -- UGRID edge / face connectivity with a non-zero `start_index` (stored cells-first)
  | conn            -- UGRID connectivity stored cells-first
  deriving DecidableEq, Repr

structure VarDesc where
  loc : Loc
  shape : List Nat
  role : Role
  deriving DecidableEq, Repr

/-- The `Data` operations the reader applies to the freshly created (disk) data of a variable;
handle 0 is that data. -/
def readOps (r : Role) : List (Op α) :=
  match r with
  | .scalarCoord => [.insertDim 0 true]      -- `construct_insert_dimension(coord, 0)`
  | .scalarBounds => [.insertDim 0 true]     -- … which takes the bounds along
  | .count => [.array 0]                     -- `get_data_maximum`, `.array`: looked at, not kept
  | .index => [.array 0]                     -- `np.unique(index.data.array, …)`
  | .nodesFlat => [.insertDim 0 true]        -- `bounds_insert_dimension(bounds, position=1)`
  | .connT => [.transpose 0 true]            -- `data = data.transpose()`
  | .connS => [.toMemory 0 true]             -- `data._set_Array(data.array - start_index)` (7759b57)
  | _ => []

/-- Reading one variable: its data start on disk, then `readOps`.  The dataset opened by
`file_open` is counted in `handles` by `readFile`. -/
def readVar (b : Backend) (st : Store α) (w : World α) (v : VarDesc) : World α × AState α :=
  let w0 : World α := { heap := [.disk v.loc v.shape], log := w.log, handles := w.handles }
  let (w1, _) := run b st w0 (readOps v.role)
  ({ heap := w.heap, log := w1.log, handles := w1.handles }, w1.heap.headD (.disk v.loc v.shape))

/-- `cfdm.read`: `file_open` (one dataset handle in `read_vars['datasets']`), every variable,
`file_close`. -/
def readFile (b : Backend) (st : Store α) (w : World α) (vs : List VarDesc) : World α :=
  let w0 := { w with handles := w.handles + 1 }
  let w1 := vs.foldl (fun (w : World α) v =>
    let (w', s) := readVar b st w v
    { w' with heap := w'.heap ++ [s] }) w0
  { w1 with handles := w1.handles - 1 }

/-- Everything else `cfdm.read` opens besides the parent dataset.
`externals`: one entry per distinct external file given (`external=`), `true` when the file holds an
external variable that is still wanted when it is scanned — which decides what is taken from it, not
whether it is closed; `grouped`: the parent has groups, so `file_open` also creates the flattened
in-memory dataset and its temporary file; `failAfter = some k`: the read raises after `k` variables
(`cfdm.read` then calls `file_close` in its `finally`). -/
structure ReadPlan where
  externals : List Bool
  grouped : Bool
  failAfter : Option Nat
  deriving DecidableEq, Repr

/-- Open datasets and the datasets registered for `file_close` (`read_vars['datasets']`,
`['nc_grouped']`, `['flat_files']`), as two counters. -/
structure Opened where
  opened : Nat
  registered : Nat
  deriving DecidableEq, Repr

/-- `file_open`: the parent dataset, plus — for a grouped parent — the flattened copy and its
temporary file; all of them are registered as soon as they exist. -/
def openParent (grouped : Bool) : Opened :=
  if grouped then ⟨3, 3⟩ else ⟨1, 1⟩

/-- `_get_variables_from_external_files`, one external file: `self.read(external_file,
_scan_only=True)` opens it, `datasets.append(external_read_vars["nc"])` registers it —
unconditionally, whether or not the file turns out to hold a wanted variable. -/
def scanExternal (o : Opened) (_useful : Bool) : Opened :=
  ⟨o.opened + 1, o.registered + 1⟩

/-- `cfdm.read` with external files / groups / a failure part-way: everything opened is counted in
`handles` while the variables are processed; `file_close` closes what was registered. -/
def readFilePlan (b : Backend) (st : Store α) (w : World α) (p : ReadPlan) (vs : List VarDesc) : World α :=
  let o := p.externals.foldl scanExternal (openParent p.grouped)
  let w0 := { w with handles := w.handles + o.opened }
  let todo := match p.failAfter with
    | none => vs
    | some k => vs.take k
  let w1 := todo.foldl (fun (w : World α) v =>
    let (w', s) := readVar b st w v
    { w' with heap := w'.heap ++ [s] }) w0
  { w1 with handles := w1.handles - o.registered }

/-- Roles whose variable the property allows `read` to bring into memory. -/
def Role.exempt : Role → Bool
  | .scalarCoord => true
  | .scalarBounds => true
  | _ => false

/-- Roles the reader has to look at to learn the shape of the decoded arrays. -/
def Role.structural : Role → Bool
  | .count => true
  | .index => true
  | _ => false

/-- Roles for which the reader, as coded, realises a whole array although the property does not
exempt it (open findings). -/
def Role.realisedByRead : Role → Bool
  | .nodesFlat => true
  | .connT => true
  | .connS => true
  | _ => false

end Cfdm.Lazy
