/-
C07 — the DATA TYPE of unpacked file data (core Lean only, no imports).

Model of
  * numpy's type promotion on the ten numeric netCDF types (`np.result_type`, and what
    `data * scale_factor + add_offset` evaluates to: NEP 50, 0-d arrays and numpy scalars
    are strongly typed), written as numpy's kind/size rule;
  * the data type DELIVERED by `netcdf_indexer.__getitem__` / `_unpack`
    (cfdm/data/netcdfindexer.py): `_Unsigned` view, the presence table of `_unpack` with
    its `astype` short cuts for neutral attributes;
  * the data type ADVERTISED before any data are fetched (`Data.dtype` of a lazily read
    construct), `NetCDFRead._create_netcdfarray` (cfdm/read_write/netcdf/netcdfread.py):
      - `advertisedT`     as after fixes/C07-unpacked-dtype.patch (`_unpacked_dtype`, from the
                          variable's own attributes, for every construct);
      - `advertisedOldT`  as at /repo HEAD (`np.result_type(add_offset, scale_factor)` for the
                          field's data variable only; every other construct advertises the
                          packed type; a text attribute raises TypeError);
  * the reference: what `netCDF4.Variable.__getitem__` delivers (`refT`).

The specification of promotion (`IsPromotion`) is independent of the rule: the
lowest-ranked type to which both operands can be cast safely (`np.can_cast(..., 'safe')`).
Both tables are tied to the installed numpy by Cfdm/Generated/NumpyPromotion.lean
(regenerated on every run) and the theorems `C07_promote_matches_numpy`,
`C07_canCast_matches_numpy`.
-/
namespace Cfdm.MaskDType

/-- The numeric netCDF data types. -/
inductive NT where
  | i1 | u1 | i2 | u2 | i4 | u4 | i8 | u8 | f4 | f8
  deriving DecidableEq, Repr, Inhabited

inductive K where
  | i | u | f
  deriving DecidableEq, Repr

namespace NT
def kind : NT → K
  | i1 | i2 | i4 | i8 => .i
  | u1 | u2 | u4 | u8 => .u
  | f4 | f8 => .f

def bytes : NT → Nat
  | i1 | u1 => 1
  | i2 | u2 => 2
  | i4 | u4 | f4 => 4
  | i8 | u8 | f8 => 8

/-- numpy's type order (`np.typecodes`: b B h H i I l L f d). -/
def rank : NT → Nat
  | i1 => 0 | u1 => 1 | i2 => 2 | u2 => 3 | i4 => 4 | u4 => 5 | i8 => 6 | u8 => 7 | f4 => 8 | f8 => 9

def name : NT → String
  | i1 => "i1" | u1 => "u1" | i2 => "i2" | u2 => "u2" | i4 => "i4" | u4 => "u4"
  | i8 => "i8" | u8 => "u8" | f4 => "f4" | f8 => "f8"

def all : List NT := [i1, u1, i2, u2, i4, u4, i8, u8, f4, f8]

/-- The signed integer type of a given size. -/
def sint : Nat → NT
  | 1 => i1 | 2 => i2 | 4 => i4 | _ => i8

/-- The unsigned integer type of a given size. -/
def uint : Nat → NT
  | 1 => u1 | 2 => u2 | 4 => u4 | _ => u8
end NT

/-! ## Specification: safe casting, and promotion as its least common upper bound -/

/-- `np.can_cast(a, b, 'safe')`: every value of `a` is a value of `b` (numpy counts
64-bit integers to float64 as safe). -/
def canCast (a b : NT) : Bool :=
  match a.kind, b.kind with
  | .i, .i | .u, .u | .f, .f => decide (a.bytes ≤ b.bytes)
  | .u, .i => decide (a.bytes < b.bytes)
  | .i, .u => false
  | .f, _ => false
  | _, .f => decide (a.bytes ≤ 2) || decide (b.bytes = 8)

/-- `c` is the promotion of `a` and `b`: both cast safely to it, and it is the
lowest-ranked type with that property. -/
def IsPromotion (a b c : NT) : Prop :=
  canCast a c = true ∧ canCast b c = true ∧
    ∀ c', canCast a c' = true → canCast b c' = true → c.rank ≤ c'.rank

/-! ## numpy's rule, as an algorithm -/

/-- signed `s` with unsigned `u`. -/
def mixed (s u : NT) : NT :=
  if u.bytes < s.bytes then s
  else if u.bytes = 8 then .f8
  else NT.sint (2 * u.bytes)

/-- `np.result_type(a, b)` = the type of `x_a * y_b` / `x_a + y_b`. -/
def promote (a b : NT) : NT :=
  match a.kind, b.kind with
  | .f, .f | .i, .i | .u, .u => if a.bytes ≤ b.bytes then b else a
  | .f, _ => if b.bytes ≤ 2 then a else .f8
  | _, .f => if a.bytes ≤ 2 then b else .f8
  | .i, .u => mixed a b
  | .u, .i => mixed b a

/-! ## Attributes, as far as data types go -/

/-- A `scale_factor` / `add_offset` attribute: absent, text (cannot be converted to a
float), or a number of type `t` that is / is not the neutral element (1.0 / 0.0). -/
inductive AttrT where
  | absent
  | text
  | num (t : NT) (neutral : Bool)
  deriving DecidableEq, Repr

structure Pack where
  sf : AttrT := .absent
  ao : AttrT := .absent
  /-- `attributes.get("_Unsigned") in ("true", "True")` -/
  uns : Bool := false
  deriving DecidableEq, Repr

/-- `data.view('u<n>')` when `_Unsigned` says so and the data are signed integers. -/
def viewT (uns : Bool) (t : NT) : NT :=
  if uns && t.kind == .i then NT.uint t.bytes else t

/-! ## Delivered: `netcdf_indexer._unpack` -/

/-- The presence table of `_unpack`, on data types.  Both attributes and not both neutral:
ONE expression `data * scale_factor + add_offset`; both neutral:
`astype(scale_factor.dtype)`; a single neutral one: `astype` to its type; text: nothing. -/
def unpackT (p : Pack) (t : NT) : NT :=
  match p.sf, p.ao with
  | .text, _ => t
  | _, .text => t
  | .absent, .absent => t
  | .num s ns, .absent => if ns then s else promote t s
  | .absent, .num o no => if no then o else promote t o
  | .num s ns, .num o no => if ns && no then s else promote (promote t s) o

/-- `netcdf_indexer.__getitem__`: the data type of the returned array. -/
def deliveredT (p : Pack) (unpackOn : Bool) (t : NT) : NT :=
  if unpackOn then unpackT p (viewT p.uns t) else t

/-- A variant of `_unpack` that adds the offset in place (`data = data * scale_factor;
data += add_offset`): the product's type is kept, the offset is cast down to it
(`same_kind`), or numpy refuses (float offset into integer data).  Not the code; kept to
show what the one-expression form is for. -/
def unpackInPlaceT (p : Pack) (t : NT) : Except String NT :=
  match p.sf, p.ao with
  | .num s ns, .num o no =>
    if ns && no then .ok s else
    let prod := promote t s
    if o.kind == .f && prod.kind != .f then .error "TypeError" else .ok prod
  | _, _ => .ok (unpackT p t)

/-! ## Advertised: the reader -/

/-- The numeric attributes in the order `scale_factor`, `add_offset`; `none` as soon as
one is text (`float(value)` fails: no unpacking is done). -/
def collect : List AttrT → Option (List (NT × Bool))
  | [] => some []
  | .absent :: r => collect r
  | .text :: _ => none
  | .num t n :: r => (collect r).map ((t, n) :: ·)

/-- `NetCDFRead._unpacked_dtype` (fixes/C07-unpacked-dtype.patch), used by
`_create_netcdfarray` for EVERY variable when `unpack` is on: unsigned view; no numeric
attribute or a text one: unchanged; all neutral: the first one's type; otherwise
`np.result_type` folded over the attributes in order. -/
def advertisedT (p : Pack) (unpackOn : Bool) (t : NT) : NT :=
  if !unpackOn then t else
  let t := viewT p.uns t
  match collect [p.sf, p.ao] with
  | none => t
  | some [] => t
  | some (v :: vs) =>
    if (v :: vs).all (·.2) then v.1 else (v :: vs).foldl (fun t w => promote t w.1) t

/-- /repo HEAD.  The field's data variable: `values = [add_offset, scale_factor]` without
the absent ones, `unpacked_dtype = np.result_type(*values)` (TypeError on text, whatever
`unpack` is), then `np.result_type(dtype, unpacked_dtype)` when unpacking.  Any other
construct (coordinates, bounds, ancillaries, cell measures): the packed type.
`_Unsigned` is not looked at. -/
def advertisedOldT (field : Bool) (p : Pack) (unpackOn : Bool) (t : NT) : Except String NT :=
  if !field then .ok t else
  match p.ao, p.sf with
  | .absent, .absent => .ok t
  | .text, _ => .error "TypeError"
  | _, .text => .error "TypeError"
  | .num o _, .absent => .ok (if unpackOn then promote t o else t)
  | .absent, .num s _ => .ok (if unpackOn then promote t s else t)
  | .num o _, .num s _ => .ok (if unpackOn then promote t (promote o s) else t)

/-! ## Reference: netCDF4-python -/

/-- What `netCDF4.Variable.__getitem__` delivers with auto-scale on: as `_unpack`, except
that a SINGLE neutral attribute leaves the data alone. -/
def refT (p : Pack) (scaleOn : Bool) (t : NT) : NT :=
  if !scaleOn then t else
  let t := viewT p.uns t
  match p.sf, p.ao with
  | .text, _ => t
  | _, .text => t
  | .num s ns, .num o no => if ns && no then s else promote (promote t s) o
  | .num s ns, .absent => if ns then t else promote t s
  | .absent, .num o no => if no then t else promote t o
  | .absent, .absent => t

/-- Exactly one of the two attributes, numeric and neutral (where cfdm deliberately
departs from the reference: known finding). -/
def trivialSingle (p : Pack) : Bool :=
  match p.sf, p.ao with
  | .num _ true, .absent => true
  | .absent, .num _ true => true
  | _, _ => false

end Cfdm.MaskDType
