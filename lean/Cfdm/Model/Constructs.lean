/-
C02 — the construct container (`cfdm.core.Constructs` + `Field`/`Domain`) as a state machine.
Core Lean only (this file is linked into the model driver).

State = the three dictionaries of `core.Constructs`
  `_constructs[type][key]`, `_construct_type[key]`, `_construct_axes[key]`
plus the field's data shape, its `data_axes` component and the copy of it kept in
`Constructs._field_data_axes`.  The domain view `f.domain` shares the dictionaries and
hides the cell methods and field ancillaries (`_ignore`), so an edit through the view is
an edit of the same state with `view = true`.

Constructs are abstracted to what the invariant talks about: data / bounds / interior ring
*shapes*, the size of a domain axis, the axes named by a cell method, the coordinates and
domain ancillaries named by a coordinate reference.

Every function takes `pt : Bool`:  `pt = true`  = the code with the repairs fixes/C02-*.patch (five are
commits 0a6b21e, 05dfd6b, fba0f94, 7ccd512, 7a00732; fixes/C02-insert-dimension-skips-topology-constructs.patch
is the sixth that the model sees; the two others - names of the formatters, copies of a domain - do not change
the modelled decisions: a copy of a domain refuses cell methods / field ancillaries like every view),
`pt = false` = the code before these repairs (kept for the counter-example theorems).
`step = stepP true`.
-/
namespace Cfdm.Constructs

/-! ## dictionaries -/

abbrev Dict (κ ν : Type) := List (κ × ν)

namespace Dict
variable {κ ν : Type} [DecidableEq κ]

/-- `d.get(k)` -/
def get : Dict κ ν → κ → Option ν
  | [], _ => none
  | (k', v) :: r, k => if k' = k then some v else get r k

/-- `del d[k]` (no error when absent) -/
def del (d : Dict κ ν) (k : κ) : Dict κ ν := d.filter (fun p => p.1 ≠ k)

/-- `d[k] = v`.  Dictionary order is never observed by the model (only `len` and membership). -/
def set (d : Dict κ ν) (k : κ) (v : ν) : Dict κ ν := (k, v) :: del d k

/-- the entries that a look-up can reach (a Python dictionary has no others) -/
def live [DecidableEq ν] (d : Dict κ ν) : Dict κ ν := d.filter (fun p => decide (get d p.1 = some p.2))

/-- in-place modification of every value -/
def mapv (f : κ → ν → ν) (d : Dict κ ν) : Dict κ ν := d.map (fun p => (p.1, f p.1 p.2))

end Dict

/-! ## constructs -/

inductive CType
  | axis | dim | aux | msr | fan | dan | top | con | ref | cm
  deriving DecidableEq, Repr

namespace CType
/-- `Constructs._array_constructs` -/
def isArray : CType → Bool
  | dim | aux | msr | fan | dan | top | con => true
  | _ => false

/-- `Constructs._key_base` -/
def base : CType → String
  | axis => "domainaxis"
  | dim => "dimensioncoordinate"
  | aux => "auxiliarycoordinate"
  | msr => "cellmeasure"
  | fan => "fieldancillary"
  | dan => "domainancillary"
  | top => "domaintopology"
  | con => "cellconnectivity"
  | ref => "coordinatereference"
  | cm => "cellmethod"
end CType

/-- a construct identifier of the standard form `<base><num>` -/
structure Key where
  base : String
  num : Nat
  deriving DecidableEq, Repr

/-- an axis named by a cell method: a construct identifier or a free name (`area`, a standard name) -/
inductive CmAx
  | key (k : Key)
  | name (s : String)
  deriving DecidableEq, Repr

/-- What the container can see of a construct (one record for every construct type). -/
structure Con where
  /-- shape of the data, `none` = no data -/
  data : Option (List Nat) := none
  /-- shape of the bounds data -/
  bounds : Option (List Nat) := none
  /-- `has_geometry()`: the bounds carry two trailing dimensions -/
  geom : Bool := false
  /-- shape of the interior ring data -/
  ring : Option (List Nat) := none
  /-- domain axis: `get_size(None)` -/
  size : Option Nat := none
  /-- cell method: `get_axes(())` -/
  cmAxes : List CmAx := []
  /-- coordinate reference: `coordinates()` -/
  coords : List Key := []
  /-- coordinate reference: the values of `coordinate_conversion.domain_ancillaries()`, in dictionary order
  (any list: the same key may be the value of several terms) -/
  ancils : List (Option Key) := []
  /-- coordinate reference: the terms (the dictionary keys) of `domain_ancillaries()`, in the same order:
  the term → key map is `terms.zip ancils` -/
  terms : List String := []
  deriving DecidableEq, Repr

/-- `construct.shape` (`none` = `AttributeError`):
`PropertiesData.shape`, `PropertiesDataBounds.shape`, `Topology.shape`. -/
def Con.shape (t : CType) (c : Con) : Option (List Nat) :=
  if !t.isArray then none
  else if t = .top ∨ t = .con then c.data.map (fun d => d.take 1)
  else match c.data with
    | some d => some d
    | none => c.bounds.map (fun b => b.take (b.length - (if c.geom then 2 else 1)))

/-! ## state -/

structure St where
  cons : Dict (CType × Key) Con := []
  ctype : Dict Key CType := []
  caxes : Dict Key (List Key) := []
  data : Option (List Nat) := none
  dataAxes : Option (List Key) := none
  /-- `Constructs._field_data_axes` -/
  fda : Option (List Key) := none
  deriving DecidableEq, Repr

inductive Out
  | ok (key : Option Key)
  | rejected
  deriving DecidableEq, Repr

def Out.isOk : Out → Bool
  | .ok _ => true
  | .rejected => false

/-- `Domain.fromconstructs(constructs._view(ignore=('cell_method', 'field_ancillary')))` -/
def ignored (view : Bool) (t : CType) : Bool := view && (t == .cm || t == .fan)

/-- `Constructs.construct_type(key)` -/
def typeOf (s : St) (view : Bool) (k : Key) : Option CType :=
  match s.ctype.get k with
  | some t => if ignored view t then none else some t
  | none => none

/-- `key in self._construct_dict('domain_axis')` -/
def isAxis (s : St) (k : Key) : Bool := (s.cons.get (.axis, k)).isSome

/-- `axes_shape.append(domain_axes[axis].get_size())`; `none` = some axis does not exist or has
no size (both are `ValueError` at every call site) -/
def sizesOfD (d : Dict (CType × Key) Con) : List Key → Option (List Nat)
  | [] => some []
  | a :: l =>
    match d.get (.axis, a) with
    | some c =>
      match c.size, sizesOfD d l with
      | some n, some r => some (n :: r)
      | _, _ => none
    | none => none

def sizesOf (s : St) (A : List Key) : Option (List Nat) := sizesOfD s.cons A

/-- the construct stored for a key, found through `_construct_type` as `Constructs.__getitem__` does -/
def conOf (s : St) (k : Key) : Option (CType × Con) :=
  match s.ctype.get k with
  | some t => (s.cons.get (t, k)).map (fun c => (t, c))
  | none => none

/-! ## `new_identifier` -/

def newNumGo (taken : Nat → Bool) : Nat → Nat → Nat
  | 0, n => n
  | fuel + 1, n => if taken n then newNumGo taken fuel (n + 1) else n

/-- `len(self._constructs[construct_type])` -/
def countType (s : St) (t : CType) : Nat := (s.cons.live.filter (fun p => p.1.1 = t)).length

/-- `new_identifier`: start at the number of constructs of the type and count up while the key is
taken.  At HEAD (0a6b21e): taken by a construct of *any* type (`key in self._construct_type`);
before: taken by a construct of the same type (`key in self._constructs[construct_type]`). -/
def newKey (pt : Bool) (s : St) (t : CType) : Key :=
  let taken : Nat → Bool := fun n =>
    if pt then (s.ctype.get ⟨t.base, n⟩).isSome else (s.cons.get (t, ⟨t.base, n⟩)).isSome
  ⟨t.base, newNumGo taken (s.ctype.length + s.cons.length + 1) (countType s t)⟩

/-! ## `_set_construct` / `_set_construct_data_axes` -/

/-- the checks of `_set_construct_data_axes`: every axis exists and is sized; `construct.shape`, when
there is one, equals the sizes -/
def axesCheck (s : St) (t : CType) (c : Con) (A : List Key) : Bool :=
  match sizesOf s A with
  | none => false
  | some sz =>
    match c.shape t with
    | none => true
    | some shp => decide (shp = sz)

def putCon (s : St) (t : CType) (k : Key) (c : Con) : St :=
  { s with ctype := s.ctype.set k t, cons := s.cons.set (t, k) c }

/-- the identifier under which a construct is stored: a new one, or the given one unless it is in use by
a construct of another type -/
def resolveKey (pt : Bool) (s : St) (t : CType) (key : Option Key) : Option Key :=
  match key with
  | none => some (newKey pt s t)
  | some k => if (s.ctype.get k).getD t = t then some k else none

/-- the axes that `_set_construct_data_axes` is called with.
At HEAD (05dfd6b): a construct that replaces an existing one keeps the recorded axes only if they still fit
(before: kept unchecked). -/
def axesFor (pt : Bool) (s : St) (k : Key) (axes : Option (List Key)) : Option (List Key) :=
  match axes with
  | some A => some A
  | none => if pt then s.caxes.get k else none

/-- `_set_construct` once the identifier is known -/
def storeAt (pt : Bool) (s : St) (t : CType) (c : Con) (k : Key) (axes : Option (List Key)) : St × Out :=
  if t.isArray then
    match axesFor pt s k axes with
    | some A =>
      if axesCheck s t c A then ({ putCon s t k c with caxes := s.caxes.set k A }, .ok (some k))
      else (s, .rejected)
    | none => (putCon s t k c, .ok (some k))
  else if axes.isSome then (s, .rejected)
  else (putCon s t k c, .ok (some k))

/-- `FieldDomain.set_construct` → `Constructs._set_construct` -/
def setConstruct (pt : Bool) (s : St) (view : Bool) (t : CType) (c : Con) (key : Option Key)
    (axes : Option (List Key)) : St × Out :=
  -- `_check_construct_type`
  if ignored view t then (s, .rejected) else
  match resolveKey pt s t key with
  | none => (s, .rejected)
  | some k => storeAt pt s t c k axes

/-! ## `del_construct` -/

def spansAny (d : Dict Key (List Key)) (key : Key) : Bool := d.any (fun p => p.2.contains key)

/-- `Constructs.data_axes()`: a view hides the entries of the ignored array types -/
def dataAxesDict (s : St) (view : Bool) : Dict Key (List Key) :=
  if view then s.caxes.filter (fun p => !(s.cons.get (.fan, p.1)).isSome) else s.caxes

def cmNames (s : St) (key : Key) : Bool :=
  s.cons.any (fun p => p.1.1 = .cm && p.2.cmAxes.contains (.key key))

/-- `coordinate_conversion.set_domain_ancillary(term, None)`; `ref.del_coordinate(key, None)` -/
def cleanRef (key : Key) (c : Con) : Con :=
  { c with coords := c.coords.filter (fun x => x ≠ key),
           ancils := c.ancils.map (fun a => if a = some key then none else a) }

def cleanRefs (s : St) (key : Key) : St :=
  { s with cons := s.cons.mapv (fun k c => if k.1 = .ref then cleanRef key c else c) }

/-- `Constructs._pop` -/
def pop (s : St) (t : CType) (key : Key) : St :=
  { s with caxes := s.caxes.del key, ctype := s.ctype.del key, cons := s.cons.del (t, key) }

/-- `cfdm.Field.del_construct(key)` / `cfdm.Domain.del_construct(key)`:
mixin `FieldDomain.del_construct` (resolve the key) → core `Field.del_construct` (field data guard)
/ core `Domain.del_construct` → `Constructs._del_construct`.
At HEAD (fba0f94): `_del_construct` looks at the axes of *every* construct, at every cell method and at the
field's data axes, also when it is called through a domain view. -/
def delConstruct (pt : Bool) (s : St) (view : Bool) (key : Key) : St × Out :=
  match typeOf s view key with
  | none => (s, .rejected)
  | some t =>
    if !view && isAxis s key && (s.dataAxes.getD []).contains key then (s, .rejected)
    else if isAxis s key then
      if spansAny (if pt then s.caxes else dataAxesDict s view) key then (s, .rejected)
      else if pt && (s.fda.getD []).contains key then (s, .rejected)
      else if (pt || !view) && cmNames s key then (s, .rejected)
      else (pop s t key, .ok none)
    else (pop (cleanRefs s key) t key, .ok none)

/-! ## field data and data axes -/

/-- `Field.set_data_axes(axes)` (no key).  At HEAD (7ccd512): the axes must exist also when there is no data. -/
def setDataAxes (pt : Bool) (s : St) (A : List Key) (shape : Option (List Nat)) : St × Out :=
  match shape with
  | some shp =>
    if sizesOf s A = some shp then ({ s with dataAxes := some A, fda := some A }, .ok none)
    else (s, .rejected)
  | none =>
    if pt && !(A.all (isAxis s)) then (s, .rejected)
    else ({ s with dataAxes := some A, fda := some A }, .ok none)

/-- the axes that `set_data` checks the new shape against: the given ones, else the existing ones -/
def dataAxesFor (s : St) (axes : Option (List Key)) : Option (List Key) :=
  match axes with
  | some A => some A
  | none => s.dataAxes

/-- `Field.set_data(data, axes)` -/
def setData (pt : Bool) (s : St) (shp : List Nat) (axes : Option (List Key)) : St × Out :=
  match dataAxesFor s axes with
  | some A =>
    match setDataAxes pt s A (some shp) with
    | (s', .ok _) => ({ s' with data := some shp }, .ok none)
    | (_, .rejected) => (s, .rejected)
  | none => ({ s with data := some shp }, .ok none)

def delData (s : St) : St × Out :=
  match s.data with
  | some _ => ({ s with data := none }, .ok none)
  | none => (s, .rejected)

/-- `Field.del_data_axes()`.  At HEAD (fba0f94): the copy kept by the constructs is cleared too. -/
def delDataAxes (pt : Bool) (s : St) : St × Out :=
  match s.dataAxes with
  | some _ => ({ s with dataAxes := none, fda := if pt then none else s.fda }, .ok none)
  | none => (s, .rejected)

/-- `set_data_axes(axes, key=key)` → `_set_construct_data_axes(key, axes)` -/
def setConAxes (s : St) (view : Bool) (A : List Key) (key : Key) : St × Out :=
  match typeOf s view key with
  | none => (s, .rejected)
  | some t =>
    match s.cons.get (t, key) with
    | none => (s, .rejected)
    | some c =>
      if axesCheck s t c A then ({ s with caxes := s.caxes.set key A }, .ok none) else (s, .rejected)

/-- `del_data_axes(key)` -/
def delConAxes (s : St) (view : Bool) (key : Key) : St × Out :=
  match s.caxes.get key, typeOf s view key with
  | some _, some _ => ({ s with caxes := s.caxes.del key }, .ok none)
  | _, _ => (s, .rejected)

/-- the recorded axes of `key` after `replace`: `if axes is not None and construct_type in self._array_constructs` -/
def replaceAxes (s : St) (t : CType) (key : Key) (axes : Option (List Key)) : Option (List Key) :=
  match axes with
  | some A => if t.isArray then some A else s.caxes.get key
  | none => s.caxes.get key

/-- `f.constructs.replace(key, construct, axes)` ("No checks on the axes are done") -/
def replaceCon (s : St) (key : Key) (c : Con) (axes : Option (List Key)) : St × Out :=
  match s.ctype.get key with
  | none => (s, .rejected)
  | some t =>
    let cx := match axes with
      | some A => if t.isArray then s.caxes.set key A else s.caxes
      | none => s.caxes
    ({ s with caxes := cx, cons := s.cons.set (t, key) c }, .ok none)

/-- `DimensionCoordinate.set_data` (called when a construct is copied) accepts 1-d data only; a
dimension coordinate that `insert_dimension(constructs=True)` made 2-d cannot be copied any more.
Nor can a construct whose bounds do not have more dimensions than its data. -/
def conCopyable (t : CType) (c : Con) : Bool :=
  (t != .dim || (match c.data with | some d => d.length == 1 | none => true)) &&
  -- `__init__(source=...)` re-attaches the bounds with `set_bounds`, which wants more dimensions than the data
  -- and the same leading dimensions (a mutator called on the contained construct can leave it otherwise)
  (match c.data, c.bounds with
   | some d, some b => decide (d.length < b.length) && b.take d.length == d
   | _, _ => true)

def copyable (s : St) : Bool := s.cons.live.all (fun p => conCopyable p.1.1 p.2)

/-- `Field.copy()` = `Field(source=f, copy=True)`: the constructs are copied, then
`set_data(data, data_axes)` (or `set_data_axes(data_axes)`) is called on the new field. -/
def copyField (pt : Bool) (s : St) : St × Out :=
  let s0 : St := { s with data := none, dataAxes := none }
  if !copyable s then (s, .rejected) else
  match s.data, s.dataAxes with
  | some shp, ax =>
    match setData pt s0 shp ax with
    | (s', .ok _) => (s', .ok none)
    | (_, .rejected) => (s, .rejected)
  | none, some A =>
    match setDataAxes pt s0 A none with
    | (s', .ok _) => (s', .ok none)
    | (_, .rejected) => (s, .rejected)
  | none, none => (s0, .ok none)

/-- `Field.set_data(data, axes, inplace=False)`: `f = self.copy()`, the checks and assignments are made on
`f`, which is returned; the receiver is never written to.  (The history carries on with the returned
field; after a rejected call with the receiver.) -/
def setDataNew (pt : Bool) (s : St) (shp : List Nat) (axes : Option (List Key)) : St × Out :=
  match copyField pt s with
  | (_, .rejected) => (s, .rejected)
  | (new, .ok _) =>
    match setData pt new shp axes with
    | (new', .ok _) => (new', .ok none)
    | (_, .rejected) => (s, .rejected)

/-! ## direct mutation of a contained construct

`c = f.construct(key)` (or `f.domain.construct(key)`, `f.constructs.shallow_copy()[key]`, an element of a
filtered collection: all of them hand out the stored object itself) followed by a mutator of the
construct.  The container is not involved: no check is made against the recorded axes. -/

inductive Mut
  /-- `c.set_data(data)` -/
  | setData (shp : List Nat)
  /-- `c.del_data()` -/
  | delData
  /-- `c.set_bounds(bounds)` -/
  | setBounds (shp : List Nat)
  /-- `c.del_bounds()` -/
  | delBounds
  /-- `domain_axis.set_size(n)` -/
  | setSize (n : Nat)
  deriving DecidableEq, Repr

/-- the construct after the mutator; `none` = the construct's own checks raise
(`DimensionCoordinate.set_data`: 1-d only; `set_bounds`: more dimensions than the data and the same
leading dimensions; `del_data` / `del_bounds`: there is something to delete) -/
def plainData (t : CType) : Bool := t.isArray && t != .top && t != .con

def mutCon (t : CType) (c : Con) : Mut → Option Con
  | .setData shp =>
    if !plainData t then none
    else if t == .dim && shp.length != 1 then none
    else some { c with data := some shp }
  | .delData => if plainData t && c.data.isSome then some { c with data := none } else none
  | .setBounds b =>
    if !(t == .dim || t == .aux || t == .dan) || c.geom then none else
    match c.data with
    | some d => if d.length < b.length && b.take d.length == d then some { c with bounds := some b } else none
    | none => some { c with bounds := some b }
  | .delBounds => if (t == .dim || t == .aux || t == .dan) && c.bounds.isSome then some { c with bounds := none } else none
  | .setSize n => if t == .axis then some { c with size := some n } else none

/-- the stored object is changed where it is: on the dictionaries this is `constructs.replace(key, c')`
without axes, and without any check -/
def mutate (s : St) (key : Key) (m : Mut) : St × Out :=
  match conOf s key with
  | none => (s, .rejected)
  | some (t, c) =>
    match mutCon t c m with
    | none => (s, .rejected)
    | some c' => replaceCon s key c' none

/-! ## deriving operations -/

/-- `[l[i] for i in idx]`, `none` = `IndexError` -/
def pick {α} (l : List α) : List Nat → Option (List α)
  | [] => some []
  | i :: r =>
    match l[i]?, pick l r with
    | some x, some y => some (x :: y)
    | _, _ => none

def nodupNat : List Nat → Bool
  | [] => true
  | a :: l => !l.contains a && nodupNat l

/-- `Data._parse_axes` for non-negative axes: in range, no duplicates -/
def parseAxes (ndim : Nat) (l : List Nat) : Option (List Nat) :=
  if l.all (fun i => decide (i < ndim)) && nodupNat l then some l else none

/-- positions `0 … n-1` that are not in `drop` -/
def keepIdx (n : Nat) (drop : List Nat) : List Nat := (List.range n).filter (fun i => !drop.contains i)

/-- the leading dimensions of a shape are replaced -/
def relead (lead : List Nat) (shp : List Nat) : List Nat := lead ++ shp.drop lead.length

/-- an operation that is not in place first takes `self.copy()` -/
def copyGuard (pt : Bool) (s : St) (inplace : Bool) : Bool := inplace || (copyField pt s).2.isOk

def newShapeOf (shp : List Nat) (idx : List Nat) : List Nat := (pick shp idx).getD []

/-- The field-level part shared by `squeeze` and `transpose`: the data keep the dimensions `idx` of the
old data (`super().squeeze / transpose`), then `set_data_axes([data_axes[i] for i in idx])`.
Result: (the state to carry on with, or the state that a rejected call leaves behind; accepted?). -/
def relabel (pt : Bool) (s : St) (inplace : Bool) (shp : List Nat) (idx : List Nat) : St × Bool :=
  match s.dataAxes with
  | none => ({ s with data := some (newShapeOf shp idx) }, true)
  | some A =>
    match pick A idx with
    | none => (s, false)
    | some A' =>
      match setDataAxes pt { s with data := some (newShapeOf shp idx) } A' (some (newShapeOf shp idx)) with
      | (s2, .ok _) => (s2, true)
      | (_, .rejected) => (if inplace then { s with data := some (newShapeOf shp idx) } else s, false)

/-- the dimensions that `squeeze` keeps; `none` = `ValueError` (`_parse_axes`, "Can't remove axis of size > 1") -/
def squeezeIdx (shp : List Nat) (axes : Option (List Nat)) : Option (List Nat) :=
  match (match axes with
         | none => some ((List.range shp.length).filter (fun i => shp[i]? == some 1))
         | some l => parseAxes shp.length l) with
  | none => none
  | some iaxes =>
    if iaxes.all (fun i => match shp[i]? with | some n => decide (n ≤ 1) | none => false) then
      some (keepIdx shp.length iaxes)
    else none

/-- `Field.squeeze(axes, inplace)` -/
def squeezeField (pt : Bool) (s : St) (axes : Option (List Nat)) (inplace : Bool) : St × Out :=
  if !copyGuard pt s inplace then (s, .rejected) else
  match s.data with
  | none => (s, .rejected)
  | some shp =>
    match squeezeIdx shp axes with
    | none => (s, .rejected)
    | some keep =>
      match relabel pt s inplace shp keep with
      | (s', true) => (s', .ok none)
      | (s', false) => (s', .rejected)

/-- the transposition of one metadata construct in `Field.transpose(constructs=True)`:
`new_construct_axes`, `iaxes`, `construct.transpose(iaxes)` -/
def insertMissing (cax : List Key) (acc : List Key) : List Key :=
  (cax.zipIdx).foldl (fun a p => if a.contains p.1 then a else a.insertIdx p.2 p.1) acc

def transShape (ix : List Nat) (x : Option (List Nat)) : Option (Option (List Nat)) :=
  match x with
  | none => some none
  | some b => (pick b ix).map (fun l => some (l ++ b.drop ix.length))

def transCon (c : Con) (ix : List Nat) : Option Con :=
  match c.data with
  | none => some c
  | some d =>
    match pick d ix, transShape ix c.bounds, transShape ix c.ring with
    | some d', some b', some r' => some { c with data := some d', bounds := b', ring := r' }
    | _, _, _ => none

/-- the constructs whose data `insert_dimension` / `transpose` reshape (for a domain topology or cell
connectivity `insert_dimension(constructs=True)` always fails cfdm's own shape check, `transpose` is the identity) -/
def modelled (t : CType) : Bool := t.isArray && t != .top && t != .con

/-- one step of the loop over `f.constructs.filter_by_data()` in `Field.transpose` -/
def transOne (s : St) (p : CType × Key) : Option St :=
  match s.cons.get p with
  | none => some s
  | some c =>
    if !p.1.isArray then some s else
    match c.data with
    | none => some s
    | some d =>
      if d.length < 2 then some s else
      -- a domain topology / cell connectivity spans one axis: `Topology.transpose(iaxes)` accepts `[0]` only and
      -- changes nothing (data axes that name the cell axis twice give `[0, 0]`: ValueError); then the axes are re-set
      if p.1 == .top || p.1 == .con then
        (match s.caxes.get p.2, s.dataAxes with
         | some cax, some nda =>
           if (insertMissing cax (nda.filter (fun a => cax.contains a))).map (fun a => cax.idxOf a) == [0] &&
              axesCheck s p.1 c (insertMissing cax (nda.filter (fun a => cax.contains a))) then
             some { s with cons := s.cons.set p c,
                           caxes := s.caxes.set p.2 (insertMissing cax (nda.filter (fun a => cax.contains a))) }
           else none
         | _, _ => none) else
      if !modelled p.1 then none else
      match s.caxes.get p.2, s.dataAxes with
      | some cax, some nda =>
        -- `iaxes = [construct_axes.index(axis) for axis in new_construct_axes]`
        if !(nodupNat ((insertMissing cax (nda.filter (fun a => cax.contains a))).map (fun a => cax.idxOf a))) ||
            ((insertMissing cax (nda.filter (fun a => cax.contains a))).length != d.length) then none else
        match transCon c ((insertMissing cax (nda.filter (fun a => cax.contains a))).map (fun a => cax.idxOf a)) with
        | none => none
        | some c' =>
          if axesCheck s p.1 c' (insertMissing cax (nda.filter (fun a => cax.contains a))) then
            some { s with cons := s.cons.set p c',
                          caxes := s.caxes.set p.2 (insertMissing cax (nda.filter (fun a => cax.contains a))) }
          else none
      | _, _ => none

def foldOpt {α β} (f : β → α → Option β) : β → List α → Option β
  | b, [] => some b
  | b, a :: l =>
    match f b a with
    | some b' => foldOpt f b' l
    | none => none

/-- the loop over the constructs of an IN-PLACE call: it stops at the first construct whose step fails,
with what that step leaves behind (`dmg`); the constructs before it stay changed.  (The order in which
Python walks the dictionaries is not the order of the list: the theorems hold for every list.) -/
def foldIP {α} (f : St → α → Option St) (dmg : St → α → St) : St → List α → St
  | s, [] => s
  | s, a :: l =>
    match f s a with
    | some s' => foldIP f dmg s' l
    | none => dmg s a

/-- what a failing step of the loop of `transpose(constructs=True)` leaves: every exception but the last
(`f.set_data_axes(axes=new_construct_axes, key=key)`) is raised before anything was changed; that last
one comes after `construct.transpose(iaxes, inplace=True)` -/
def transDamage (s : St) (p : CType × Key) : St :=
  match s.cons.get p, s.caxes.get p.2, s.dataAxes with
  | some c, some cax, some nda =>
    match c.data with
    | some d =>
      if p.1.isArray && decide (2 ≤ d.length) && modelled p.1 &&
          nodupNat ((insertMissing cax (nda.filter (fun a => cax.contains a))).map (fun a => cax.idxOf a)) &&
          ((insertMissing cax (nda.filter (fun a => cax.contains a))).length == d.length) then
        match transCon c ((insertMissing cax (nda.filter (fun a => cax.contains a))).map (fun a => cax.idxOf a)) with
        | some c' => { s with cons := s.cons.set p c' }
        | none => s
      else s
    | none => s
  | _, _, _ => s

/-- the positions of a transposition; `none` = `ValueError` -/
def transposeIdx (shp : List Nat) (perm : Option (List Nat)) : Option (List Nat) :=
  match perm with
  | none => some (List.range shp.length).reverse
  | some l =>
    match parseAxes shp.length l with
    | some ix => if ix.length = shp.length then some ix else none
    | none => none

/-- `Field.transpose(axes, constructs, inplace)`.  With `constructs=True` AND `inplace=True` a failure inside
the loop leaves the constructs before the failing one changed (`foldIP`; the model walks its own list, Python
its dictionaries: the driver prints `~` for that state, the theorems quantify over every order) -/
def transposeField (pt : Bool) (s : St) (perm : Option (List Nat)) (constructs : Bool) (inplace : Bool) : St × Out :=
  if !copyGuard pt s inplace then (s, .rejected) else
  match s.data with
  | none => (s, .rejected)
  | some shp =>
    match transposeIdx shp perm with
    | none => (s, .rejected)
    | some iaxes =>
      match relabel pt s inplace shp iaxes with
      | (s', false) => (s', .rejected)
      | (s2, true) =>
        if !constructs then (s2, .ok none) else
        match foldOpt transOne s2 (s2.cons.live.map (·.1)) with
        | some s3 => (s3, .ok none)
        | none => (if inplace then foldIP transOne transDamage s2 (s2.cons.live.map (·.1)) else s, .rejected)

def insCon (c : Con) (p : Nat) : Con :=
  { c with data := c.data.map (fun d => d.insertIdx p 1),
           bounds := c.bounds.map (fun d => d.insertIdx p 1),
           ring := c.ring.map (fun d => d.insertIdx p 1) }

/-- `c_position`: the position minus the number of (old) data axes that the construct does not span -/
def conPosition (position : Nat) (dataAxes0 cax : List Key) : Nat :=
  position - (dataAxes0.filter (fun a => !cax.contains a)).length

/-- the construct types that the loop of `insert_dimension(constructs=True)` leaves as they are -/
def skippedByInsert (t : CType) : Bool := t == .dim || t == .top || t == .con

/-- one step of the loop over `f.constructs.filter_by_data()` in `Field.insert_dimension` -/
def insOne (pt : Bool) (axis : Key) (position : Nat) (dataAxes0 : List Key) (s : St) (p : CType × Key) : Option St :=
  match s.cons.get p with
  | none => some s
  | some c =>
    if !p.1.isArray then some s else
    match c.data with
    | none => some s
    | some d =>
      match s.caxes.get p.2 with
      | none => none
      | some cax =>
        if cax.contains axis then some s else
        -- a dimension coordinate (7a00732), domain topology or cell connectivity
        -- (fixes/C02-insert-dimension-skips-topology-constructs.patch) spans exactly one domain axis and is left
        -- as it is.  Before: a dimension coordinate was made 2-d (after which neither it nor the field could be
        -- copied); a topology construct was reshaped and its new axes were then always refused.
        if pt && skippedByInsert p.1 then some s else
        if !modelled p.1 then none else
        if conPosition position dataAxes0 cax > d.length then none else
        if axesCheck s p.1 (insCon c (conPosition position dataAxes0 cax))
             (cax.insertIdx (min (conPosition position dataAxes0 cax) cax.length) axis) then
          some { s with cons := s.cons.set p (insCon c (conPosition position dataAxes0 cax)),
                        caxes := s.caxes.set p.2 (cax.insertIdx (min (conPosition position dataAxes0 cax) cax.length) axis) }
        else none

/-- what a failing step of the loop of `insert_dimension(constructs=True)` leaves: every exception but the
last (`f.set_data_axes(axes=construct_axes, key=key)`) is raised before anything was changed; that last one
comes after `construct.insert_dimension(c_position, inplace=True)` -/
def insDamage (pt : Bool) (axis : Key) (position : Nat) (dataAxes0 : List Key) (s : St) (p : CType × Key) : St :=
  match s.cons.get p, s.caxes.get p.2 with
  | some c, some cax =>
    match c.data with
    | some d =>
      if p.1.isArray && !cax.contains axis && !(pt && skippedByInsert p.1) &&
          decide (conPosition position dataAxes0 cax ≤ d.length) then
        { s with cons := s.cons.set p (insCon c (conPosition position dataAxes0 cax)) }
      else s
    | none => s
  | _, _ => s

/-- the axis that `insert_dimension` inserts: a new domain axis of size 1, or an existing one of size 1 -/
def insertAxisKey (pt : Bool) (s : St) (axis : Option Key) : Option (St × Key) :=
  match axis with
  | none =>
    match setConstruct pt s false .axis { size := some 1 } none none with
    | (s', .ok (some k)) => some (s', k)
    | _ => none
  | some a =>
    match s.cons.get (.axis, a) with
    | some c => if c.size = some 1 then some (s, a) else none
    | none => none

/-- the field-level part of `insert_dimension`: (result, or what a rejected in-place call leaves; accepted?) -/
def insertField (pt : Bool) (s : St) (a : Key) (position : Nat) : St × Bool :=
  match s.dataAxes, s.data with
  | some A, some shp =>
    if A.contains a then (s, false) else
    -- `Data.insert_dimension`: "Invalid position"
    if position ≤ shp.length then
      match setDataAxes pt { s with data := some (shp.insertIdx position 1) }
              (A.insertIdx (min position A.length) a) (some (shp.insertIdx position 1)) with
      | (s', .ok _) => (s', true)
      | (_, .rejected) => ({ s with data := some (shp.insertIdx position 1) }, false)
    else (s, false)
  | some A, none =>
    if A.contains a then (s, false) else
    match setDataAxes pt s (A.insertIdx (min position A.length) a) none with
    | (s', .ok _) => (s', true)
    | (_, .rejected) => (s, false)
  | none, some shp =>
    if position ≤ shp.length then ({ s with data := some (shp.insertIdx position 1) }, true) else (s, false)
  | none, none => (s, true)

/-- `Field.insert_dimension(axis, position, constructs, inplace)`; `axis = none` creates a new size-1
domain axis.  With `constructs=True` AND `inplace=True` a failure inside the loop leaves what was done so far
(see `transposeField`).  Before fixes/C02-insert-dimension-skips-topology-constructs.patch (`pt = false`) the step
for a domain topology / cell connectivity construct with data always failed AFTER the construct was reshaped
(`insDamage`) -/
def insertDimension (pt : Bool) (s : St) (axis : Option Key) (position : Nat) (constructs : Bool)
    (inplace : Bool) : St × Out :=
  if !copyGuard pt s inplace then (s, .rejected) else
  match insertAxisKey pt s axis with
  | none => (s, .rejected)
  | some (s1, a) =>
    match insertField pt s1 a position with
    | (st, false) => (if inplace then st else s, .rejected)
    | (s3, true) =>
      if !constructs then (s3, .ok none) else
      match foldOpt (insOne pt a (if s1.dataAxes.isNone then 0 else position) (s1.dataAxes.getD [])) s3
              (s3.cons.live.map (·.1)) with
      | some s4 => (s4, .ok none)
      | none =>
        (if inplace then
           foldIP (insOne pt a (if s1.dataAxes.isNone then 0 else position) (s1.dataAxes.getD []))
             (insDamage pt a (if s1.dataAxes.isNone then 0 else position) (s1.dataAxes.getD [])) s3 (s3.cons.live.map (·.1))
         else s, .rejected)

/-- the subspace of one metadata construct in `Field.__getitem__` -/
def subCon (c : Con) (lead : List Nat) : Con :=
  { c with data := c.data.map (relead lead), bounds := c.bounds.map (relead lead), ring := c.ring.map (relead lead) }

/-- size along the first position of `a` in the data axes (`indices[data_axes.index(axis)]`) -/
def firstSize (A : List Key) (ns : List Nat) (a : Key) : Option Nat :=
  ((A.zip ns).find? (fun p => p.1 = a)).map (·.2)

def subLead (A : List Key) (ns : List Nat) (cax : List Key) (shp : List Nat) : List Nat :=
  (cax.zip shp).map (fun p => (firstSize A ns p.1).getD p.2)

/-- one step of the loop over `new.constructs.filter_by_axis(*data_axes, axis_mode='or')`:
`new.set_construct(construct[tuple(dice)], key=key, copy=False)` -/
def subOne (pt : Bool) (A : List Key) (ns : List Nat) (s : St) (p : CType × Key) : Option St :=
  match s.caxes.get p.2, s.cons.get p with
  | some cax, some c =>
    if !(cax.any (fun a => A.contains a)) then some s else
    -- `construct[tuple(dice)]` of a domain axis / cell method / coordinate reference raises
    if !p.1.isArray then none else
    -- `construct[tuple(dice)]` evaluates `construct.shape`
    match c.shape p.1 with
    | none => none
    | some shp =>
      match setConstruct pt s false p.1 (subCon c (subLead A ns cax shp)) (some p.2) none with
      | (s', .ok _) => some s'
      | (_, .rejected) => none
  | _, _ => some s

/-- the sizes after slicing with one `start:stop` per dimension; `none` = `IndexError` -/
def subSizes (shp : List Nat) (ix : List (Nat × Nat)) : Option (List Nat) :=
  if ix.length > shp.length then none else
  if ((shp.zip (ix ++ (shp.drop ix.length).map (fun n => (0, n)))).map (fun p => min p.2.2 p.1 - min p.2.1 p.1)).contains 0 then none
  else some ((shp.zip (ix ++ (shp.drop ix.length).map (fun n => (0, n)))).map (fun p => min p.2.2 p.1 - min p.2.1 p.1))

/-- `domain_axis.set_size(size); new.set_construct(domain_axis, key=key)` -/
def resizeOne (pt : Bool) (s : St) (p : Key × Nat) : Option St :=
  match s.cons.get (.axis, p.1) with
  | none => none
  | some c =>
    match setConstruct pt s false .axis { c with size := some p.2 } (some p.1) none with
    | (s', .ok _) => some s'
    | (_, .rejected) => none

/-- `Field.__getitem__` after the copy: resize the domain axes, re-insert the subspaced constructs,
set the new data (`none` = an exception) -/
def subTail (pt : Bool) (new : St) (A : List Key) (ns : List Nat) : Option St :=
  match foldOpt (resizeOne pt) new (A.zip ns) with
  | none => none
  | some s1 =>
    match foldOpt (subOne pt A ns) s1 (if A.isEmpty then [] else s1.cons.live.map (·.1)) with
    | none => none
    | some s2 =>
      match setData pt s2 ns none with
      | (s3, .ok _) => some s3
      | (_, .rejected) => none

/-- `Field.__getitem__` with one slice `start:stop` (0 ≤ start, stop) per data dimension -/
def subspace (pt : Bool) (s : St) (ix : List (Nat × Nat)) : St × Out :=
  match copyField pt s with
  | (_, .rejected) => (s, .rejected)
  | (new, .ok _) =>
    match s.data, s.dataAxes with
    | some shp, some A =>
      match subSizes shp ix with
      | none => (s, .rejected)
      | some ns =>
        match subTail pt new A ns with
        | some s3 => (s3, .ok none)
        | none => (s, .rejected)
    | _, _ => (s, .rejected)

def subsetOf (l A : List Key) : Bool := l.all (fun a => A.contains a)

def listedForConvert (t : CType) : Bool := t == .dim || t == .aux || t == .msr || t == .top || t == .con

/-- `f.set_construct(domain_axes[domain_axis], key=domain_axis, copy=True)` -/
def convAxis (pt : Bool) (s : St) (f : St) (a : Key) : Option St :=
  match s.cons.get (.axis, a) with
  | none => none
  | some ac =>
    match setConstruct pt f false .axis ac (some a) none with
    | (f', .ok _) => some f'
    | (_, .rejected) => none

/-- the coordinates, cell measures and topologies whose axes are all spanned by the new data -/
def convCoord (pt : Bool) (s : St) (A : List Key) (f : St) (p : Key × CType) : Option St :=
  if !listedForConvert p.2 then some f else
  match s.caxes.get p.1, s.cons.get (p.2, p.1) with
  | some ax, some cc =>
    if subsetOf ax A then
      if !conCopyable p.2 cc then none else
      match setConstruct pt f false p.2 cc (some p.1) (some ax) with
      | (f', .ok _) => some f'
      | (_, .rejected) => none
    else some f
  | _, _ => some f

/-- `for ccid in ref.coordinate_conversion.domain_ancillaries().values(): axes = constructs_data_axes[ccid]; …; break`;
`none` = `KeyError` -/
def ancilsOk (s : St) (A : List Key) : List (Option Key) → Option Bool
  | [] => some true
  | none :: _ => none
  | some v :: r =>
    match s.caxes.get v with
    | none => none
    | some ax => if subsetOf ax A then ancilsOk s A r else some false

def convAncil (pt : Bool) (s : St) (g : St) (v : Option Key) : Option St :=
  match v with
  | none => some g
  | some v =>
    match s.cons.get (.dan, v) with
    | none => some g
    | some dc =>
      -- `copy=True`: the construct is copied first
      if !conCopyable .dan dc then none else
      match setConstruct pt g false .dan dc (some v) (s.caxes.get v) with
      | (g', .ok _) => some g'
      | (_, .rejected) => none

/-- a coordinate reference, with the domain ancillaries it names -/
def convRef (pt : Bool) (s : St) (A : List Key) (f : St) (p : (CType × Key) × Con) : Option St :=
  if p.1.1 != .ref then some f else
  match p.2.coords.mapM (fun x => (s.caxes.get x).map (fun ax => (x, subsetOf ax A))) with
  | none => none
  | some cs =>
    if ((cs.filter (·.2)).map (·.1)).isEmpty then some f else
    match ancilsOk s A p.2.ancils with
    | none => none
    | some false => some f
    | some true =>
      -- (cfdm stores the reference first and then the domain ancillaries it names; the model stores the
      -- ancillaries first - the resulting dictionaries are the same, and no step can fail in between)
      match foldOpt (convAncil pt s) f p.2.ancils with
      | none => none
      | some f' =>
        match setConstruct pt f' false .ref { p.2 with coords := (cs.filter (·.2)).map (·.1) } (some p.1.2) none with
        | (_, .rejected) => none
        | (f'', .ok _) => some f''

/-- `Field.convert(key, full_domain)` -/
def convertField (pt : Bool) (s : St) (key : Key) (full : Bool) : St × Out :=
  match conOf s key with
  | none => (s, .rejected)
  | some (t, c) =>
    if !t.isArray || !conCopyable t c then (s, .rejected) else
    match c.data with
    | none => (s, .rejected)
    | some d =>
      match s.caxes.get key with
      | none =>
        if full && (s.ctype.any (fun p => listedForConvert p.2 && (s.caxes.get p.1).isSome) ||
                    s.cons.any (fun p => p.1.1 == .ref && !p.2.coords.isEmpty)) then (s, .rejected)
        else ({}, .ok none)
      | some A =>
        match foldOpt (convAxis pt s) {} A with
        | none => (s, .rejected)
        | some f1 =>
          match setData pt f1 d (some A) with
          | (_, .rejected) => (s, .rejected)
          | (f2, .ok _) =>
            if !full then (f2, .ok none) else
            match foldOpt (convCoord pt s A) f2 s.ctype.live with
            | none => (s, .rejected)
            | some f3 =>
              match foldOpt (convRef pt s A) f3 s.cons.live with
              | none => (s, .rejected)
              | some f4 => (f4, .ok none)

/-! ## the operations -/

inductive Op
  | setc (view : Bool) (t : CType) (c : Con) (key : Option Key) (axes : Option (List Key))
  | delc (view : Bool) (key : Key)
  | setd (shape : List Nat) (axes : Option (List Key))
  | deld
  | setda (axes : List Key)
  | setdak (view : Bool) (axes : List Key) (key : Key)
  | delda
  | deldak (view : Bool) (key : Key)
  | replace (key : Key) (c : Con) (axes : Option (List Key))
  | copy
  | sub (ix : List (Nat × Nat))
  | squeeze (axes : Option (List Nat)) (inplace : Bool)
  | transpose (perm : Option (List Nat)) (constructs : Bool) (inplace : Bool)
  | insdim (axis : Option Key) (position : Nat) (constructs : Bool) (inplace : Bool)
  | convert (key : Key) (full : Bool)
  /-- `Field.set_data(data, axes, inplace=False)` -/
  | setdn (shape : List Nat) (axes : Option (List Key))
  /-- a mutator called on the construct object that the field holds under `key` -/
  | mutate (key : Key) (m : Mut)
  /-- a mutation of a container that was derived from the field with dictionaries of its own
  (`f.constructs.shallow_copy()`, a filtered collection, `f.domain.copy()`, `Domain(source=f)`): the
  field's dictionaries are other objects and stay as they are -/
  | frame
  deriving DecidableEq, Repr

def stepP (pt : Bool) (s : St) : Op → St × Out
  | .setc view t c key axes => setConstruct pt s view t c key axes
  | .delc view key => delConstruct pt s view key
  | .setd shape axes => setData pt s shape axes
  | .deld => delData s
  | .setda axes => setDataAxes pt s axes s.data
  | .setdak view axes key => setConAxes s view axes key
  | .delda => delDataAxes pt s
  | .deldak view key => delConAxes s view key
  | .replace key c axes => replaceCon s key c axes
  | .copy => copyField pt s
  | .sub ix => subspace pt s ix
  | .squeeze axes inplace => squeezeField pt s axes inplace
  | .transpose perm constructs inplace => transposeField pt s perm constructs inplace
  | .insdim axis position constructs inplace => insertDimension pt s axis position constructs inplace
  | .convert key full => convertField pt s key full
  | .setdn shape axes => setDataNew pt s shape axes
  | .mutate key m => mutate s key m
  | .frame => (s, .ok none)

/-- the container as coded at /repo HEAD -/
def step (s : St) (op : Op) : St × Out := stepP true s op
/-- the container before the five repairs (0a6b21e, 05dfd6b, fba0f94, 7ccd512, 7a00732) -/
def stepOld (s : St) (op : Op) : St × Out := stepP false s op

/-- `cfdm.Field()` -/
def init : St := {}

def run (s : St) (ops : List Op) : St := ops.foldl (fun st o => (step st o).1) s

/-- `f.domain.constructs.todict()` / `f.constructs.todict()`: iterate the per-type dictionaries,
skipping the ignored types -/
def todict (s : St) (view : Bool) : List Key := (s.cons.live.filter (fun p => !ignored view p.1.1)).map (·.1.2)

end Cfdm.Constructs
