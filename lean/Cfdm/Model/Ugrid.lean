/-
C15 — UGRID mesh topologies → domain topology / cell connectivity / bounds.

Executable model (core Lean only) of the decision core of

* `cfdm/data/subarray/mixin/pointtopology.py`          `PointTopology.__getitem__`
* `cfdm/data/subarray/pointtopologyfromfacessubarray.py` `_connected_nodes`
* `cfdm/data/subarray/pointtopologyfromedgessubarray.py` `_connected_nodes`
* `cfdm/data/subarray/cellconnectivitysubarray.py`      `__getitem__`
* `cfdm/data/subarray/boundsfromnodessubarray.py`       `__getitem__`
* `cfdm/data/subarray/abstract/meshsubarray.py`         `_select_data` (transposition)
* `cfdm/mixin/topology.py` `_normalise_cell_ids`, `cfdm/domaintopology.py` `normalise`
* the edge/face branch of `NetCDFRead._ugrid_create_domain_topology`

A 2-d integer array with a mask is a list of rows of `Option`; `none` is a
masked element (the padding of a connectivity row).

The point-topology functions mirror the code after the fix commits 00b4eb1, 9a9f570, 2c54535
(`fixes/C15-point-neighbours-from-faces.patch`, `fixes/C15-point-rows-per-node.patch`,
`fixes/C15-point-start-index.patch`, applied to /repo) and after the proposed
`fixes/C15-point-edges-padded.patch` (masked elements of an edge array are ignored);
`cellTopology` mirrors the code after the proposed `fixes/C15-edge-face-cells-start-index.patch`.
The behaviour of the unpatched code is kept as `…Old`.  Everything else mirrors the code as it is.

The specification (what the property says, written from the raw connectivity and
not from the algorithm) is in the section `Spec` at the end.
-/
namespace Cfdm.Ugrid

abbrev Row := List (Option Nat)
abbrev Mat := List Row

/-- Apply a function to every unmasked element. -/
def mapVals {α β} (f : α → β) (m : List (List (Option α))) : List (List (Option β)) :=
  m.map (fun r => r.map (fun o => o.map f))

/-- `row.compressed().tolist()`: the unmasked elements of a row, in order. -/
def compressed {α} (r : List (Option α)) : List α := r.filterMap id

/-- All unmasked elements, row-major (`data.compressed()`). -/
def vals {α} (m : List (List (Option α))) : List α := m.flatMap compressed

/-- numpy `.T` of a rectangular 2-d array (width read off the first row). -/
def transpose {α} (m : List (List (Option α))) : List (List (Option α)) :=
  match m with
  | [] => []
  | r :: _ => (List.range r.length).map (fun j => m.map (fun row => (row[j]?).join))

/-- `MeshSubarray._select_data`: the connectivity array is stored either
(cell, node) (`cell_dimension = 0`) or (node, cell) (`cell_dimension = 1`). -/
def selectData {α} (cellDim : Nat) (m : List (List (Option α))) : List (List (Option α)) :=
  if cellDim = 1 then transpose m else m

/-! ### `sorted(set(l))` -/

def insertUniq (x : Nat) : List Nat → List Nat
  | [] => [x]
  | y :: t => if x < y then x :: y :: t else if x = y then y :: t else y :: insertUniq x t

/-- Python `sorted(set(l))`. -/
def sortDedup (l : List Nat) : List Nat := l.foldr insertUniq []

/-! ### Point cells: `PointTopology.__getitem__` -/

/-- `node_connectivity + 1` when `start_index` is 0: node ids are one-based
during the assembly because 0 is the fill value of the sparse array. -/
def toOneBased (si : Nat) (m : Mat) : Mat :=
  if si = 0 then mapVals (· + 1) m else m

/-- `zip(face_nodes[:-1], face_nodes[1:])` after `face_nodes.append(face_nodes[0])`. -/
def cyclicPairs (f : List Nat) : List (Nat × Nat) :=
  match f with
  | [] => []
  | a :: t => List.zip (a :: t) (t ++ [a])

/-- Patched `_connected_nodes` loop body (faces): the node before *and* the node
after `node` in this face. -/
def faceNeighbours (node : Nat) (f : List Nat) : List Nat :=
  (cyclicPairs f).flatMap (fun p =>
    (if p.2 = node then [p.1] else []) ++ (if p.1 = node then [p.2] else []))

/-- Unpatched loop body: `[m for m, n in zip(...) if n == node]` — only the
node that precedes `node`. -/
def faceNeighboursOld (node : Nat) (f : List Nat) : List Nat :=
  (cyclicPairs f).filterMap (fun p => if p.2 = node then some p.1 else none)

/-- Rows selected by `where(node_connectivity == node)[0]` (a row is listed
once per occurrence in the code; the later `set()` makes that irrelevant). -/
def rowsWith (node : Nat) (conn : Mat) : Mat := conn.filter (fun r => r.contains (some node))

/-- `PointTopologyFromFacesSubarray._connected_nodes` (patched): `node` followed
by `sorted(set(neighbours))`. -/
def connectedFaces (node : Nat) (conn : Mat) : List Nat :=
  node :: sortDedup ((rowsWith node conn).flatMap (fun r => faceNeighbours node (compressed r)))

/-- Unpatched: predecessor only (and `list(set(…))`, whose order the harness
never compares). -/
def connectedFacesOld (node : Nat) (conn : Mat) : List Nat :=
  node :: sortDedup ((rowsWith node conn).flatMap (fun r => faceNeighboursOld node (compressed r)))

/-- `PointTopologyFromEdgesSubarray._connected_nodes`: every node of every edge
that contains `node`, sorted, `node` moved to the front (patched: `remove`
only if present, so that a node on no edge gets the row `[node]`). -/
def connectedEdges (node : Nat) (conn : Mat) : List Nat :=
  node :: (sortDedup ((rowsWith node conn).flatMap compressed)).erase node

inductive Src where
  | faces | edges
  deriving DecidableEq, Repr

def connected (src : Src) (node : Nat) (conn : Mat) : List Nat :=
  match src with
  | .faces => connectedFaces node conn
  | .edges => connectedEdges node conn

/-- Patched loop `for node in range(1, n_nodes + 1)` over one-based ids. -/
def pointRows (src : Src) (nNodes : Nat) (conn1 : Mat) : List (List Nat) :=
  (List.range nNodes).map (fun i => connected src (i + 1) conn1)

def maxLen (rows : List (List Nat)) : Nat := rows.foldr (fun r a => max r.length a) 0

/-- `csr_array((u, cols, pointers)).toarray()`: row `k` holds the `k`-th list,
padded with 0 up to the longest list. -/
def toDense (rows : List (List Nat)) : List (List Nat) :=
  rows.map (fun r => r ++ List.replicate (maxLen rows - r.length) 0)

/-- `u = np.ma.where(u == 0, np.ma.masked, u)` then (patched, unconditionally)
`u -= 1`. -/
def maskZerosPred (d : List (List Nat)) : Mat :=
  d.map (fun r => r.map (fun v => if v = 0 then none else some (v - 1)))

/-- Largest unmasked element (`node_connectivity.max()`), 0 if there is none. -/
def largest (m : Mat) : Nat := (vals m).foldr max 0

/-- `PointTopology.__getitem__[...]` (patched).  `nNodes = none` is the
`shape=(nan, nan)` case, where the number of rows is the largest node id. -/
def pointTopology (src : Src) (si : Nat) (nNodes : Option Nat) (conn : Mat) : Mat :=
  let c1 := toOneBased si conn
  let n := match nNodes with
    | some n => n
    | none => largest c1
  maskZerosPred (toDense (pointRows src n c1))

/-- The unpatched `__getitem__`: one row per *distinct value found in the
connectivity array* (`np.unique`, which for a masked array also yields the
masked element → `TypeError`, modelled as `none`), predecessor-only neighbours
for faces, and the final `u -= 1` only `if not start_index`. -/
def pointTopologyOld (src : Src) (si : Nat) (conn : Mat) : Option Mat :=
  let c1 := toOneBased si conn
  if c1.any (fun r => r.contains none) then none else
  let rows := (sortDedup (vals c1)).map (fun node =>
    match src with
    | .faces => connectedFacesOld node c1
    | .edges => connectedEdges node c1)
  let d := toDense rows
  some (d.map (fun r => r.map (fun v =>
    if v = 0 then none else some (if si = 0 then v - 1 else v))))

/-- `PointTopologyFromEdgesSubarray._connected_nodes` before
`fixes/C15-point-edges-padded.patch`: `sorted(set(rows.flatten().tolist()))` meets `None`
(→ `TypeError`, modelled as `none`) as soon as an edge that contains one of the nodes `1..n`
also has a masked element; otherwise it is the patched function. -/
def pointTopologyEdgesOld (si : Nat) (nNodes : Option Nat) (conn : Mat) : Option Mat :=
  let c1 := toOneBased si conn
  let n := match nNodes with
    | some n => n
    | none => largest c1
  if c1.any (fun r => r.contains none && (compressed r).any (fun v => decide (1 ≤ v) && decide (v ≤ n)))
  then none else some (pointTopology .edges si nNodes conn)

/-! ### Edge and face cells -/

/-- `_ugrid_create_domain_topology`, `else` branch (patched by
`fixes/C15-edge-face-cells-start-index.patch`): `data = self._create_data(…)` transposed when
`cell_dimension == 1`, then `if start_index: data = data - start_index`. -/
def cellTopology (si cellDim : Nat) (stored : Mat) : Mat :=
  if si ≠ 0 then mapVals (· - si) (selectData cellDim stored) else selectData cellDim stored

/-- Unpatched: `start_index` is popped from the properties and **not applied**. -/
def cellTopologyOld (cellDim : Nat) (stored : Mat) : Mat := selectData cellDim stored

/-! ### `CellConnectivitySubarray.__getitem__` -/

/-- `u[:, 0] = arange(start, stop)`, `u[:, 1:] = data`, `if start_index: u -= 1`. -/
def cellConnectivity (si : Nat) (data : Mat) : Mat :=
  let start := if si ≠ 0 then 1 else 0
  let u : Mat := (List.zipIdx data).map (fun p => some (start + p.2) :: p.1)
  if si ≠ 0 then mapVals (· - 1) u else u

/-! ### `BoundsFromNodesSubarray.__getitem__` -/

/-- `u[~mask] = values`: consume one value per unmasked position of the row. -/
def scatterRow : Row → List Int → List (Option Int) × List Int
  | [], vs => ([], vs)
  | none :: r, vs => let p := scatterRow r vs; (none :: p.1, p.2)
  | some _ :: r, [] => let p := scatterRow r []; (none :: p.1, p.2)
  | some _ :: r, v :: vs => let p := scatterRow r vs; (some v :: p.1, p.2)

def scatter : Mat → List Int → List (List (Option Int))
  | [], _ => []
  | r :: m, vs => let p := scatterRow r vs; p.1 :: scatter m p.2

/-- `node_indices = node_connectivity.compressed()`;
`_select_node_coordinates`: `coords[node_indices - start_index]`;
`u = masked_all(shape); u[~mask] = …` (the unmasked branch, flatten/reshape, is
the same computation with no masked position). -/
def boundsFromNodes (si : Nat) (conn : Mat) (coords : List Int) : List (List (Option Int)) :=
  let idx := vals conn
  let gathered := idx.map (fun v => coords.getD (v - si) 0)
  scatter conn gathered

/-! ### `normalise` -/

/-- `DomainTopology.normalise`, edge/face branch, `remove_empty_columns=False`:
`data[n, b] = np.unique(data[n, b], return_inverse=True)[1]`; `if start_index: data += 1`. -/
def normaliseNodes (oneBased : Bool) (m : Mat) : Mat :=
  let uniq := sortDedup (vals m)
  mapVals (fun v => uniq.idxOf v + (if oneBased then 1 else 0)) m

abbrev IRow := List (Option Int)
abbrev IMat := List IRow

/-- `data[:, 0]` (unmasked entries). -/
def firstCol (m : IMat) : List Int := m.filterMap (fun r => r.head?.join)

def arange (start : Int) (n : Nat) : List Int := (List.range n).map (fun (i : Nat) => start + Int.ofNat i)

/-- `np.ma.where(p(data), np.ma.masked, data)`. -/
def maskIf (p : Int → Bool) (m : IMat) : IMat :=
  m.map (fun r => r.map (fun o => o.bind (fun v => if p v then none else some v)))

/-- `data.max() > x` / `data.min() < x` as "some unmasked element satisfies p"
(an all-masked array gives `masked`, whose truth value is False). -/
def anyVal (p : Int → Bool) (m : IMat) : Bool := (vals m).any p

def insertSorted (x : Int) : List Int → List Int
  | [] => [x]
  | y :: t => if x ≤ y then x :: y :: t else y :: insertSorted x t

def sortInts (l : List Int) : List Int := l.foldr insertSorted []

/-- `data[:, 1:].sort(axis=1, endwith=True)`: every row keeps its first element;
the rest is sorted ascending with the masked elements last. -/
def sortTail (r : IRow) : IRow :=
  match r with
  | [] => []
  | h :: t => h :: ((sortInts (compressed t)).map some ++ List.replicate (t.length - (compressed t).length) none)

def sortTails (m : IMat) : IMat := m.map sortTail

/-- The loop `for i, j in zip(ids, range(-n_cells, 0)): copyto(data, j, where=data == i)`
seen from one element: it is compared with each id in turn and replaced. -/
def replSeqVal : List Int → Int → Int → Int
  | [], _, v => v
  | i :: is, j, v => replSeqVal is (j + 1) (if v = i then j else v)

/-- Smallest unmasked element (`data.min()`), `none` if all are masked. -/
def minVal (m : IMat) : Option Int :=
  match vals m with
  | [] => none
  | v :: vs => some (vs.foldr min v)

/-- The block "Remove redundant cell ids" shared by both branches:
`if data.max() > largest_id: data = where(data > largest_id, masked, data)`;
`if smallest_id is not None and data.min() < smallest_id: …`;
`if move_missing_values: data[:, 1:].sort(axis=1, endwith=True)`. -/
def clip (smallest : Option Int) (largest : Int) (d : IMat) : IMat :=
  let moved1 := anyVal (fun v => decide (v > largest)) d
  let d1 := if moved1 then maskIf (fun v => decide (v > largest)) d else d
  let moved2 := match smallest with
    | some lo => anyVal (fun v => decide (v < lo)) d1
    | none => false
  let d2 := match smallest with
    | some lo => if moved2 then maskIf (fun v => decide (v < lo)) d1 else d1
    | none => d1
  if moved1 || moved2 then sortTails d2 else d2

/-- `Topology._normalise_cell_ids(data, start_index, remove_empty_columns=False)`
for an array with at least one row whose first column is unmasked. -/
def normaliseCellIds (oneBased : Bool) (m : IMat) : IMat :=
  let ids := firstCol m
  let n := ids.length
  let zb := ids == arange 0 n
  let ob := ids == arange 1 n
  if zb || ob then
    -- not relabel: the ids are already 0..n-1 or 1..n; only the base may move
    let d := if oneBased && zb then mapVals (· + 1) m
             else if !oneBased && ob then mapVals (· - 1) m
             else m
    let ids' := firstCol d
    clip (some (ids'.head?.getD 0)) (ids'.getLast?.getD 0) d
  else
    -- relabel
    let d := match minVal m with
      | some dmin => if dmin < 0 then mapVals (· - dmin) m else m
      | none => m
    let ids' := firstCol d
    let d := mapVals (replSeqVal ids' (-(n : Int))) d
    let d := clip none (-1) d
    mapVals (· + ((n : Int) + (if oneBased then 1 else 0))) d

/-! ### Spec — what the property says, from the raw connectivity -/

/-- Zero-based node ids of one stored row: unmasked values minus `start_index`. -/
def specRow (si : Nat) (r : Row) : Row := r.map (fun o => o.map (· - si))

/-- Edge/face cells: node ids zero-based, padding masked. -/
def specCells (si : Nat) (conn : Mat) : Mat := conn.map (specRow si)

/-- `n` and `m` are cyclically consecutive in the node list `f` of a face
(position `i` and position `i+1`, the last wrapping to the first), in either
direction. -/
def AdjInFace (f : List Nat) (n m : Nat) : Prop :=
  ∃ i, i < f.length ∧
    ((f[i]? = some n ∧ f[(i + 1) % f.length]? = some m) ∨
     (f[i]? = some m ∧ f[(i + 1) % f.length]? = some n))

/-- `{n, m}` is an edge of some face of the mesh (zero-based ids). -/
def FaceEdge (si : Nat) (conn : Mat) (n m : Nat) : Prop :=
  ∃ r ∈ conn, AdjInFace (compressed (specRow si r)) n m

/-- `{n, m}` is an edge of the 1-d network (zero-based ids, `m ≠ n`). -/
def EdgeEdge (si : Nat) (conn : Mat) (n m : Nat) : Prop :=
  m ≠ n ∧ ∃ r ∈ conn, n ∈ compressed (specRow si r) ∧ m ∈ compressed (specRow si r)

def Neighbour (src : Src) (si : Nat) (conn : Mat) (n m : Nat) : Prop :=
  match src with
  | .faces => FaceEdge si conn n m
  | .edges => EdgeEdge si conn n m

/-- Cell connectivity: row `i` is cell `i` followed by the cells it touches,
zero-based, padding masked. -/
def specCellConnectivity (si : Nat) (data : Mat) : Mat :=
  (List.range data.length).map (fun i => some i :: specRow si (data.getD i []))

/-- Bounds: the node coordinates gathered through the connectivity. -/
def specBounds (si : Nat) (conn : Mat) (coords : List Int) : List (List (Option Int)) :=
  conn.map (fun r => r.map (fun o => o.map (fun v => coords.getD (v - si) 0)))

/-- `normalise` of point cells / a cell connectivity, as the documentation states it: the cell
whose identifier is `v` (the first element of some row) gets the number of that row, counted from
`base`; an identifier that is the first element of no row belongs to no cell of the array and has
no new value. -/
def relabelOf (ids : List Int) (base : Int) (v : Int) : Option Int :=
  if ids.idxOf v < ids.length then some (base + ((ids.idxOf v : Nat) : Int)) else none

/-- The unmasked values of row `k` (`[]` outside the array). -/
def rowVals {α} (m : List (List (Option α))) (k : Nat) : List α := compressed (m.getD k [])

/-- Every stored value is a valid node id for `nNodes` nodes and this `start_index`. -/
def WF (si nNodes : Nat) (conn : Mat) : Prop :=
  ∀ r ∈ conn, ∀ v, some v ∈ r → si ≤ v ∧ v < si + nNodes

end Cfdm.Ugrid
