import Cfdm.Model.NcNames
import Cfdm.Model.NcFile
import Cfdm.Model.NcWrite
/-
C08 — one whole `_write_field_or_domain` (netcdfwrite.py:3185) for an uncompressed field, and a
whole `write` of a list of fields: the per-field naming maps

    g['axis_to_ncdim']     domain axis  -> netCDF dimension
    g['axis_to_ncscalar']  domain axis  -> scalar coordinate variable
    g['key_to_ncvar']      construct    -> netCDF variable

how they are filled on the *create* path and on the *already in the file* path
(`_already_in_file`: an equal construct written for an earlier field, or earlier in this
field, is shared), and what the data variable says with them: its dimensions, its
`coordinates`, `cell_measures`, `ancillary_variables` and the axes of its `cell_methods`.

The writer's steps, in the order of the code:

1. for every domain axis (sorted keys):
   * a dimension coordinate exists: written as a coordinate variable when the data span
     the axis, or when `scalar=False`, or when another construct spans the axis (the axis
     is then inserted into the data); otherwise as a scalar coordinate variable
     (`_write_scalar_coordinate`: `axis_to_ncscalar`, listed in `coordinates`);
   * no dimension coordinate: the axis is inserted into the data when something other
     than 1-d auxiliary coordinates spans it; if the data (now) span it a netCDF dimension
     is found — a dimension of an earlier field with the same size and an equal construct
     at the same position (`ncdim_size_to_spanning_constructs`), or the named dimension of
     the same size that has no coordinate variable and no role, or a new one through
     `_netcdf_name`;
2. auxiliary coordinates (sorted keys): N-d, or spanning a data axis → a variable on
   `axis_to_ncdim[axes]`, listed in `coordinates`; otherwise a scalar coordinate variable;
3. cell measures (sorted keys) → `cell_measures`; field ancillaries → `ancillary_variables`;
4. the data variable: dimensions `axis_to_ncdim[a]` for the (final) data axes, the
   reference attributes, and `cell_methods` with every axis `a` replaced by
   `axis_map.get(a, a)` where `axis_map = axis_to_ncdim` updated with `axis_to_ncscalar`.

Which axes are inserted is decided by the code on the fly (`data_axes.append`); every axis
is visited once and the keys are distinct, so the decision for an axis never depends on an
earlier insertion: the model states it as a function of the field (`inserted`).  Each
`field_insert_dimension(position=0)` puts the axis in front: `finalDataAxes`.

Two repairs are modelled (`patched = true`), the code as it stands is `patched = false`:

* `fixes/C08-dimension-coordinate-name-from-dimension.patch` — a dimension coordinate with
  neither a netCDF variable name nor a standard name takes the netCDF dimension name of its
  axis *without* asking `_netcdf_name`: the name may be in use (the write then fails with
  "NetCDF: String match to name in use");
* `fixes/C08-equal-dimension-coordinates-one-field.patch` — a dimension coordinate equal to
  one already written is shared together with its dimension even when that dimension
  already belongs to another axis of the same field: the data variable gets the same
  dimension twice (CF 2.4: the dimensions of a variable must all have different names).

Outside this model: bounds (`NcWrite`), compression, geometries, domain ancillaries /
formula terms, grid mappings, external variables, groups, string-length dimensions.

`Content` stands for what `equal_components` compares (construct type, properties, data,
bounds): two constructs are equal iff they have the same type and content; a coordinate
squeezed to a scalar never equals a 1-d one (different shape): `squeezed`.

Core Lean only.
-/
namespace Cfdm.NcField
open Cfdm.NcNames Cfdm.NcFile Cfdm.NcWrite

inductive CType
  | dimCoord | aux | measure | fieldAnc
deriving Repr, DecidableEq

/-- An entry of `g['seen']`. -/
structure SeenE where
  ctype : CType
  content : Nat
  squeezed : Bool
  ncvar : String
  ncdims : List String
deriving Repr, DecidableEq

/-- An entry of `g['ncdim_size_to_spanning_constructs']`: `{(ncdim, size): {key: (construct, index)}}`. -/
structure SpanE where
  ncdim : String
  size : Nat
  cons : List (CType × Nat × Nat)
deriving Repr, DecidableEq

/-- The state of a whole write. -/
structure WS where
  w : W := {}
  seen : List SeenE := []
  spans : List SpanE := []
  /-- dimensions created unlimited (what the file shows) -/
  unlimited : List String := []
  /-- `g['unlimited_ncdims']` (dimensions created for an axis without dimension coordinate) -/
  unlimNcdims : List String := []
deriving Repr, DecidableEq

structure DimC where
  key : String
  content : Nat
  /-- `nc_get_variable`, else the standard name -/
  name : Option String := none
deriving Repr, DecidableEq

structure Axis where
  key : String
  size : Nat
  ncdim : Option String := none
  unlimited : Bool := false
  dimCoord : Option DimC := none
deriving Repr, DecidableEq

/-- A metadata construct with data other than a dimension coordinate. -/
structure Cons where
  key : String
  ctype : CType
  content : Nat
  name : Option String := none
  measure : String := ""
  axes : List String
deriving Repr, DecidableEq

structure AField where
  /-- `nc_get_variable`, else the standard name -/
  name : Option String := none
  axes : List Axis
  dataAxes : List String
  cons : List Cons
  /-- the axes of every cell method, in order -/
  cellMethods : List (List String) := []
deriving Repr, DecidableEq

structure Opts where
  scalar : Bool := true
  coordinates : Bool := false
deriving Repr, DecidableEq

/-- The per-field maps (reset for every field). -/
structure FS where
  a2d : List (String × String) := []
  a2s : List (String × String) := []
  k2v : List (String × String) := []
  coords : List String := []
  newSpans : List SpanE := []
deriving Repr, DecidableEq

/-- `dict.get` on a map kept newest first. -/
def lookup (k : String) (l : List (String × String)) : Option String := (l.find? (·.1 == k)).map (·.2)

def values (l : List (String × String)) : List String := l.map (·.2)

/-! ## What the field decides by itself -/

def AField.axisKeys (f : AField) : List String := f.axes.map (·.key)

/-- `get_constructs(f, axes=[axis])` less the dimension coordinate. -/
def spanning (f : AField) (a : String) : List Cons := f.cons.filter (·.axes.contains a)

/-- A 1-d auxiliary coordinate on exactly this axis. -/
def isAux1 (c : Cons) (a : String) : Bool := c.ctype == .aux && c.axes == [a]

/-- `field_insert_dimension` happens for this axis. -/
def inserted (o : Opts) (f : AField) (a : Axis) : Bool :=
  !f.dataAxes.contains a.key &&
  match a.dimCoord with
  | some _ => !o.scalar || !(spanning f a.key).isEmpty
  | none => (spanning f a.key).any (fun c => !isAux1 c a.key)

/-- `get_field_data_axes(f)` after all the insertions. -/
def finalDataAxes (o : Opts) (f : AField) : List String :=
  ((f.axes.filter (inserted o f)).map (·.key)).reverse ++ f.dataAxes

def inFinal (o : Opts) (f : AField) (a : String) : Bool := (finalDataAxes o f).contains a

/-! ## The writer -/

/-- `_already_in_file(variable, ncdims)`: the first entry of `seen` with these netCDF dimensions
(when given) whose variable equals this one. -/
def alreadyInFile (seen : List SeenE) (t : CType) (c : Nat) (sq : Bool) (ncdims : Option (List String)) : Option SeenE :=
  seen.find? (fun e =>
    (match ncdims with | none => true | some ds => e.ncdims == ds) && e.ctype == t && e.content == c && e.squeezed == sq)

/-- `_create_netcdf_variable_name` + `_write_netcdf_variable`: a fresh name, the variable. -/
def createVar (ws : WS) (base : String) (dims : List String) (refs : List Ref) (isData : Bool) : Option (String × WS) :=
  match reqName ws.w base none none with
  | none => none
  | some (n, _, w1) =>
    match emit w1 (.var { name := n, dims := dims, refs := refs, isData := isData }) with
    | none => none
    | some w2 => some (n, { ws with w := w2 })

/-- `_write_dimension(ncdim, f, axis, unlimited)`. -/
def writeDimension (ws : WS) (fs : FS) (n : String) (a : Axis) : Option (WS × FS) :=
  match emitDim ws.w n a.size with
  | none => none
  | some w' =>
    some ({ ws with w := w', unlimited := if a.unlimited then n :: ws.unlimited else ws.unlimited },
          { fs with a2d := (a.key, n) :: fs.a2d })

/-- The name of a new coordinate variable: the coordinate's own, else the netCDF dimension name
of the axis (as it stands: *not* through `_netcdf_name`), else `coordinate`. -/
def dimCoordName (patched : Bool) (ws : WS) (a : Axis) (dc : DimC) : Option (String × WS) :=
  let fresh (b : String) : Option (String × WS) :=
    (reqName ws.w b none none).map (fun r => (r.1, { ws with w := r.2.2 }))
  match dc.name with
  | some b => fresh b
  | none =>
    match a.ncdim with
    | some d => if patched then fresh d else some (d, ws)
    | none => fresh "coordinate"

/-- The decision at the top of `_write_dimension_coordinate`: share the variable of an equal
coordinate already in the file (its name, and `ncdims[0]` — `none` when there is none: the
code then raises `IndexError`), or create (`none`). -/
def sharedDimCoord (patched : Bool) (fs : FS) (hit : Option SeenE) : Option (String × Option String) :=
  match hit with
  | none => none
  | some e =>
    match e.ncdims with
    | [] => some (e.ncvar, none)
    | d :: _ =>
      if e.ncvar != d then none
      else if patched && (values fs.a2d).contains d then none
      else some (e.ncvar, some d)

/-- The creation branch: name, dimension, coordinate variable, `seen`. -/
def createDimCoord (patched : Bool) (o : Opts) (ws : WS) (fs : FS) (a : Axis) (dc : DimC) : Option (WS × FS) :=
  match dimCoordName patched ws a dc with
  | none => none
  | some (n, ws1) =>
    match writeDimension ws1 fs n a with
    | none => none
    | some (ws2, fs2) =>
      match emit ws2.w (.var { name := n, dims := [n] }) with
      | none => none
      | some w3 =>
        some ({ ws2 with w := w3, seen := ws2.seen ++ [⟨.dimCoord, dc.content, false, n, [n]⟩] },
              { fs2 with k2v := (dc.key, n) :: fs2.k2v,
                         coords := if o.coordinates then fs2.coords ++ [n] else fs2.coords })

/-- `_write_dimension_coordinate`. -/
def writeDimCoord (patched : Bool) (o : Opts) (ws : WS) (fs : FS) (a : Axis) (dc : DimC) : Option (WS × FS) :=
  match sharedDimCoord patched fs (alreadyInFile ws.seen .dimCoord dc.content false none) with
  | some (_, none) => none
  | some (n, some d) =>
    some (ws, { fs with a2d := (a.key, d) :: fs.a2d, k2v := (dc.key, n) :: fs.k2v,
                        coords := if o.coordinates then fs.coords ++ [n] else fs.coords })
  | none => createDimCoord patched o ws fs a dc

/-- `_write_scalar_coordinate` for the coordinate `key` (type `t`) of axis `akey`. -/
def writeScalarCoord (ws : WS) (fs : FS) (akey key : String) (t : CType) (content : Nat) (name : Option String) :
    Option (WS × FS) :=
  match alreadyInFile ws.seen t content true (some []) with
  | some e =>
    some (ws, { fs with a2s := (akey, e.ncvar) :: fs.a2s, k2v := (key, e.ncvar) :: fs.k2v, coords := fs.coords ++ [e.ncvar] })
  | none =>
    match createVar ws (name.getD "scalar") [] [] false with
    | none => none
    | some (n, ws1) =>
      some ({ ws1 with seen := ws1.seen ++ [⟨t, content, true, n, []⟩] },
            { fs with a2s := (akey, n) :: fs.a2s, k2v := (key, n) :: fs.k2v, coords := fs.coords ++ [n] })

/-- Position of an axis among the axes of a construct (`axes.index(axis)`). -/
def indexOf (a : String) : List String → Nat
  | [] => 0
  | x :: xs => if x == a then 0 else indexOf a xs + 1

/-- The spanning constructs of an axis with the position of the axis in each. -/
def spanInfo (f : AField) (a : String) : List (CType × Nat × Nat) :=
  (spanning f a).map (fun c => (c.ctype, c.content, indexOf a c.axes))

/-- The loop over `g['ncdim_size_to_spanning_constructs']`: a dimension of an earlier field of
this size, not yet used by this field, with an equal construct at the same position. -/
def findSpan (spans : List SpanE) (size : Nat) (used : List String) (info : List (CType × Nat × Nat)) : Option String :=
  (spans.find? (fun s => s.size == size && !used.contains s.ncdim && info.any (fun i => s.cons.contains i))).map (·.ncdim)

/-- The axis names a dimension that is already in the dataset and can be used as it is. -/
def namedDimUsable (ws : WS) (fs : FS) (a : Axis) : Option String :=
  match a.ncdim with
  | none => none
  | some d =>
    if a.unlimited == ws.unlimNcdims.contains d
      && ws.w.names.dimSize d == some a.size
      && !(values fs.a2d).contains d
      && !ws.seen.any (·.ncvar == d)
      && !ws.w.names.roles.any (·.2.contains d)
    then some d else none

/-- A dimension already in the dataset that the axis can use: `use_existing_dimension`, else the
named dimension. -/
def reuseDim (ws : WS) (fs : FS) (f : AField) (a : Axis) : Option String :=
  match (if (spanInfo f a.key).isEmpty then none else findSpan ws.spans a.size (values fs.a2d) (spanInfo f a.key)) with
  | some d => some d
  | none => namedDimUsable ws fs a

/-- An axis that the data span and that has no dimension coordinate. -/
def writePlainAxis (ws : WS) (fs : FS) (f : AField) (a : Axis) : Option (WS × FS) :=
  match reuseDim ws fs f a with
  | some d => some (ws, { fs with a2d := (a.key, d) :: fs.a2d })
  | none =>
    match reqName ws.w (a.ncdim.getD "dim") none none with
    | none => none
    | some (n, _, w1) =>
      match writeDimension { ws with w := w1 } fs n a with
      | none => none
      | some (ws2, fs2) =>
        some ({ ws2 with unlimNcdims := if a.unlimited then n :: ws2.unlimNcdims else ws2.unlimNcdims },
              { fs2 with newSpans := fs2.newSpans ++ [⟨n, a.size, spanInfo f a.key⟩] })

/-- One turn of the loop over the domain axes. -/
def stepAxis (patched : Bool) (o : Opts) (f : AField) (ws : WS) (fs : FS) (a : Axis) : Option (WS × FS) :=
  match a.dimCoord with
  | some dc =>
    if inFinal o f a.key then writeDimCoord patched o ws fs a dc
    else writeScalarCoord ws fs a.key dc.key .dimCoord dc.content dc.name
  | none =>
    if inFinal o f a.key then writePlainAxis ws fs f a else some (ws, fs)

def stepAxes (patched : Bool) (o : Opts) (f : AField) : WS → FS → List Axis → Option (WS × FS)
  | ws, fs, [] => some (ws, fs)
  | ws, fs, a :: as =>
    match stepAxis patched o f ws fs a with
    | none => none
    | some (ws', fs') => stepAxes patched o f ws' fs' as

def defaultName : CType → String
  | .dimCoord => "coordinate"
  | .aux => "auxiliary"
  | .measure => "cell_measure"
  | .fieldAnc => "ancillary_data"

/-- `[axis_to_ncdim[axis] for axis in axes]` (`KeyError` = `none`). -/
def ncdimsOf (fs : FS) : List String → Option (List String)
  | [] => some []
  | a :: as =>
    match lookup a fs.a2d, ncdimsOf fs as with
    | some d, some ds => some (d :: ds)
    | _, _ => none

/-- `_write_auxiliary_coordinate` / `_write_cell_measure` / `_write_field_ancillary`: the variable
is shared when an equal construct on the same netCDF dimensions is in the file. -/
def writeCons (ws : WS) (fs : FS) (c : Cons) : Option (String × WS × FS) :=
  match ncdimsOf fs c.axes with
  | none => none
  | some ds =>
    match alreadyInFile ws.seen c.ctype c.content false (some ds) with
    | some e => some (e.ncvar, ws, { fs with k2v := (c.key, e.ncvar) :: fs.k2v })
    | none =>
      match createVar ws (c.name.getD (defaultName c.ctype)) ds [] false with
      | none => none
      | some (n, ws1) =>
        some (n, { ws1 with seen := ws1.seen ++ [⟨c.ctype, c.content, false, n, ds⟩] },
              { fs with k2v := (c.key, n) :: fs.k2v })

/-- The reference a construct contributes to the data variable. -/
def refOf (c : Cons) (n : String) : Ref :=
  match c.ctype with
  | .measure => ⟨.cellMeasures, n⟩
  | .fieldAnc => ⟨.ancillary, n⟩
  | _ => ⟨.coordinates, n⟩

/-- Auxiliary coordinates, then cell measures, then field ancillaries (the caller gives them in
that order); `refs` collects `cell_measures` and `ancillary_variables`. -/
def stepCons (o : Opts) (f : AField) : WS → FS → List Ref → List Cons → Option (WS × FS × List Ref)
  | ws, fs, refs, [] => some (ws, fs, refs)
  | ws, fs, refs, c :: cs =>
    if c.ctype == .aux then
      match c.axes with
      | [a] =>
        if inFinal o f a then
          match writeCons ws fs c with
          | none => none
          | some (n, ws', fs') => stepCons o f ws' { fs' with coords := fs'.coords ++ [n] } refs cs
        else
          match writeScalarCoord ws fs a c.key .aux c.content c.name with
          | none => none
          | some (ws', fs') => stepCons o f ws' fs' refs cs
      | _ =>
        match writeCons ws fs c with
        | none => none
        | some (n, ws', fs') => stepCons o f ws' { fs' with coords := fs'.coords ++ [n] } refs cs
    else
      match writeCons ws fs c with
      | none => none
      | some (n, ws', fs') => stepCons o f ws' fs' (refs ++ [refOf c n]) cs

/-- `axis_map.get(axis, axis)` with `axis_map = axis_to_ncdim` updated by `axis_to_ncscalar`. -/
def cmToken (fs : FS) (a : String) : String :=
  match lookup a fs.a2s with
  | some t => t
  | none => (lookup a fs.a2d).getD a

/-- What a field's write leaves for inspection. -/
structure Info where
  ncvar : String
  dims : List String
  coords : List String
  cmTokens : List (List String)
  fs : FS
deriving Repr, DecidableEq

/-- `_write_field_or_domain` for a field. -/
def writeField (patched : Bool) (o : Opts) (ws : WS) (f : AField) : Option (Info × WS) :=
  match stepAxes patched o f ws {} f.axes with
  | none => none
  | some (ws1, fs1) =>
    match stepCons o f ws1 fs1 [] f.cons with
    | none => none
    | some (ws2, fs2, refs) =>
      match ncdimsOf fs2 (finalDataAxes o f) with
      | none => none
      | some dims =>
        let cm := f.cellMethods.map (·.map (cmToken fs2))
        let allRefs := refs ++ fs2.coords.map (fun n => ⟨.coordinates, n⟩) ++ cm.flatten.map (fun t => ⟨.cellMethodAxis, t⟩)
        match createVar ws2 (f.name.getD "data") dims allRefs true with
        | none => none
        | some (n, ws3) =>
          some (⟨n, dims, fs2.coords, cm, fs2⟩, { ws3 with spans := ws3.spans ++ fs2.newSpans })

/-- `write(fields)`. -/
def writeFields (patched : Bool) (o : Opts) : WS → List AField → Option (List Info × WS)
  | ws, [] => some ([], ws)
  | ws, f :: fs =>
    match writeField patched o ws f with
    | none => none
    | some (i, ws') =>
      match writeFields patched o ws' fs with
      | none => none
      | some (is, ws'') => some (i :: is, ws'')

/-! ## The fields the theorems speak about (decidable) -/

def nodup (l : List String) : Bool := distinct l

/-- The axis has something an encoding can hang on: the data span it, it has a dimension
coordinate, or some construct spans it. -/
def covered (f : AField) (a : Axis) : Bool :=
  f.dataAxes.contains a.key || a.dimCoord.isSome || !(spanning f a.key).isEmpty

def FieldOK (f : AField) : Bool :=
  nodup f.axisKeys
  && nodup f.dataAxes
  && f.dataAxes.all (f.axisKeys.contains ·)
  && f.cons.all (fun c => c.ctype != .dimCoord && !c.axes.isEmpty && c.axes.all (f.axisKeys.contains ·))
  && f.cellMethods.all (·.all (fun a => a == "area" || f.axes.any (fun x => x.key == a && covered f x)))

end Cfdm.NcField
