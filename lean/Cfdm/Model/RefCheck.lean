/-
C13 — the reader's reference checking (cfdm/read_write/netcdf/netcdfread.py).

Executable model (core Lean only) of what `NetCDFRead.read` decides for every reference
attribute of a group-free, UGRID-free, subsampling-free dataset:

* the tokenisers `_split_string_by_white_space`, `_parse_x`, `_parse_cell_methods`;
* the pre-scan (`compress` list variables, DSG `sample_dimension` / `instance_dimension`,
  geometry containers, `external_variables`) and `_ncdimensions`;
* `_create_field_or_domain` for every variable in file order with the caches that are shared
  between fields (`g['dimension_coordinate']`, `g['auxiliary_coordinate']`,
  `g['domain_ancillary']`, `g['component_report']`) and every `_check_*` decision;
* every dictionary look-up keyed by a name that was taken from an attribute is PARTIAL
  (`Except Err`) exactly where the Python indexes without a guard;
* `_add_message` (who gets the message: the parent variable and the component report);
* `file_close` on the exit paths.

`Cfg` selects between the reader before the C13 repairs (`coded`), the reader at /repo HEAD
(`head`: the eight earlier repairs and 7931fa5 are merged) and HEAD plus the proposed, not yet merged
patches `fixes/C13-*.patch` that concern the model (`patched`); the theorems are about `patched`
(several about every `Cfg`), the counter-examples about `head` and `coded`.
-/
namespace Cfdm.RefCheck

inductive Err | keyError | indexError | valueError | attributeError
  deriving DecidableEq, Repr

def Err.name : Err → String
  | .keyError => "KeyError" | .indexError => "IndexError"
  | .valueError => "ValueError" | .attributeError => "AttributeError"

/-- Which of the proposed patches are applied. -/
structure Cfg where
  guardFT : Bool      -- formula terms: unmapped variables are skipped instead of indexed
  ftEach : Bool       -- `_check_formula_terms` runs for every parent, not only the first
  guardCM : Bool      -- truncated cell_methods strings are reported instead of IndexError
  geomFix : Bool      -- geometry containers: dimension checks, failed containers forgotten
  perToken : Bool     -- cell_measures / ancillary_variables / grid_mapping checked per entry
  auxReport : Bool    -- a cached auxiliary coordinate brings its component report along
  closeOnError : Bool -- files are closed when reading raises
  charFix : Bool      -- `_dimensions_are_subset` without the char-array exception
  vcrsPerField : Bool -- `g['vertical_crs']` is emptied at the start of every field (7931fa5)
  -- proposed, not merged (fixes/C13-*.patch):
  cmAttr : Bool       -- every cell-method-interval message quotes the `cell_methods` attribute
  gmReport : Bool     -- a grid mapping coordinate that is not a coordinate of the data variable is reported
  nodesComp : Bool    -- node coordinate problems are filed under the coordinate, hence copied with it
  auxGeomKey : Bool   -- a cached auxiliary coordinate is re-used only under the same geometry container
  deriving DecidableEq, Repr

/-- The reader at /repo HEAD plus the four proposed patches fixes/C13-cell-method-interval-attribute,
-grid-mapping-coordinate-not-used, -node-coordinates-report-with-coordinate and
-auxiliary-coordinate-cache-per-geometry. -/
def patched : Cfg := ⟨true, true, true, true, true, true, true, true, true, true, true, true, true⟩
/-- The reader at /repo HEAD: the first eight C13 patches have been merged (7b28365, 1b77cae, ff51328,
a2825bb, 3d11366, abceba4, 6faacb8, and 5f7d1ae for closing on error), and 7931fa5 (C09) made
`g['vertical_crs']` per-field state. -/
def head : Cfg := { patched with cmAttr := false, gmReport := false, nodesComp := false, auxGeomKey := false }
/-- HEAD before 7931fa5: the vertical coordinate references leak from one field to the next. -/
def leakyVcrs : Cfg := { head with vcrsPerField := false }
def coded : Cfg := ⟨false, false, false, false, false, false, false, false, false, false, false, false, false⟩

inductive Kind | num | str | chr
  deriving DecidableEq, Repr

structure NcVar where
  name : String
  dims : List String
  kind : Kind
  attrs : List (String × String)
  deriving Repr, DecidableEq

structure NcFile where
  globals : List (String × String)
  dims : List String
  vars : List NcVar
  deriving Repr

def NcFile.var? (F : NcFile) (n : String) : Option NcVar := F.vars.find? (fun v => v.name == n)
def NcFile.hasVar (F : NcFile) (n : String) : Bool := (F.var? n).isSome
def NcFile.hasDim (F : NcFile) (d : String) : Bool := F.dims.contains d
def NcVar.attr? (v : NcVar) (a : String) : Option String := v.attrs.lookup a
def NcVar.isChar (v : NcVar) : Bool := v.kind == .chr
def NcVar.isCharOrString (v : NcVar) : Bool := v.kind != .num

/-- A dictionary look-up that the Python performs without a guard. -/
def getOr {α} (e : Err) : Option α → Except Err α
  | some a => .ok a
  | none => .error e

def mapE {α β} (f : α → Except Err β) : List α → Except Err (List β)
  | [] => .ok []
  | a :: as => match f a with
    | .error e => .error e
    | .ok b => match mapE f as with
      | .error e => .error e
      | .ok bs => .ok (b :: bs)

/-! ## Tokenisers -/

def isWS (c : Char) : Bool :=
  c == ' ' || c == '\t' || c == '\n' || c == '\r' || c == '\x0b' || c == '\x0c'

/-- `str.split()` on characters. -/
def splitAux : List Char → List Char → List (List Char)
  | [], cur => if cur.isEmpty then [] else [cur.reverse]
  | c :: cs, cur =>
    if isWS c then (if cur.isEmpty then splitAux cs [] else cur.reverse :: splitAux cs [])
    else splitAux cs (c :: cur)

/-- `_split_string_by_white_space` (no groups). -/
def splitWS (s : String) : List String := (splitAux s.toList []).map String.ofList

def endsWithC (c : Char) (s : String) : Bool := s.toList.getLast? == some c
def dropLastChar (s : String) : String := String.ofList s.toList.dropLast

def isWordChar (c : Char) : Bool := c.isAlphanum || c == '_' || c == '#'

inductive XTok | key (w : String) | val (w : String) | bad
  deriving DecidableEq, Repr

def classify (t : List Char) : XTok :=
  if !t.isEmpty && t.all isWordChar then .val (String.ofList t)
  else if t.getLast? == some ':' && !t.dropLast.isEmpty && t.dropLast.all isWordChar then
    .key (String.ofList t.dropLast)
  else .bad

def groupStep (acc : Option (List (String × List String))) (t : XTok) :
    Option (List (String × List String)) :=
  match acc, t with
  | none, _ => none
  | some gs, .key k => (match gs with
      | (_, []) :: _ => none
      | _ => some ((k, []) :: gs))
  | some gs, .val w => (match gs with
      | (k, vs) :: rest => some ((k, vs ++ [w]) :: rest)
      | [] => none)
  | some _, .bad => none

/-- `(WORD: (WORD )+)+` over classified tokens. -/
def groupX (ts : List XTok) : Option (List (String × List String)) :=
  match ts.foldl groupStep (some []) with
  | some gs => if gs.isEmpty || gs.any (fun g => g.2.isEmpty) then none else some gs.reverse
  | none => none

/-- `_parse_x`: `[]` when the regular expression does not match. -/
def parseX (s : String) : List (String × List String) :=
  let cs := s.toList
  match cs with
  | [] => []
  | c :: _ =>
    if isWS c then [] else
    match splitAux cs [] with
    | [t] => (match classify t with
        | .val w => if (cs.getLast?.map isWS).getD false then [] else [(w, [])]
        | _ => [])
    | toks => (groupX (toks.map classify)).getD []

/-! ### `_parse_cell_methods` -/

def cmPass1 : List Char → List Char
  | [] => []
  | c :: rest =>
    if c == '(' then
      match rest with
      | [] => [c]
      | d :: _ => if isWS d then c :: cmPass1 rest else c :: ' ' :: cmPass1 rest
    else c :: cmPass1 rest

def cmPass2 (prev : Option Char) : List Char → List Char
  | [] => []
  | c :: rest =>
    if c == ')' then
      (match prev with
        | some p => if isWS p then [c] else [' ', c]
        | none => [c]) ++ cmPass2 (some c) rest
    else c :: cmPass2 (some c) rest

def cmTokens (s : String) : List String :=
  (splitAux (cmPass2 none (cmPass1 s.toList)) []).map String.ofList

def isKw (t : String) : Bool := t == "within" || t == "where" || t == "over"

/-- `while cell_methods[0] in ('within','where','over')`; `none` = IndexError. -/
def cmQuals : Nat → List String → Option (List String)
  | 0, ts => some ts
  | _ + 1, [] => some []
  | f + 1, t :: ts =>
    if isKw t then
      match ts with
      | [] => none
      | _ :: r => if r.isEmpty then some [] else cmQuals f r
    else some (t :: ts)

def isDigits (cs : List Char) : Bool := !cs.isEmpty && cs.all Char.isDigit

/-- The interval strings `ast.literal_eval` accepts, restricted to plain numbers. -/
def isLiteral (s : String) : Bool :=
  let cs := s.toList
  let cs := match cs with | '-' :: r => r | '+' :: r => r | _ => cs
  match cs.span Char.isDigit with
  | (a, []) => !a.isEmpty
  | (a, '.' :: b) => (!a.isEmpty || !b.isEmpty) && b.all Char.isDigit
  | _ => false

inductive PR | idx | bad | ok (rest : List String) (n : Nat)

def dropComment (ts : List String) : List String :=
  ts.dropWhile (fun t => !(endsWithC ')' t) && !(endsWithC ':' t))

/-- The parenthesised part, after the opening token. -/
def cmParen : Nat → List String → Nat → PR
  | 0, _, _ => .idx
  | _ + 1, [], _ => .idx
  | f + 1, t :: ts, n =>
    if t == ")" then .ok ts n
    else
      let term := dropLastChar t
      if term == "interval" then
        match ts with
        | [] => .idx
        | iv :: ts1 =>
          match ts1 with
          | [] => .idx
          | u :: ts2 =>
            let rest := if u != ")" then ts2 else ts1
            if !isLiteral iv then .bad else cmParen f rest (n + 1)
      else if term == "comment" then cmParen f (dropComment ts) n
      else cmParen f ts n

/-- `bad attr`: a cell method interval was rejected; `attr` = the message quotes the attribute (the
`literal_eval` site passes no `attribute=`). -/
inductive CMOut | ok (n : Nat) | bad (attr : Bool) | indexError
  deriving DecidableEq, Repr

def cmMain : Nat → List String → Nat → CMOut
  | 0, _, n => .ok n
  | _ + 1, [], n => .ok n
  | f + 1, t :: ts0, n =>
    let (axes, rest) := (t :: ts0).span (endsWithC ':')
    match rest with
    | [] => .ok (n + 1)
    | _ :: rest1 =>
      if rest1.isEmpty then .ok (n + 1) else
      match cmQuals rest1.length rest1 with
      | none => .indexError
      | some [] => .ok (n + 1)
      | some (h :: rest3) =>
        if endsWithC '(' h then
          match rest3 with
          | [] => .indexError
          | h2 :: _ =>
            let rest4 := if h2 == "interval:" || h2 == "comment:" then rest3 else "comment:" :: rest3
            match cmParen (rest4.length + 1) rest4 0 with
            | .idx => .indexError
            | .bad => .bad false
            | .ok rest5 k => if k > 1 && k != axes.length then .bad true else cmMain f rest5 (n + 1)
        else cmMain f (h :: rest3) (n + 1)

def cmRun (s : String) : CMOut :=
  if s.toList.isEmpty then .ok 0 else
  let ts := cmTokens s
  cmMain (ts.length + 1) ts 0

/-- `_parse_cell_methods`: number of cell methods and whether a message was recorded. -/
def parseCellMethods (cfg : Cfg) (s : String) : Except Err (Nat × Bool) :=
  match cmRun s with
  | .ok n => .ok (n, false)
  | .bad _ => .ok (0, true)
  | .indexError => if cfg.guardCM then .ok (0, true) else .error .indexError

/-! ## Messages, compression, the pre-scan -/

/-- One `_add_message(parent, ncvar, message=, attribute=, variable=)` call: the component
(`variable=`, the key of `g['component_report']`) it is filed under, the attribute name, and what the
entry of `dataset_compliance()[parent]['non-compliance']` says: its key `ncvar` (`var`), the key of its
`attribute` dictionary (`attr`, e.g. `ta:coordinates`; empty = `attribute=None`) and its `reason`
(the two halves of `message=` joined by a blank). -/
structure Msg where
  comp : String
  tag : String
  var : String := comp
  attr : String := ""
  reason : String := ""
  deriving DecidableEq, Repr

/-- The message that `_parse_cell_methods` records for the data variable `v`. -/
def cellMethodsMsgs (cfg : Cfg) (v s : String) : List Msg :=
  match cmRun s with
  | .ok _ => []
  | .bad false => [⟨v, "cell_methods", v, if cfg.cmAttr then v ++ ":cell_methods" else "",
                    "Cell method interval is incorrectly formatted"⟩]
  | .bad true => [⟨v, "cell_methods", v, v ++ ":cell_methods", "Cell method interval is incorrectly formatted"⟩]
  | .indexError => [⟨v, "cell_methods", v, v ++ ":cell_methods", "cell_methods attribute is incorrectly formatted"⟩]

/-- A message filed under its own `ncvar` whose attribute is `owner:tag`. -/
def mkMsg (var owner tag reason : String) : Msg := ⟨var, tag, var, owner ++ ":" ++ tag, reason⟩

/-- The same with `variable=comp`. -/
def mkMsgC (comp var owner tag reason : String) : Msg := ⟨comp, tag, var, owner ++ ":" ++ tag, reason⟩

inductive CompKind | gathered | ric | rc | ri
  deriving DecidableEq, Repr

structure Comp where
  dim : String
  kind : CompKind
  implied : List String
  deriving Repr

structure Geom where
  name : String
  complete : Bool             -- `node_coordinates` / `geometry_dimension` keys were set
  nodeCoords : List String
  geomDim : String
  nodeDim : String := ""
  deriving Repr

structure Pre where
  comp : List Comp := []
  newDims : List String := []
  noField : List String := []
  geoms : List Geom := []
  varGeom : List (String × String) := []
  external : List String := []
  msgs : List (Option String × Msg) := []   -- parent `None` = dataset level
  deriving Repr

def compFor (comp : List Comp) (d : String) : Option Comp :=
  let cs := comp.filter (fun c => c.dim == d)
  (cs.find? (fun c => c.kind == .gathered)).orElse fun _ =>
  (cs.find? (fun c => c.kind == .ric)).orElse fun _ =>
  (cs.find? (fun c => c.kind == .rc)).orElse fun _ =>
  cs.find? (fun c => c.kind == .ri)

def applyComp (comp : List Comp) : List String → List String
  | [] => []
  | d :: ds => match compFor comp d with
    | some c => c.implied ++ ds
    | none => d :: applyComp comp ds

def rawDims (v : NcVar) : List String :=
  if v.isChar && v.dims.length ≥ 1 then v.dims.dropLast else v.dims

/-- `_ncdimensions(ncvar)`; `none` = `g['variables'][ncvar]` KeyError. -/
def ncdims? (F : NcFile) (P : Pre) (n : String) : Option (List String) :=
  (F.var? n).map (fun v => applyComp P.comp (rawDims v))

def ncdims (F : NcFile) (P : Pre) (n : String) : Except Err (List String) :=
  getOr .keyError (ncdims? F P n)

/-- `_dimensions_are_subset`.  As coded a char array may keep one dimension that the parent does not
have (the string-length dimension, which `_ncdimensions` has in fact already removed). -/
def dimsSubset (cfg : Cfg) (v : NcVar) (dims parent : List String) : Bool :=
  dims.all parent.contains || (!cfg.charFix && v.isChar && dims.dropLast.all parent.contains)

/-- `_new_ncdimension(base)`: first of base, base_1, base_2, … that names nothing. -/
def newDimAux (used : List String) (base : String) : Nat → Nat → String
  | 0, n => base ++ "_" ++ toString n
  | f + 1, n =>
    let cand := if n == 0 then base else base ++ "_" ++ toString n
    if used.contains cand then newDimAux used base f (n + 1) else cand

def newDim (F : NcFile) (P : Pre) (base : String) : String :=
  let used := F.dims ++ P.newDims ++ F.vars.map (·.name)
  newDimAux used base (used.length + 1) 0

def lower (s : String) : String := String.ofList (s.toList.map Char.toLower)

def contigBase (ft : String) : String :=
  let f := lower ft
  if f == "timeseries" || f == "trajectory" || f == "profile" then f
  else if f == "timeseriesprofile" || f == "trajectoryprofile" then "profile" else "element"

def indexedBase (ft : String) : String :=
  let f := lower ft
  if f == "timeseries" || f == "trajectory" || f == "profile" then f
  else if f == "timeseriesprofile" then "timeseries"
  else if f == "trajectoryprofile" then "trajectory" else "element"

/-- Gathered list variables. -/
def scanGathered (F : NcFile) (P : Pre) : Pre :=
  F.vars.foldl (fun P v =>
    if v.dims == [v.name] then
      match v.attr? "compress" with
      | none => P
      | some c =>
        let parsed := splitWS c
        let P := { P with noField := P.noField ++ [v.name] }
        if parsed.isEmpty then
          { P with msgs := P.msgs ++ [(none, mkMsg v.name v.name "compress" "compress attribute is incorrectly formatted")] }
        else
          let bad := parsed.filter (fun d => !F.hasDim d)
          if bad.isEmpty then { P with comp := P.comp ++ [⟨v.name, .gathered, parsed⟩] }
          else
            let m := mkMsg v.name v.name "compress" "Compressed dimension is not in file"
            { P with msgs := P.msgs ++ bad.map (fun _ => (none, m)) }
    else P) P

def instMissing (v : String) : Msg := mkMsg v v "instance_dimension" "Instance dimension is not in file"

structure DsgSt where
  P : Pre
  sample : Option String := none
  inst : Option String := none

/-- DSG count and index variables (only with a `featureType`). -/
def scanDsg (F : NcFile) (P : Pre) : Except Err Pre :=
  match F.globals.lookup "featureType" with
  | none => .ok P
  | some ft => do
    let s1 ← F.vars.foldlM (fun (st : DsgSt) v =>
      match v.attr? "sample_dimension" with
      | none => pure st
      | some sd =>
        if F.hasDim sd then do
          let inst ← getOr .indexError v.dims.head?
          let el := newDim F st.P (contigBase ft)
          pure { st with
            P := { st.P with comp := st.P.comp ++ [⟨sd, .rc, [inst, el]⟩], newDims := st.P.newDims ++ [el],
                             noField := st.P.noField ++ [v.name] },
            sample := some sd }
        else pure { st with sample := none }) ({ P := P } : DsgSt)
    let s2 ← F.vars.foldlM (fun (st : DsgSt) v =>
      match v.attr? "instance_dimension" with
      | none => pure st
      | some idim =>
        if F.hasDim idim then do
          let d0 ← getOr .indexError v.dims.head?
          let el := newDim F st.P (indexedBase ft)
          pure { st with
            P := { st.P with comp := st.P.comp ++ [⟨d0, .ri, [idim, el]⟩], newDims := st.P.newDims ++ [el],
                             noField := st.P.noField ++ [v.name] },
            inst := some idim }
        else pure { st with
            P := { st.P with msgs := st.P.msgs ++ [(none, instMissing v.name)] }, inst := none }) s1
    match s2.sample, s2.inst with
    | some sd, some idim => do
      let rc ← getOr .keyError ((s2.P.comp.filter (fun c => c.dim == sd)).find? (fun c => c.kind == .rc))
      let prof ← getOr .indexError rc.implied.head?
      let ri ← getOr .keyError ((s2.P.comp.filter (fun c => c.dim == prof)).find? (fun c => c.kind == .ri))
      let e1 := ri.implied.getD 1 ""
      let e2 := rc.implied.getD 1 ""
      let comp := s2.P.comp.filter (fun c => !(c.dim == sd && c.kind == .rc))
      pure { s2.P with comp := comp ++ [⟨sd, .ric, [idim, e1, e2]⟩] }
    | _, _ => pure s2.P

def optToks (o : Option String) : List String := match o with | none => [] | some s => splitWS s

/-- The four `_check_node_*` / `_check_interior_ring` functions: messages (filed under the parent). -/
def geomChecks (F : NcFile) (parent : String) (gv : NcVar) : Bool × List Msg :=
  let nc := gv.attr? "node_coordinates"
  let cnt := gv.attr? "node_count"
  let pnc := gv.attr? "part_node_count"
  let ir := gv.attr? "interior_ring"
  let missing (a ty : String) (ts : List String) : List Msg :=
    (ts.filter (fun t => !F.hasVar t)).map (fun t => mkMsg t gv.name a (ty ++ " is not in file"))
  let r0 : List Msg :=
    if ir.isSome && pnc.isNone then [mkMsg gv.name parent "geometry" "part_node_count attribute is missing"] else []
  let r1 : List Msg := match nc with
    | none => [mkMsg gv.name gv.name "node_coordinates" "node_coordinates attribute is missing"]
    | some s =>
      if (splitWS s).isEmpty then
        [mkMsg gv.name gv.name "node_coordinates" "node_coordinates attribute is incorrectly formatted"]
      else missing "node_coordinates" "Node coordinate variable" (splitWS s)
  let one (a ty : String) (o : Option String) : List Msg := match o with
    | none => []
    | some s =>
      if (splitWS s).length != 1 then [mkMsg gv.name gv.name a (a ++ " attribute is incorrectly formatted")]
      else missing a ty (splitWS s)
  let r2 := one "node_count" "Node count variable" cnt
  let r3 := one "part_node_count" "Part node count variable" pnc
  let r4 := one "interior_ring" "Interior ring variable" ir
  let ms := r0 ++ r1 ++ r2 ++ r3 ++ r4
  (ms.isEmpty, ms)

/-- `_check_geometry_dimensions` of the patch. -/
def geomDimChecks (F : NcFile) (parent : NcVar) (gv : NcVar) : List Msg :=
  let dimsOf (n : String) : List String := ((F.var? n).map (·.dims)).getD []
  let ncs := optToks (gv.attr? "node_coordinates")
  let cnt := optToks (gv.attr? "node_count")
  let pnc := optToks (gv.attr? "part_node_count")
  let ir := optToks (gv.attr? "interior_ring")
  let nd := dimsOf (ncs.headD "")
  let bad (ty a n : String) : Msg := mkMsg n gv.name a (ty ++ " spans incorrect dimensions")
  let r1 := (ncs.filter (fun n => (dimsOf n).length != 1 || dimsOf n != nd)).map
    (bad "Node coordinate variable" "node_coordinates")
  let (gd, who, a, ty) := match cnt with
    | c :: _ => (dimsOf c, c, "node_count", "Node count variable")
    | [] => (nd, ncs.headD "", "node_coordinates", "Node coordinate variable")
  -- a domain variable (CF>=1.9) names its dimensions in its `dimensions` attribute
  let pdims := parent.dims ++ optToks (parent.attr? "dimensions")
  let r2 : List Msg := if r1.isEmpty && (gd.length != 1 || !pdims.contains (gd.headD "")) then [bad ty a who] else []
  let r3 : List Msg := match pnc with
    | p :: _ =>
      (if (dimsOf p).length != 1 then [bad "Part node count variable" "part_node_count" p] else []) ++
      (ir.filter (fun n => dimsOf n != dimsOf p)).map (bad "Interior ring variable" "interior_ring")
    | [] => []
  r1 ++ r2 ++ r3

/-- `_parse_geometry` for every variable with a `geometry` attribute. -/
def scanGeometry (cfg : Cfg) (F : NcFile) (P : Pre) : Except Err Pre :=
  F.vars.foldlM (fun (P : Pre) v =>
    match v.attr? "geometry" with
    | none => pure P
    | some ga =>
      let parsed := splitWS ga
      let add (P : Pre) (ms : List Msg) : Pre := { P with msgs := P.msgs ++ ms.map (fun m => (some v.name, m)) }
      if parsed.length != 1 then
        pure (add P [mkMsg v.name v.name "geometry" "geometry attribute is incorrectly formatted"])
      else
        let gn := parsed.headD ""
        match F.var? gn with
        | none => pure (add P [mkMsg gn v.name "geometry" "Geometry variable is not in file"])
        | some gv =>
          if P.geoms.any (fun g => g.name == gn) then
            pure { P with varGeom := P.varGeom ++ [(v.name, gn)] }
          else
            let (ok, ms) := geomChecks F v.name gv
            let P := add P ms
            let ms2 := if ok && cfg.geomFix then geomDimChecks F v gv else []
            let P := add P ms2
            if !(ok && ms2.isEmpty) then
              -- as coded the half-filled record stays registered
              pure (if cfg.geomFix then P else { P with geoms := P.geoms ++ [⟨gn, false, [], "", ""⟩] })
            else do
              let ncs := optToks (gv.attr? "node_coordinates")
              let n0 ← getOr .keyError (F.var? (ncs.headD ""))
              let nodeDim ← getOr .indexError n0.dims.head?
              let cnt := optToks (gv.attr? "node_count")
              let geomDim ← match cnt with
                | c :: _ => do
                  let cv ← getOr .keyError (F.var? c)
                  getOr .indexError cv.dims.head?
                | [] => pure nodeDim
              let pnc := optToks (gv.attr? "part_node_count")
              let _ ← match pnc with
                | p :: _ => do
                  let pv ← getOr .keyError (F.var? p)
                  getOr .indexError pv.dims.head?
                | [] => pure ""
              let ir := if pnc.isEmpty then [] else optToks (gv.attr? "interior_ring")
              pure { P with
                geoms := P.geoms ++ [⟨gn, true, ncs, geomDim, nodeDim⟩],
                varGeom := P.varGeom ++ [(v.name, gn)],
                noField := P.noField ++ cnt ++ pnc ++ ir ++ ncs ++ [gn] }) P

def extExists (t : String) : Msg :=
  ⟨t, "external_variables", t, "external_variables", "External variable exists in the file"⟩

def scanExternal (F : NcFile) (P : Pre) : Pre :=
  let toks := optToks (F.globals.lookup "external_variables")
  { P with external := toks.filter (fun t => !F.hasVar t),
           msgs := P.msgs ++ (toks.filter F.hasVar).map (fun t => (none, extExists t)) }

def preScan (cfg : Cfg) (F : NcFile) : Except Err Pre := do
  let P := scanGathered F {}
  let P ← scanDsg F P
  let P ← scanGeometry cfg F P
  pure (scanExternal F P)

/-! ## Creating one field -/

/-- State shared by the fields of one `read`. -/
structure Caches where
  dim : List (String × Option String) := []   -- g['dimension_coordinate']: ncvar ↦ bounds ncvar
  aux : List (String × Option String) := []   -- g['auxiliary_coordinate']
  auxGeom : List (String × Option String) := []  -- (patch) the geometry container each was created under
  da : List (String × Option String) := []    -- g['domain_ancillary']
  report : List Msg := []                     -- g['component_report'], flattened
  ftDone : List String := []                  -- keys of g['formula_terms']
  vcrs : List String := []                    -- keys of g['vertical_crs'] (construct keys, shared between fields!)
  deriving Repr

structure FieldOut where
  elems : List String := []
  msgs : List Msg := []
  deriving Repr

/-- The registered geometry of a parent variable (`_get_geometry`). -/
def geomOf (P : Pre) (parent : String) : Option Geom :=
  match P.varGeom.lookup parent with
  | none => none
  | some gn => P.geoms.find? (fun g => g.name == gn)

/-- `_check_bounds` -/
def checkBounds (F : NcFile) (P : Pre) (coord attr b : String) : Except Err (Bool × List Msg) :=
  if !F.hasVar b then .ok (false, [mkMsgC coord b coord attr "Bounds variable is not in file"]) else do
    let c ← ncdims F P coord
    let bd ← ncdims F P b
    if bd.length == c.length + 1 && c == bd.dropLast then pure (true, [])
    else pure (false, [mkMsgC coord b coord attr "Bounds variable spans incorrect dimensions"])

/-- `_check_geometry_node_coordinates`.  As coded the message is filed under the *parent* variable
(`variable=field_ncvar`); with the proposed patch under the coordinate variable `coord` whose `nodes`
attribute it is about (when there is one), so that `_copy_construct` hands it to every field that
re-uses the coordinate. -/
def checkNodes (cfg : Cfg) (F : NcFile) (parent : String) (coord : Option String) (g : Geom) (b : String) :
    Except Err (Bool × List Msg) :=
  let comp := if cfg.nodesComp then coord.getD parent else parent
  -- `' '.join(geometry['node_coordinates'])`
  if !g.complete && !cfg.geomFix then .error .keyError else
  -- the attribute is quoted as `{field_ncvar:geometry_ncvar: node_coordinates}`
  if !F.hasVar b then
    .ok (false, [⟨comp, "nodes", b, parent ++ ":" ++ g.name, "Node coordinate variable is not in file"⟩])
  else if !g.nodeCoords.contains b then
    .ok (false, [⟨comp, "nodes", b, parent ++ ":" ++ g.name, "Node coordinate variable not in node_coordinates"⟩])
  -- as coded: a node variable on another dimension is not ragged, `get_count(bounds)` is None
  else if !cfg.geomFix && ((F.var? b).bind (·.dims.head?)) != some g.nodeDim then .error .attributeError
  else .ok (true, [])

/-- Which attribute supplies the bounds of a construct: (bounds netCDF variable, attribute). -/
def boundsPick (F : NcFile) (P : Pre) (parent : String) (ncvar given : Option String) (nodesOnly : Bool) :
    Option String × String :=
  let attrs : List (String × String) := match ncvar with
    | some n => ((F.var? n).map (·.attrs)).getD []
    | none => []
  match given with
  | some b => (some b, if nodesOnly then "nodes" else "bounds")
  | none => match attrs.lookup "bounds" with
    | some b => (some b, "bounds")
    | none => match attrs.lookup "climatology" with
      | some b => (some b, "climatology")
      | none => if (geomOf P parent).isSome then ((attrs.lookup "nodes"), "nodes") else (none, "bounds")

/-- The bounds decision of `_create_bounded_construct`: bounds netCDF variable kept, messages. -/
def boundsOf (cfg : Cfg) (F : NcFile) (P : Pre) (parent : String) (ncvar : Option String)
    (given : Option String) (nodesOnly : Bool) : Except Err (Option String × List Msg) :=
  let pick := boundsPick F P parent ncvar given nodesOnly
  match pick.1 with
  | none => .ok (none, [])
  | some b =>
    if b.toList.isEmpty then .ok (none, []) else
    if pick.2 == "nodes" then
      match geomOf P parent with
      | none => .error .attributeError        -- `geometry.get` on None (not reachable)
      | some g =>
        match checkNodes cfg F parent ncvar g b with
        | .error e => .error e
        | .ok r => .ok (if r.1 then some b else none, r.2)
    else
      match checkBounds F P (ncvar.getD "") pick.2 b with
      | .error e => .error e
      | .ok r => .ok (if r.1 then some b else none, r.2)

def bndElem (c : String) (b : Option String) : List String :=
  match b with | some b => ["bnd:" ++ c ++ ":" ++ b] | none => []

/-- `_copy_construct`: the component report of the copied construct. -/
def copied (C : Caches) (ncvar : String) : List Msg := C.report.filter (fun m => m.comp == ncvar)

structure FSt where
  C : Caches
  out : FieldOut := {}
  coords : List String := []        -- netCDF names of the coordinate constructs attached so far
  coordBounds : List (String × String) := []
  scalars : List String := []
  keys : List (String × String) := []  -- ncvar_to_key
  nDim : Nat := 0
  nAux : Nat := 0

def FSt.newDimKey (s : FSt) (n : String) : FSt :=
  { s with keys := s.keys ++ [(n, "dimensioncoordinate" ++ toString s.nDim)], nDim := s.nDim + 1 }

def FSt.newAuxKey (s : FSt) (n : String) : FSt :=
  { s with keys := s.keys ++ [(n, "auxiliarycoordinate" ++ toString s.nAux)], nAux := s.nAux + 1 }

def FSt.otherKey (s : FSt) (n : String) : FSt :=
  if (s.keys.lookup n).isSome then s else { s with keys := s.keys ++ [(n, "other:" ++ n)] }

def FSt.add (s : FSt) (es : List String) (ms : List Msg) : FSt :=
  { s with out := { elems := s.out.elems ++ es, msgs := s.out.msgs ++ ms },
           C := { s.C with report := s.C.report ++ ms } }

/-- Messages that only arrive by copying a cached construct (not re-filed in the component report). -/
def FSt.addCopied (s : FSt) (ms : List Msg) : FSt :=
  { s with out := { s.out with msgs := s.out.msgs ++ ms } }

/-- Dimension coordinates of the field's dimensions. -/
def stageDims (cfg : Cfg) (F : NcFile) (P : Pre) (v : String) (D : List String) (s : FSt) : Except Err FSt :=
  D.foldlM (fun (s : FSt) d =>
    match F.var? d with
    | some cv =>
      if cv.dims == [d] then
        match s.C.dim.lookup d with
        | some b =>
          pure { (s.newDimKey d) with
                 out := { elems := s.out.elems ++ ["dim:" ++ d] ++ bndElem d b, msgs := s.out.msgs ++ copied s.C d },
                 coords := s.coords ++ [d],
                 coordBounds := s.coordBounds ++ (match b with | some b => [(d, b)] | none => []) }
        | none => do
          let (b, ms) ← boundsOf cfg F P v (some d) none false
          let s := (s.add (["dim:" ++ d] ++ bndElem d b) ms).newDimKey d
          pure { s with C := { s.C with dim := s.C.dim ++ [(d, b)] }, coords := s.coords ++ [d],
                        coordBounds := s.coordBounds ++ (match b with | some b => [(d, b)] | none => []) }
      else pure s
    | none => pure s) s

/-- `_check_auxiliary_or_scalar_coordinate`: the two messages. -/
def coordMissing (v tok : String) : Msg :=
  mkMsg tok v "coordinates" "Auxiliary/scalar coordinate variable is not in file"
def coordForeign (v tok : String) : Msg :=
  mkMsg tok v "coordinates" "Auxiliary/scalar coordinate variable spans incorrect dimensions"

/-- One token of the `coordinates` attribute. -/
def auxToken (cfg : Cfg) (F : NcFile) (P : Pre) (v : String) (D : List String) (s : FSt) (tok : String) :
    Except Err FSt :=
  if D.contains tok then .ok s else
  match F.var? tok with
  | none => .ok (s.add [] [coordMissing v tok, coordMissing v tok])
  | some cv => do
    let cd ← ncdims F P tok
    if !dimsSubset cfg cv cd D then pure (s.add [] [coordForeign v tok]) else
    -- `set_auxiliary_coordinate`: the data have a dimension for which the field has no axis
    if !(cd.all D.contains) then .error .valueError else
    let axes := cd.filter D.contains
    let gname := (geomOf P v).map (·.name)       -- `_get_geometry(field_ncvar, return_ncvar=True)`
    let hit := if cfg.auxGeomKey && s.C.auxGeom.lookup tok != some gname then none else s.C.aux.lookup tok
    let (b, s) ← match hit with
      | some b => pure (b, if cfg.auxReport then s.addCopied (copied s.C tok) else s)
      | none => do
        let (b, ms) ← boundsOf cfg F P v (some tok) none false
        let s := s.add [] ms
        let aux' := s.C.aux.filter (fun e => e.1 != tok) ++ [(tok, b)]
        let auxGeom' := s.C.auxGeom.filter (fun e => e.1 != tok) ++ [(tok, gname)]
        pure (b, { s with C := { s.C with aux := aux', auxGeom := auxGeom' } })
    let cb := match b with | some b => [(tok, b)] | none => []
    if axes.isEmpty then
      if cv.isCharOrString then
        pure { ((s.add (["aux:" ++ tok] ++ bndElem tok b) []).newAuxKey tok) with
               coords := s.coords ++ [tok], coordBounds := s.coordBounds ++ cb, scalars := s.scalars ++ [tok] }
      else
        let s := (s.add (["dim:" ++ tok] ++ bndElem tok b) []).newDimKey tok
        pure { s with C := { s.C with dim := s.C.dim ++ [(tok, b)], aux := s.C.aux.filter (fun e => e.1 != tok) },
                      coords := s.coords ++ [tok], coordBounds := s.coordBounds ++ cb, scalars := s.scalars ++ [tok] }
    else
      pure { ((s.add (["aux:" ++ tok] ++ bndElem tok b) []).newAuxKey tok) with
             coords := s.coords ++ [tok], coordBounds := s.coordBounds ++ cb }

def stageAux (cfg : Cfg) (F : NcFile) (P : Pre) (v : String) (D : List String) (vv : NcVar) (s : FSt) :
    Except Err FSt :=
  (optToks (vv.attr? "coordinates")).foldlM (auxToken cfg F P v D) s

/-- Node coordinates that no auxiliary coordinate has claimed as bounds. -/
def stageNodes (cfg : Cfg) (F : NcFile) (P : Pre) (v : String) (D : List String) (s : FSt) : Except Err FSt :=
  match geomOf P v with
  | none => .ok s
  | some g =>
    if !g.complete then .error .keyError else      -- `geometry['node_coordinates']`
    g.nodeCoords.foldlM (fun (s : FSt) n =>
      if s.coordBounds.any (fun e => e.2 == n) then pure s else do
        let s ← match s.C.aux.lookup n with
          | some _ => pure s
          | none => do
            let (_, ms) ← boundsOf cfg F P v none (some n) true
            let s := s.add [] ms
            pure { s with C := { s.C with aux := s.C.aux ++ [(n, none)] } }
        if !D.contains g.geomDim then .error .valueError else
        pure { ((s.add ["node:" ++ n] []).newAuxKey n) with coordBounds := s.coordBounds ++ [("", n)] }) s

abbrev Terms := List (String × Option String)

def ftMalformed (cname : String) : Msg :=
  mkMsg cname cname "formula_terms" "formula_terms attribute is incorrectly formatted"

/-- The messages of the bounds half of `_check_formula_terms`: filed with `variable=coord`, quoting the
bounds variable's attribute. -/
def ftB (cname bn var reason : String) : Msg := mkMsgC cname var bn "formula_terms" reason

/-- One `term: variable` pair of the coordinate's `formula_terms`. -/
def ftStep (F : NcFile) (cname : String) (acc : Terms × List Msg) (x : String × List String) : Terms × List Msg :=
  match x.2 with
  | [n] => if F.hasVar n then (acc.1 ++ [(x.1, some n)], acc.2)
           else (acc.1 ++ [(x.1, none)], acc.2 ++ [mkMsg n cname "formula_terms" "Formula terms variable is not in file"])
  | _ => (acc.1 ++ [(x.1, none)], acc.2 ++ [ftMalformed cname])

/-- One pair of the bounds variable's `formula_terms`. -/
def ftBoundsStep (cfg : Cfg) (F : NcFile) (cname bn z : String) (cterms : Terms) (acc : Terms × List Msg)
    (x : String × List String) : Except Err (Terms × List Msg) :=
  let bad (m : Msg) : Terms × List Msg := (acc.1 ++ [(x.1, none)], acc.2 ++ [m])
  match x.2 with
  | [n] =>
    match F.var? n with
    | none => .ok (bad (ftB cname bn n "Bounds formula terms variable is not in file"))
    | some nv =>
      match cterms.lookup x.1 with
      | none => .ok (bad (ftB cname bn bn "Bounds formula_terms attribute has incompatible terms"))
      | some none =>
        -- `g['variable_dimensions'][None]`
        if cfg.guardFT then .ok (acc.1 ++ [(x.1, none)], acc.2) else .error .keyError
      | some (some par) =>
        match getOr .keyError (F.var? par) with
        | .error e => .error e
        | .ok pv =>
          if !pv.dims.contains z then
            if n != par then
              .ok (bad (ftB cname bn bn ("Bounds formula terms variable that does not span the vertical dimension " ++
                "is inconsistent with the formula_terms of the parametric coordinate variable")))
            else .ok (acc.1 ++ [(x.1, some n)], acc.2)
          else if nv.dims.length != pv.dims.length + 1 || pv.dims != nv.dims.dropLast then
            .ok (bad (ftB cname bn bn "Bounds formula terms variable spans incorrect dimensions"))
          else .ok (acc.1 ++ [(x.1, some n)], acc.2)
  | _ => .ok (bad (ftB cname bn bn "Bounds formula_terms attribute is incorrectly formatted"))

/-- Bounds inferred when the bounds variable has no `formula_terms` (no term variable is itself a
coordinate of the parent here). -/
def ftInferStep (cfg : Cfg) (F : NcFile) (P : Pre) (cname z : String) (acc : Terms × List Msg)
    (t : String × Option String) : Except Err (Terms × List Msg) :=
  match t.2 with
  | none =>
    -- `self._ncdimensions(None)`
    if cfg.guardFT then .ok (acc.1 ++ [(t.1, none)], acc.2) else .error .keyError
  | some n =>
    match ncdims F P n with
    | .error e => .error e
    | .ok nd =>
      if !nd.contains z then .ok (acc.1 ++ [(t.1, some n)], acc.2)
      else .ok (acc.1 ++ [(t.1, none)], acc.2 ++
        [mkMsgC cname n cname "formula_terms" "Formula terms variable that spans the vertical dimension has no bounds"])

/-- `_check_formula_terms`: (coordinate terms, bounds terms, messages). -/
def checkFormulaTerms (cfg : Cfg) (F : NcFile) (P : Pre) (coord : NcVar) (ft : String) (z : String) :
    Except Err (Terms × Terms × List Msg) :=
  let parsed := parseX ft
  if parsed.isEmpty then .ok ([], [], [ftMalformed coord.name]) else
  let r := parsed.foldl (ftStep F coord.name) ([], [])
  let cterms := r.1
  let ms := r.2
  let noBounds : Terms := cterms.map (fun t => (t.1, none))
  match coord.attr? "bounds" with
  | none => .ok (cterms, noBounds, ms)
  | some bn =>
    match F.var? bn with
    | none =>
      -- `g['variable_attributes'][bounds_ncvar]`
      if cfg.guardFT then .ok (cterms, noBounds, ms) else .error .keyError
    | some bv =>
      match bv.attr? "formula_terms" with
      | some bft =>
        let bparsed := parseX bft
        -- (this one quotes the coordinate's attribute)
        let ms := if bparsed.isEmpty then
            ms ++ [mkMsgC coord.name bn coord.name "formula_terms" "Bounds formula_terms attribute is incorrectly formatted"]
          else ms
        match bparsed.foldlM (ftBoundsStep cfg F coord.name bn z cterms) ([], ms) with
        | .error e => .error e
        | .ok r2 =>
          let bterms := r2.1
          let same := cterms.all (fun t => bterms.any (fun b => b.1 == t.1)) &&
                      bterms.all (fun b => cterms.any (fun t => t.1 == b.1))
          .ok (cterms, bterms, if same then r2.2 else
            r2.2 ++ [ftB coord.name bn bn "Bounds formula_terms attribute has incompatible terms"])
      | none =>
        match cterms.foldlM (ftInferStep cfg F P coord.name z) ([], ms) with
        | .error e => .error e
        | .ok r2 => .ok (cterms, r2.1, r2.2)

/-- The bounds variable handed to `_create_domain_ancillary` for a term. -/
def ftGiven (bterms : Terms) (term n : String) : Option String :=
  match bterms.lookup term with
  | some (some b) => if b == n then none else some b
  | _ => none

/-- One mapped term of an attached coordinate: the domain ancillary and its bounds. -/
def ftTermStep (cfg : Cfg) (F : NcFile) (P : Pre) (v cn : String) (D : List String) (bterms : Terms)
    (acc : FSt × List (String × Option String) × Bool) (t : String × Option String) :
    Except Err (FSt × List (String × Option String) × Bool) :=
  match t.2 with
  | none => .ok acc
  | some n =>
    match ncdims F P n with
    | .error e => .error e
    | .ok nd =>
      let s := acc.1
      let axes := nd.filter D.contains
      let r : Except Err (Option String × FSt) := match s.C.da.lookup n with
        | some b => .ok (b, s.addCopied (copied s.C n))
        | none =>
          match boundsOf cfg F P v (some n) (ftGiven bterms t.1 n) false with
          | .error e => .error e
          | .ok bm => .ok (bm.1, s.add [] bm.2)
      match r with
      | .error e => .error e
      | .ok bs =>
        if axes.length == nd.length then .ok (bs.2, acc.2.1 ++ [(n, bs.1)], acc.2.2)
        else .ok (bs.2.add [] [mkMsg n cn "formula_terms" "Formula terms variable spans incorrect dimensions"],
                  acc.2.1, false)

/-- The formula terms of one attached coordinate. -/
def ftCoordStep (cfg : Cfg) (F : NcFile) (P : Pre) (v : String) (D : List String) (s : FSt) (cn : String) :
    Except Err FSt :=
  match getOr .keyError (F.var? cn) with
  | .error e => .error e
  | .ok cv =>
    match cv.attr? "formula_terms" with
    | none => .ok s
    | some ft =>
      match getOr .indexError cv.dims.head? with
      | .error e => .error e
      | .ok z =>
        match checkFormulaTerms cfg F P cv ft z with
        | .error e => .error e
        | .ok chk =>
          let cterms := chk.1
          let bterms := chk.2.1
          -- as coded the check (and its messages) happens for the first parent only
          let fresh := cfg.ftEach || !s.C.ftDone.contains cn
          let s := if fresh then s.add [] chk.2.2 else s
          let s := { s with C := { s.C with ftDone := if s.C.ftDone.contains cn then s.C.ftDone else s.C.ftDone ++ [cn] } }
          match cterms.foldlM (ftTermStep cfg F P v cn D bterms) (s, [], true) with
          | .error e => .error e
          | .ok r =>
            let s := r.1
            let das := r.2.1
            if !r.2.2 then .ok s else
            let es := das.foldl (fun es d => es ++ ["da:" ++ d.1] ++ bndElem d.1 d.2) []
            let s := s.add (es ++ ["ref:ft:" ++ cn]) []
            let s := das.foldl (fun (s : FSt) d => s.otherKey d.1) s
            let key := (s.keys.lookup cn).getD ""
            .ok { s with C := { s.C with
              da := das.foldl (fun c d => if (c.lookup d.1).isSome then c else c ++ [d]) s.C.da,
              vcrs := if s.C.vcrs.contains key then s.C.vcrs else s.C.vcrs ++ [key] } }

/-- Formula terms of every attached coordinate. -/
def stageFormulaTerms (cfg : Cfg) (F : NcFile) (P : Pre) (v : String) (D : List String) (s : FSt) :
    Except Err FSt :=
  s.coords.foldlM (ftCoordStep cfg F P v D) s

/-- The patched callers check the entries of an attribute one at a time and keep the compliant ones. -/
def perEntry {α} (chk : List α → Except Err (Bool × List Msg)) : List α → Except Err (List α × List Msg)
  | [] => .ok ([], [])
  | x :: xs => match chk [x] with
    | .error e => .error e
    | .ok r => match perEntry chk xs with
      | .error e => .error e
      | .ok r' => .ok (if r.1 then x :: r'.1 else r'.1, r.2 ++ r'.2)

/-- As coded: one verdict for the whole attribute. -/
def allOrNothing {α} (chk : List α → Except Err (Bool × List Msg)) (xs : List α) : Except Err (List α × List Msg) :=
  match chk xs with
  | .error e => .error e
  | .ok r => .ok (if r.1 then xs else [], r.2)

def checked {α} (cfg : Cfg) (chk : List α → Except Err (Bool × List Msg)) (xs : List α) :
    Except Err (List α × List Msg) :=
  if cfg.perToken && !xs.isEmpty then perEntry chk xs else allOrNothing chk xs

def gmCoordMissing (v c : String) : Msg :=
  mkMsg c v "grid_mapping" "Grid mapping coordinate variable is not in file"

def gmCoordUnused (v c : String) : Msg :=
  mkMsg c v "grid_mapping" "Grid mapping coordinate variable is not used by data variable"

/-- `_check_grid_mapping` on a list of parsed mappings. -/
def checkGridMapping (F : NcFile) (v : String) (xs : List (String × List String)) : Bool × List Msg :=
  if xs.isEmpty then (false, [mkMsg v v "grid_mapping" "grid_mapping attribute is incorrectly formatted"]) else
  let ms := xs.foldl (fun ms x =>
    let g := mkMsg x.1 v "grid_mapping" "Grid mapping variable is not in file"
    let m1 : List Msg := if F.hasVar x.1 then [] else [g, g]
    let m2 : List Msg := (x.2.filter (fun c => !F.hasVar c)).foldl (fun a c =>
      a ++ [gmCoordMissing v c, gmCoordMissing v c]) []
    ms ++ m1 ++ m2) []
  (ms.isEmpty, ms)

/-- One compliant grid mapping `x = (grid mapping variable, listed coordinates)`. -/
def gmEntry (cfg : Cfg) (F : NcFile) (v : String) (s : FSt) (x : String × List String) : Except Err FSt := do
  -- `g['variable_attributes'][grid_mapping_ncvar]`
  let _ ← getOr .keyError (F.var? x.1)
  -- (patch) the listed coordinates that are not coordinates of this data variable are reported
  let s := if cfg.gmReport then
      s.add [] ((x.2.filter (fun n => (List.lookup n s.keys).isNone)).map (gmCoordUnused v))
    else s
  let coords := x.2.filterMap (fun n => List.lookup n s.keys)
  -- `g['vertical_crs']` is keyed by construct keys of whichever field put them there
  let (_, createNew) := s.C.vcrs.foldl (fun (acc : List String × Bool) k =>
    if acc.1.contains k then (acc.1.erase k, !(acc.1.erase k).isEmpty) else acc) (coords, true)
  if createNew then pure ((s.add ["ref:gm:" ++ x.1] []).otherKey x.1) else pure s

def stageGridMapping (cfg : Cfg) (F : NcFile) (v : String) (vv : NcVar) (s : FSt) : Except Err FSt :=
  match vv.attr? "grid_mapping" with
  | none => .ok s
  | some gm =>
    match checked cfg (fun xs => .ok (checkGridMapping F v xs)) (parseX gm) with
    | .error e => .error e
    | .ok (keep, ms) => keep.foldlM (gmEntry cfg F v) (s.add [] ms)

def msrMalformed (v : String) : Msg := mkMsg v v "cell_measures" "cell_measures attribute is incorrectly formatted"

/-- `_check_cell_measures` on a list of parsed mappings. -/
def checkCellMeasures (cfg : Cfg) (F : NcFile) (P : Pre) (v : String) (D : List String) (xs : List (String × List String)) :
    Except Err (Bool × List Msg) :=
  if xs.isEmpty then .ok (false, [msrMalformed v]) else do
  let ms ← xs.foldlM (fun (ms : List Msg) x =>
    match x.2 with
    | [n] =>
      if P.external.contains n then pure ms
      else match F.var? n with
        | none => pure (ms ++ [mkMsg n v "cell_measures" ("Cell measures variable is not in file nor referenced by the " ++
            "external_variables global attribute")])
        | some nv => do
          let nd ← ncdims F P n
          if dimsSubset cfg nv nd D then pure ms
          else pure (ms ++ [mkMsg n v "cell_measures" "Cell measures variable spans incorrect dimensions"])
    | _ => pure (ms ++ [msrMalformed v])) []
  pure (ms.isEmpty, ms)

def stageCellMeasures (cfg : Cfg) (F : NcFile) (P : Pre) (v : String) (D : List String) (vv : NcVar) (s : FSt) :
    Except Err FSt :=
  match vv.attr? "cell_measures" with
  | none => .ok s
  | some cmz => do
    let (keep, ms) ← checked cfg (checkCellMeasures cfg F P v D) (parseX cmz)
    let s := s.add [] ms
    keep.foldlM (fun (s : FSt) x => do
      let n ← getOr .indexError x.2.head?
      -- `_get_domain_axes(ncvar, allow_external=True)`
      let nd ← if P.external.contains n then pure [] else ncdims F P n
      -- `set_cell_measure`: the data have a dimension for which the field has no axis
      if !(nd.all D.contains) then .error .valueError else
      pure ((s.add ["msr:" ++ n] []).otherKey n)) s

/-- `_check_ancillary_variables` on a list of names. -/
def ancMissing (v n : String) : Msg := mkMsg n v "ancillary_variables" "Ancillary variable is not in file"
def ancForeign (v n : String) : Msg := mkMsg n v "ancillary_variables" "Ancillary variable spans incorrect dimensions"
def ancMalformed (v : String) : Msg :=
  mkMsg v v "ancillary_variables" "ancillary_variables attribute is incorrectly formatted"

def checkAncillaryGo (cfg : Cfg) (F : NcFile) (P : Pre) (v : String) (D : List String) : List String → List Msg → Except Err (Bool × List Msg)
  | [], ms => .ok (ms.isEmpty, ms)
  | n :: rest, ms =>
    match F.var? n with
    | none => .ok (false, ms ++ [ancMissing v n])     -- returns at the first missing one
    | some nv =>
      match ncdims F P n with
      | .error e => .error e
      | .ok nd =>
        if dimsSubset cfg nv nd D then checkAncillaryGo cfg F P v D rest ms
        else checkAncillaryGo cfg F P v D rest (ms ++ [ancForeign v n])

def checkAncillary (cfg : Cfg) (F : NcFile) (P : Pre) (v : String) (D : List String) (ts : List String) :
    Except Err (Bool × List Msg) :=
  if ts.isEmpty then .ok (false, [ancMalformed v]) else checkAncillaryGo cfg F P v D ts []

def stageAncillary (cfg : Cfg) (F : NcFile) (P : Pre) (v : String) (D : List String) (vv : NcVar) (s : FSt) :
    Except Err FSt :=
  match vv.attr? "ancillary_variables" with
  | none => .ok s
  | some av => do
    let (keep, ms) ← checked cfg (checkAncillary cfg F P v D) (splitWS av)
    let s := s.add [] ms
    keep.foldlM (fun (s : FSt) n => do
      let nd ← ncdims F P n          -- `_get_domain_axes(ncvar)`
      -- `set_field_ancillary`: the data have a dimension for which the field has no axis
      if !(nd.all D.contains) then .error .valueError else
      pure ((s.add ["anc:" ++ n] []).otherKey n)) s

def stageCellMethods (cfg : Cfg) (v : String) (vv : NcVar) (s : FSt) : Except Err FSt :=
  match vv.attr? "cell_methods" with
  | none => .ok s
  | some cm => do
    let (n, rep) ← parseCellMethods cfg cm
    pure (s.add ["cm:" ++ toString n] (if rep then cellMethodsMsgs cfg v cm else []))

/-- The construct-creating part of `_create_field_or_domain`, in the order of the code. -/
def runStages (cfg : Cfg) (F : NcFile) (P : Pre) (vv : NcVar) (D : List String) (s : FSt) : Except Err FSt := do
  let v := vv.name
  let s ← stageDims cfg F P v D s
  let s ← stageAux cfg F P v D vv s
  let s ← stageNodes cfg F P v D s
  let s ← stageFormulaTerms cfg F P v D s
  let s ← stageGridMapping cfg F v vv s
  let s ← stageCellMeasures cfg F P v D vv s
  let s ← stageCellMethods cfg v vv s
  stageAncillary cfg F P v D vv s

/-- `_create_field_or_domain(field_ncvar)` (field mode). -/
def createField (cfg : Cfg) (F : NcFile) (P : Pre) (C : Caches) (vv : NcVar) : Except Err (FieldOut × Caches) :=
  -- an empty `geometry` attribute is not a valid netCDF variable name
  if !cfg.geomFix && (vv.attr? "geometry").any (fun g => g.toList.isEmpty) then .error .valueError else
  match ncdims F P vv.name with
  | .error e => .error e
  | .ok D =>
    let pre := (P.msgs.filter (fun m => m.1 == some vv.name)).map (·.2)
    -- 7931fa5: `g["vertical_crs"] = {}` next to the reset of `g["domain_ancillary_key"]`
    let C := if cfg.vcrsPerField then { C with vcrs := [] } else C
    match runStages cfg F P vv D { C := C, out := { elems := [], msgs := pre } } with
    | .error e => .error e
    | .ok s => .ok (s.out, s.C)

/-- One iteration of the loop over `g['variables']`. -/
def fieldStep (cfg : Cfg) (F : NcFile) (P : Pre) (acc : List (String × FieldOut) × Caches) (vv : NcVar) :
    Except Err (List (String × FieldOut) × Caches) :=
  if P.noField.contains vv.name then .ok acc else
  -- CF>=1.9: a variable with a `dimensions` attribute is a domain variable, no field is made of it
  if (vv.attr? "dimensions").isSome then .ok acc else
  match createField cfg F P acc.2 vv with
  | .error e => .error e
  | .ok oc => .ok (acc.1 ++ [(vv.name, oc.1)], oc.2)

/-! ### `_reference` and the choice of the fields that are returned

Every `_reference(ncvar, field_ncvar)` call of `_create_field_or_domain` sits right where a construct is
attached, so the references of a field are read off its attached elements: the variable of each
dimension / auxiliary / node coordinate, domain ancillary, grid mapping, field ancillary, of each cell
measure other than the field's own variable, and of every bounds variable. -/

def splitColon (cs : List Char) (cur : List Char) : List String :=
  match cs with
  | [] => [String.ofList cur.reverse]
  | c :: r => if c == ':' then String.ofList cur.reverse :: splitColon r [] else splitColon r (c :: cur)

def elemRefs (field : String) (e : String) : List String :=
  match splitColon e.toList [] with
  | ["dim", x] => [x]
  | ["aux", x] => [x]
  | ["node", x] => [x]
  | ["da", x] => [x]
  | ["anc", x] => [x]
  | ["msr", x] => if x != field then [x] else []
  | ["ref", "gm", x] => [x]
  | ["bnd", _, b] => [b]
  | _ => []

/-- (referenced variable, referencing variable) pairs of one read. -/
def references (rs : List (String × FieldOut)) : List (String × String) :=
  rs.flatMap (fun r => (r.2.elems.flatMap (elemRefs r.1)).map (fun x => (x, r.1)))

def insertSortedS (x : String) : List String → List String
  | [] => [x]
  | y :: ys => if x ≤ y then x :: y :: ys else y :: insertSortedS x ys

def sortS (l : List String) : List String := l.foldr insertSortedS []

def stillStep (refs : List (String × String)) (cur : List String) (n : String) : List String :=
  if (refs.filter (fun p => p.1 == n)).all (fun p => cur.contains p.2) then cur.filter (· != n) else cur

/-- The variables that stay referenced: the referenced ones (sorted), minus — scanning them in order
against the shrinking list — those whose referencers are all still in the list. -/
def stillReferenced (rs : List (String × FieldOut)) : List String :=
  let refs := references rs
  let referenced := sortS ((rs.map (·.1)).filter (fun n => refs.any (fun p => p.1 == n)))
  referenced.foldl (stillStep refs) referenced

/-- The end of `read`: the fields of the variables that do not stay referenced. -/
def selectFields (rs : List (String × FieldOut)) : List (String × FieldOut) :=
  rs.filter (fun r => !(stillReferenced rs).contains r.1)

/-- The body of `read`: a field for every variable that the pre-scan did not claim, in file order,
of which the unreferenced ones are returned. -/
def readBody (cfg : Cfg) (F : NcFile) : Except Err (List (String × FieldOut)) :=
  match preScan cfg F with
  | .error e => .error e
  | .ok P =>
    match F.vars.foldlM (fieldStep cfg F P) ([], { report := P.msgs.map (·.2) }) with
    | .error e => .error e
    | .ok r => .ok (selectFields r.1)

structure Outcome where
  result : Except Err (List (String × FieldOut))
  closed : Bool

/-- `cfdm.read`: open, read, close. As coded `file_close` is the last statement of `read`. -/
def readFile (cfg : Cfg) (F : NcFile) : Outcome :=
  match readBody cfg F with
  | .ok r => ⟨.ok r, true⟩
  | .error e => ⟨.error e, cfg.closeOnError⟩

def errOf {α} : Except Err α → Option Err
  | .error e => some e
  | .ok _ => none

def Outcome.err? (o : Outcome) : Option Err := errOf o.result

/-- Elements attached to the field of `dv`, and whether its report is non-empty. -/
def Outcome.field? (o : Outcome) (dv : String) : Option (List String × Bool) :=
  match o.result with
  | .error _ => none
  | .ok r => (r.lookup dv).map (fun f => (f.elems, !f.msgs.isEmpty))

end Cfdm.RefCheck
