/-
C10 — the aggregation of original file names over the WHOLE component tree of a construct
(core Lean only; no Mathlib).

`Model/Files.lean` gives a field three levels (field, construct, bounds / interior ring) and a
`Data` with count / index / list variables.  The real object graph is deeper and wider: a `Data`
holds a source array which, when it is a compressed array, holds the underlying array (ragged /
gathered values, tie points, mesh connectivity) *and* further variables — count, index, list,
tie point index, interpolation parameter variables, dependent tie points, node coordinates — each
of which is again an object with data that may still sit in a file.  This file models that
graph as a rose tree whose edges carry the *role* of the component, and the two aggregation
mechanisms of cfdm over it:

* `_original_filenames()` (classes mixing in `cfdm.mixin.Files`): `FieldDomain` → every metadata
  construct; `PropertiesDataBounds` → bounds, interior ring; `PropertiesData` → data; `Data` → its
  own record ∪ `get_filenames()` ∪ the variables it fetches with `get_list` / `get_count` /
  `get_index` / `get_tie_point_indices` / `get_interpolation_parameters` /
  `get_dependent_tie_points`, chosen by `get_compression_type()`;
* `get_filenames()` (arrays): `Data` → its source array; `CompressedArray` → the underlying
  compressed array only; a file array → its `filename` component.

`Ver.old` is the code as it stands at /repo HEAD:
  - `Data.get_interpolation_parameters` calls `SubsampledArray.get_interpolation_parameters`,
    which does not exist (the method is `get_parameters`): the `AttributeError` is swallowed, the
    default `{}` is returned and interpolation parameter variables are never visited;
  - `BoundsFromNodesArray.get_filenames` (inherited from `CompressedArray`) reports the node
    connectivity array only, not the node coordinates the bounds are computed from.
`Ver.new` is the code with fixes/C10-interpolation-parameters.patch and
fixes/C10-node-coordinates.patch.
-/
namespace Cfdm.FilesTree

/-- A file name as recorded (symbolic). -/
abbrev Name := Nat

/-- How the underlying array of a `Data` is compressed (`Data.get_compression_type()`). -/
inductive CT
  | none | gathered | raggedC | raggedI | raggedIC | subsampled | boundsFromNodes | mesh
deriving Repr, DecidableEq, Inhabited

/-- The class family of an object of the graph. -/
inductive Cls
  | field                 -- Field: FieldDomain + PropertiesData
  | domain                -- Domain: FieldDomain
  | pdb                   -- PropertiesDataBounds: coordinates, domain ancillaries
  | pd                    -- PropertiesData + Files: bounds, interior ring, cell measure, field ancillary,
                          -- domain topology, cell connectivity, count / index / list / tie point index /
                          -- interpolation parameter variables
  | props                 -- no data: coordinate reference, node count, part node count
  | data (ct : CT)        -- Data, by the compression type of its source array
deriving Repr, DecidableEq, Inhabited

/-- The role of a component in its parent. -/
inductive Role
  | top                   -- the root
  | cons                  -- a metadata construct of a field / domain
  | data | bounds | ring | nodeCount | partNodeCount
  | arr                   -- the array `get_filenames()` of a Data looks at (the source array, or the
                          -- underlying array of a compressed source array)
  | count | index | list | tiePointIndex | interpParam | depTiePoints | nodeCoords
deriving Repr, DecidableEq, Inhabited

/-- An object graph.  A `leaf` is an array: its `files` are the `filename` component of a file
array, `[]` for an array in memory. -/
inductive Tree where
  | leaf (role : Role) (files : List Name)
  | obj (role : Role) (cls : Cls) (own : List Name) (kids : List Tree)
deriving Repr, Inhabited

def Tree.role : Tree → Role
  | .leaf r _ => r
  | .obj r _ _ _ => r

/-! ## Specification: the files an object still needs = every file-array leaf below it -/

mutual
def Tree.need : Tree → List Name
  | .leaf _ fs => fs
  | .obj _ _ _ kids => needKids kids
def needKids : List Tree → List Name
  | [] => []
  | t :: rest => t.need ++ needKids rest
end

/-! ## The aggregation as coded -/

inductive Ver | old | new
deriving Repr, DecidableEq, Inhabited

/-- How a class treats a component when asked for the original file names. -/
inductive Follow
  | no        -- not looked at
  | files     -- `get_filenames()` of the component (file arrays only, no recorded names)
  | full      -- `_original_filenames()` of the component
deriving Repr, DecidableEq, Inhabited

/-- The variables `Data._original_filenames` visits, by compression type (the `if` chain of
cfdm/data/data.py). -/
def dataVisits (v : Ver) : CT → Role → Bool
  | .gathered, .list => true
  | .subsampled, .tiePointIndex => true
  | .subsampled, .depTiePoints => true
  | .subsampled, .interpParam => v == .new     -- `get_interpolation_parameters({})` is always `{}` (old)
  | .raggedC, .count => true
  | .raggedIC, .count => true
  | .raggedI, .index => true
  | .raggedIC, .index => true
  | _, _ => false

def follows (v : Ver) : Cls → Role → Follow
  | .field, .cons => .full
  | .field, .data => .full
  | .domain, .cons => .full
  | .pdb, .data => .full
  | .pdb, .bounds => .full
  | .pdb, .ring => .full
  | .pd, .data => .full
  | .data _, .arr => .files
  | .data .boundsFromNodes, .nodeCoords => if v == .new then .files else .no
  | .data ct, r => if dataVisits v ct r then .full else .no
  | _, _ => .no

/- `get_filenames()` of a component: a file array reports its names, a `Data` what its source
array reports. -/
mutual
def Tree.fnames (v : Ver) : Tree → List Name
  | .leaf _ fs => fs
  | .obj _ c _ kids => fnamesKids v c kids
def fnamesKids (v : Ver) (c : Cls) : List Tree → List Name
  | [] => []
  | t :: rest =>
    (match c with
     | .data _ => if follows v c t.role == .files then t.fnames v else []
     | _ => []) ++ fnamesKids v c rest
end

/- `_original_filenames()`. -/
mutual
def Tree.orig (v : Ver) : Tree → List Name
  | .leaf _ fs => fs
  | .obj _ c own kids => own ++ origKids v c kids
def origKids (v : Ver) (c : Cls) : List Tree → List Name
  | [] => []
  | t :: rest =>
    (match follows v c t.role with
     | .full => t.orig v
     | .files => t.fnames v
     | .no => []) ++ origKids v c rest
end

/-! ## What the classes can hold -/

/-- Which components a class has at all (from the class definitions: the `__init__` /
`_set_component` keys of the array classes, `get_bounds` / `get_interior_ring` / `get_node_count` /
`get_part_node_count` of `PropertiesDataBounds`, the constructs of a field). -/
def allowed : Cls → Role → Bool
  | .field, .cons | .field, .data | .domain, .cons => true
  | .pdb, .data | .pdb, .bounds | .pdb, .ring | .pdb, .nodeCount | .pdb, .partNodeCount => true
  | .pd, .data => true
  | .data _, .arr => true
  | .data .gathered, .list => true
  | .data .raggedC, .count => true
  | .data .raggedI, .index => true
  | .data .raggedIC, .count | .data .raggedIC, .index => true
  | .data .subsampled, .tiePointIndex | .data .subsampled, .interpParam | .data .subsampled, .depTiePoints => true
  | .data .boundsFromNodes, .nodeCoords => true
  | _, _ => false

/-- The class a component of a given role must have; `none`: it must be an array (a leaf). -/
def kidFits : Role → Option Cls → Bool
  | .cons, some .pdb | .cons, some .pd | .cons, some .props => true
  | .data, some (.data _) => true
  | .bounds, some .pd | .ring, some .pd => true
  | .nodeCount, some .props | .partNodeCount, some .props => true
  | .arr, none => true
  | .count, some .pd | .index, some .pd | .list, some .pd | .tiePointIndex, some .pd | .interpParam, some .pd => true
  | .depTiePoints, some (.data .none) | .nodeCoords, some (.data .none) => true
  | _, _ => false

def Tree.cls? : Tree → Option Cls
  | .leaf _ _ => none
  | .obj _ c _ _ => some c

mutual
def Tree.wellTyped : Tree → Bool
  | .leaf _ _ => true
  | .obj _ c _ kids => wellTypedKids c kids
def wellTypedKids (c : Cls) : List Tree → Bool
  | [] => true
  | t :: rest => allowed c t.role && kidFits t.role t.cls? && t.wellTyped && wellTypedKids c rest
end

/- Every leaf below is reached by the aggregation. -/
mutual
def Tree.closed (v : Ver) : Tree → Bool
  | .leaf _ _ => true
  | .obj _ c _ kids => closedKids v c kids
def closedKids (v : Ver) (c : Cls) : List Tree → Bool
  | [] => true
  | t :: rest =>
    (match follows v c t.role with
     | .full => t.closed v
     | .files => t.need.all (fun x => (t.fnames v).contains x)
     | .no => t.need.isEmpty) && closedKids v c rest
end

/- No interpolation parameter variable and no node coordinates anywhere (what the code as it
stands needs). -/
mutual
def Tree.noHidden : Tree → Bool
  | .leaf r _ => r != .interpParam && r != .nodeCoords
  | .obj r _ _ kids => r != .interpParam && r != .nodeCoords && noHiddenKids kids
def noHiddenKids : List Tree → Bool
  | [] => true
  | t :: rest => t.noHidden && noHiddenKids rest
end

/-! ## Derivations on the tree -/

/- Every recorded name forgotten (what copies into fresh holders, `Data(source())`, `Bounds(data=…)`
… can do to any subset of the records; this is the extreme case). -/
mutual
def Tree.clearOwn : Tree → Tree
  | .leaf r fs => .leaf r fs
  | .obj r c _ kids => .obj r c [] (clearOwnKids kids)
def clearOwnKids : List Tree → List Tree
  | [] => []
  | t :: rest => t.clearOwn :: clearOwnKids rest
end

/- `to_memory()`: every array below is brought to memory, the records stay. -/
mutual
def Tree.toMem : Tree → Tree
  | .leaf r _ => .leaf r []
  | .obj r c own kids => .obj r c own (toMemKids kids)
def toMemKids : List Tree → List Tree
  | [] => []
  | t :: rest => t.toMem :: toMemKids rest
end

def Tree.withRole (r : Role) : Tree → Tree
  | .leaf _ fs => .leaf r fs
  | .obj _ c own kids => .obj r c own kids

/-- One step of a component-level history, addressed by a path of child positions. -/
inductive TOp
  | setKid (path : List Nat) (s : Tree)   -- `x.set_data(d)`, `c.set_bounds(b)`, a rebuilt array part …:
                                          -- the component of role `s.role` of the object at `path` is replaced
  | delKid (path : List Nat) (r : Role)   -- `del_data`, `del_bounds`, `del_construct`
  | toMem (path : List Nat)               -- `to_memory()` of the object at `path`
  | forget (path : List Nat)              -- the object at `path` loses its own record
deriving Repr, Inhabited

/- apply `g` to the object at `path` -/
mutual
def Tree.at (g : Tree → Tree) : List Nat → Tree → Tree
  | [], t => g t
  | _ :: _, .leaf r fs => .leaf r fs
  | i :: p, .obj r c own kids => .obj r c own (atKids g i p kids)
def atKids (g : Tree → Tree) : Nat → List Nat → List Tree → List Tree
  | _, _, [] => []
  | 0, p, t :: rest => Tree.at g p t :: rest
  | i + 1, p, t :: rest => t :: atKids g i p rest
end

def dropRole (r : Role) : List Tree → List Tree
  | [] => []
  | t :: rest => if t.role == r then dropRole r rest else t :: dropRole r rest

def Tree.setKid (s : Tree) : Tree → Tree
  | .leaf r fs => .leaf r fs
  | .obj r c own kids =>
    if allowed c s.role && kidFits s.role s.cls? then
      -- constructs accumulate; every other component is unique in its parent
      .obj r c own ((if s.role == .cons then kids else dropRole s.role kids) ++ [s])
    else .obj r c own kids

def Tree.delKid (r' : Role) : Tree → Tree
  | .leaf r fs => .leaf r fs
  | .obj r c own kids => .obj r c own (dropRole r' kids)

def Tree.forget : Tree → Tree
  | .leaf r fs => .leaf r fs
  | .obj r c _ kids => .obj r c [] kids

def Tree.step (t : Tree) : TOp → Tree
  | .setKid p s => if s.wellTyped then Tree.at (Tree.setKid s) p t else t
  | .delKid p r => Tree.at (Tree.delKid r) p t
  | .toMem p => Tree.at Tree.toMem p t
  | .forget p => Tree.at Tree.forget p t

def Tree.run (t : Tree) : List TOp → Tree
  | [] => t
  | op :: ops => (t.step op).run ops

end Cfdm.FilesTree
