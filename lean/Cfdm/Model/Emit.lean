/-
C19 — `creation_commands` of the classes that are not containers, as a small command
language with an interpreter.  Core Lean only (this file is linked into the model driver).

Mirrors, at /repo HEAD,
  cfdm/data/data.py                    Data.creation_commands
  cfdm/mixin/properties.py             Properties.creation_commands
  cfdm/mixin/propertiesdata.py         PropertiesData.creation_commands  (+ get_data's units/calendar/fill value)
  cfdm/mixin/propertiesdatabounds.py   PropertiesDataBounds.creation_commands
  cfdm/mixin/coordinate.py, cellmeasure.py, domaintopology.py, cellconnectivity.py
  cfdm/cellmethod.py, cfdm/coordinatereference.py, cfdm/domainaxis.py

Part 1  values and how the emitter spells them (`repr`, `str`, `tolist`)
Part 2  the objects (abstract state observable through the public accessors)
Part 3  the emitted statements, the keyword arguments and the emitters
Part 4  the interpreter (`exec` of the emitted text in a namespace that holds the package
        under one prefix), `none` = the text raises (NameError / AttributeError / ValueError)
Part 5  the specification side: observation of an object, `same`
-/
namespace Cfdm.Emit

/-! ## Part 1 — values -/

/-- A Python scalar, as `ndarray.tolist()` returns it or as a literal denotes it.  Only what the
emitter's behaviour depends on is kept: whether `repr` / `str` of it can be evaluated again. -/
inductive Sc
  /-- int, finite float, bool, bytes, complex: `repr` and `str` both evaluate back to the value -/
  | num (tok : String)
  /-- str: `repr` evaluates back; `str()` is a bare word -/
  | str (tok : String)
  /-- nan, inf, -inf: `repr` = `str` is a name that a fresh namespace does not define -/
  | nonfinite (tok : String)
  deriving DecidableEq, Repr

/-- A scalar value held by a property, a parameter or a Data attribute: a Python scalar or a
numpy scalar (`np.float32(-999.0)`: what reading a dataset gives). -/
structure Atom where
  np : Bool
  sc : Sc
  deriving DecidableEq, Repr

/-- A literal of the emitted text. -/
inductive Lit
  /-- evaluates to the Python scalar -/
  | val (s : Sc)
  /-- a name or call that a fresh namespace cannot evaluate (`nan`, `np.float32(-999.0)`, `x`) -/
  | name (tok : String)
  deriving DecidableEq, Repr

/-- `{value!r}` -/
def reprLit (a : Atom) : Lit :=
  if a.np then .name "np" else
  match a.sc with
  | .nonfinite t => .name t
  | s => .val s

/-- `{value}` (the `fill_value=` of `Data.creation_commands`) -/
def strLit (a : Atom) : Lit :=
  match a.sc with
  | .num t => .val (.num t)
  | .str t => .name t
  | .nonfinite t => .name t

/-- `value.tolist()` of a numpy scalar -/
def Atom.tolist (a : Atom) : Atom := { a with np := false }

def py (s : Sc) : Atom := ⟨false, s⟩

def Lit.eval : Lit → Option Sc
  | .val s => some s
  | .name _ => none

def evalLits : List Lit → Option (List Sc)
  | [] => some []
  | l :: ls =>
    match l.eval, evalLits ls with
    | some s, some r => some (s :: r)
    | _, _ => none

/-- A property or parameter value. -/
inductive PVal
  | atom (a : Atom)
  /-- a Python list of scalars (numpy scalars inside it are *not* converted by the emitter) -/
  | list (l : List Atom)
  /-- a numpy array -/
  | arr (l : List Sc)
  deriving DecidableEq, Repr

/-- a literal or a list display -/
inductive LitExpr
  | one (l : Lit)
  | many (l : List Lit)
  deriving DecidableEq, Repr

/-- `if isinstance(value, (np.generic, np.ndarray)): value = value.tolist()` followed by `repr(value)` -/
def PVal.spell : PVal → LitExpr
  | .atom a => .one (reprLit (if a.np then a.tolist else a))
  | .list l => .many (l.map reprLit)
  | .arr l => .many (l.map (fun s => reprLit (py s)))

def LitExpr.eval : LitExpr → Option PVal
  | .one l => l.eval.map (fun s => PVal.atom (py s))
  | .many l => (evalLits l).map (fun r => PVal.list (r.map py))

/-- the value up to numpy-ness (`equals` compares numbers, not their container types) -/
def PVal.norm : PVal → PVal
  | .atom a => .atom (py a.sc)
  | .list l => .list (l.map (fun a => py a.sc))
  | .arr l => .list (l.map py)

/-! ## Part 2 — objects -/

/-- `dtype.kind` and `dtype.itemsize` (`f8`, `i4`, `b1`, `U3`) -/
structure DType where
  kind : String
  size : Nat
  deriving DecidableEq, Repr

structure MData where
  shape : List Nat
  /-- row-major values (what lies under a masked element is kept but is not observable) -/
  vals : List Sc
  mask : List Bool
  units : Option Atom
  calendar : Option Atom
  fill : Option Atom
  /-- `dtype.descr[0][1][1:]`, e.g. `f8`, `i4`, `b1`, `U3` -/
  dtype : DType
  deriving DecidableEq, Repr

def MData.masked (d : MData) : Bool := d.mask.any id

inductive Cls
  | Bounds | InteriorRing | Count | Index | ListV | NodeCount | PartNodeCount | InterpParam | TiePointIndex
  | FieldAncillary | CellMeasure | DomainTopology | CellConnectivity
  | DimensionCoordinate | AuxiliaryCoordinate | DomainAncillary
  | DomainAxis | CellMethod | CoordinateReference
  deriving DecidableEq, Repr

/-- classes with `nc_set_dimension` -/
def Cls.hasDim : Cls → Bool
  | .Bounds | .InteriorRing | .Count | .Index | .PartNodeCount => true
  | _ => false

/-- classes with `nc_set_sample_dimension` -/
def Cls.hasSampleDim : Cls → Bool
  | .Count | .Index => true
  | _ => false

/-- classes with `set_data` (`PropertiesData`) -/
def Cls.hasData : Cls → Bool
  | .NodeCount | .PartNodeCount | .DomainAxis | .CellMethod | .CoordinateReference => false
  | _ => true

/-- `PropertiesDataBounds` -/
def Cls.hasBounds : Cls → Bool
  | .DimensionCoordinate | .AuxiliaryCoordinate | .DomainAncillary => true
  | _ => false

/-- `mixin.Coordinate` (passes `_coordinate=True`) -/
def Cls.isCoord : Cls → Bool
  | .DimensionCoordinate | .AuxiliaryCoordinate => true
  | _ => false

def Cls.isLeaf : Cls → Bool
  | .DimensionCoordinate | .AuxiliaryCoordinate | .DomainAncillary
  | .DomainAxis | .CellMethod | .CoordinateReference => false
  | _ => true

inductive AttrKind
  | measure | cell | connectivity     -- `set_measure` / `set_cell` / `set_connectivity`
  | geometry | nodeVar                -- `set_geometry` / `nc_set_node_coordinate_variable`
  deriving DecidableEq, Repr

/-- the class-specific attribute of a `PropertiesData` class -/
def Cls.attrKind : Cls → Option AttrKind
  | .CellMeasure => some .measure
  | .DomainTopology => some .cell
  | .CellConnectivity => some .connectivity
  | _ => none

/-- A `Properties` / `PropertiesData` object: bounds, interior ring, count / index / list
variable, field ancillary, cell measure, domain topology, cell connectivity, … -/
structure Leaf where
  cls : Cls
  /-- `properties()` in dictionary order -/
  props : List (String × PVal)
  ncvar : Option String
  ncdim : Option String
  sampleDim : Option String
  /-- the stored data; its own units, calendar and fill value are not observable
  (`get_data` replaces them by the properties) -/
  data : Option MData
  attr : Option String
  /-- `inherited_properties()` of a `Bounds` / `InteriorRing` taken from its parent -/
  inherited : List (String × PVal)
  deriving DecidableEq, Repr

def Leaf.empty (c : Cls) : Leaf := ⟨c, [], none, none, none, none, none, []⟩

/-- A `PropertiesDataBounds` object: dimension / auxiliary coordinate, domain ancillary. -/
structure PObj where
  base : Leaf
  geometry : Option String
  climatology : Bool
  nodeVar : Option String
  bounds : Option Leaf
  ring : Option Leaf
  deriving DecidableEq, Repr

def PObj.empty (c : Cls) : PObj := ⟨Leaf.empty c, none, false, none, none, none⟩

structure MAxis where
  size : Option Nat
  ncdim : Option String
  unlimited : Bool
  deriving DecidableEq, Repr

inductive QualVal
  /-- `within` / `where` / `over` / `comment`: a string -/
  | str (s : String)
  /-- `interval`: a list of Data -/
  | interval (l : List MData)
  deriving DecidableEq, Repr

structure MCM where
  method : Option String
  axes : Option (List String)
  /-- `qualifiers()` in dictionary order -/
  quals : List (String × QualVal)
  deriving DecidableEq, Repr

inductive Param
  | val (v : PVal)
  | data (d : MData)
  deriving DecidableEq, Repr

structure MRef where
  ncvar : Option String
  /-- `coordinates()`, a set: listed in sorted order -/
  coords : List String
  datum : List (String × Param)
  conv : List (String × Param)
  ancils : List (String × Option String)
  deriving DecidableEq, Repr

inductive Obj
  | data (d : MData)
  | leaf (x : Leaf)
  | pobj (x : PObj)
  | axis (a : MAxis)
  | cm (m : MCM)
  | ref (r : MRef)
  deriving DecidableEq, Repr

/-! ### what `get_data` shows -/

def lookupProp (ps : List (String × PVal)) (k : String) : Option PVal := ps.lookup k

def atomOf : Option PVal → Option Atom
  | some (.atom a) => some a
  | _ => none

/-- `get_property(k)` of a `Bounds`: own properties, then the inherited ones -/
def Leaf.prop (x : Leaf) (k : String) : Option PVal :=
  match lookupProp x.props k with
  | some v => some v
  | none => lookupProp x.inherited k

/-- `self.get_property('missing_value', self.get_property('_FillValue', None))` -/
def Leaf.fillProp (x : Leaf) : Option PVal :=
  match lookupProp x.props "missing_value" with
  | some v => some v
  | none => lookupProp x.props "_FillValue"

/-- `get_data()`: units, calendar and fill value come from the properties -/
def Leaf.getData (x : Leaf) : Option MData :=
  x.data.map (fun d => { d with units := atomOf (x.prop "units"), calendar := atomOf (x.prop "calendar"),
                                fill := atomOf x.fillProp })

/-- `get_bounds()`: the bounds with the parent's properties as their inherited properties -/
def PObj.getBounds (x : PObj) : Option Leaf := x.bounds.map (fun b => { b with inherited := x.base.props })

/-- the check of `set_bounds`: when both have data, the bounds have more dimensions than the
parent and their leading dimensions have the parent's shape (else `ValueError`) -/
def boundsConform (parent bounds : Option MData) : Bool :=
  match parent, bounds with
  | some d, some bd => decide (d.shape.length < bd.shape.length) && decide (bd.shape.take d.shape.length = d.shape)
  | _, _ => true

/-! ## Part 3 — statements, keywords, emitters -/

/-- `<ns>Data(<array>, units=…, calendar=…, dtype=…, mask=<ns>Data(<mask>, dtype='b1'), fill_value=…)` -/
structure DataExpr where
  ns : List Char
  /-- shape of the nested list display -/
  shape : List Nat
  array : List Lit
  units : Option Lit
  calendar : Option Lit
  dtype : DType
  /-- prefix, shape and values of the nested mask constructor -/
  mask : Option (List Char × List Nat × List Bool)
  fill : Option Lit
  deriving DecidableEq, Repr

inductive NcKind
  | dimension | sampleDimension
  deriving DecidableEq, Repr

inductive QExpr
  | str (s : String)
  | interval (l : List DataExpr)
  deriving DecidableEq, Repr

inductive ParamExpr
  | lit (e : LitExpr)
  | data (e : DataExpr)
  deriving DecidableEq, Repr

inductive Stmt
  | comment
  | new (name : String) (ns : List Char) (cls : Cls)          -- `name = <ns>Cls()`
  | newData (name : String) (e : DataExpr)                    -- `name = <ns>Data(…)`
  | setProps (name : String) (ps : List (String × LitExpr))   -- `name.set_properties({…})`
  | ncVar (name : String) (v : String)                        -- `name.nc_set_variable('v')`
  | ncDim (name : String) (k : NcKind) (v : String)           -- `name.nc_set_dimension('v')` / `nc_set_sample_dimension`
  | setData (name dname : String)                             -- `name.set_data(dname)`
  | setAttr (name : String) (k : AttrKind) (v : String)       -- `name.set_measure('v')`, …
  | setClimatology (name : String)                            -- `name.set_climatology(True)`
  | setBounds (name bname : String)                           -- `name.set_bounds(bname)`
  | setRing (name rname : String)                             -- `name.set_interior_ring(rname)`
  | setSize (name : String) (n : Nat)
  | setUnlimited (name : String)
  | setMethod (name : String) (m : String)
  | setAxes (name : String) (l : List String)
  | setQualifier (name : String) (term : String) (v : QExpr)
  | setCoords (name : String) (l : List String)
  | setParam (name : String) (datum : Bool) (term : String) (v : ParamExpr)
  | setAncils (name : String) (l : List (String × Option String))
  deriving DecidableEq, Repr

/-- `self._package() + '.'` -/
def defaultNs : List Char := ['c', 'f', 'd', 'm', '.']

/-- ```
if namespace is None: namespace = self._package() + "."
elif namespace and not namespace.endswith("."): namespace += "."
``` -/
def nsPrefix : Option (List Char) → List Char
  | none => defaultNs
  | some [] => []
  | some (c :: l) => if (c :: l).getLast? = some '.' then c :: l else (c :: l) ++ ['.']

structure KW where
  name : String := "c"
  dataName : String := "data"
  boundsName : String := "b"
  ringName : String := "i"
  ns : Option (List Char) := none
  header : Bool := true
  deriving DecidableEq, Repr

/-- `ndarray.tolist()` of an array with a zero-sized dimension stops nesting there:
shape (0, 3) is displayed as `[]`, (2, 0, 4) as `[[], []]` -/
def litShape : List Nat → List Nat
  | [] => []
  | 0 :: _ => [0]
  | (n + 1) :: l => (n + 1) :: litShape l

/-- data types for which `Data.filled()` finds a default fill value
(`netCDF4.default_fillvals`, and `S1` for every string type) -/
def hasDefaultFill (t : DType) : Bool :=
  ((t.kind = "i" || t.kind = "u") && [1, 2, 4, 8].contains t.size) ||
  (t.kind = "f" && [4, 8].contains t.size) || t.kind = "S" || t.kind = "U"

/-- the value `filled()` writes under the mask: the data's fill value, else the type's default
(an opaque finite number / the NUL string) -/
def fillSc (d : MData) : Option Sc :=
  match d.fill with
  | some a => some a.sc
  | none => if hasDefaultFill d.dtype then some (.num "default_fill") else none

def fillUnder : List Sc → List Bool → Sc → List Sc
  | v :: vs, m :: ms, f => (if m then f else v) :: fillUnder vs ms f
  | vs, [], _ => vs
  | [], _, _ => []

/-- the spelling of units / calendar: `{units!r}` (`fix`: after `tolist()` of a numpy scalar) -/
def unitsLit (fix : Bool) (a : Atom) : Lit := reprLit (if fix && a.np then a.tolist else a)

/-- the spelling of the fill value: `{fill_value}` as the code is, `{fill_value!r}` after `tolist()` with the repair -/
def fillLit (fix : Bool) (a : Atom) : Lit := if fix then unitsLit true a else strLit a

/-- `Data.creation_commands(name=…, namespace=namespace0)`; `none` = it raises `ValueError`
(`name == 'mask'` for masked data; no fill value can be determined for the data type).
`unitsFix` = with the proposed repair (fixes/C19-data-attribute-spelling.patch): numpy-valued units /
calendar / fill value are converted with `tolist()` and the fill value is written with `repr`. -/
def emitDataWith (unitsFix : Bool) (d : MData) (name : Option String) (ns0 : Option (List Char)) : Option DataExpr :=
  let u := unitsLit unitsFix
  if d.masked then
    if name = some "mask" then none else
    match fillSc d with
    | none => none
    | some f =>
      some { ns := nsPrefix ns0, shape := litShape d.shape,
             array := (fillUnder d.vals d.mask f).map (fun s => reprLit (py s)),
             units := d.units.map u, calendar := d.calendar.map u, dtype := d.dtype,
             mask := some (nsPrefix ns0, litShape d.shape, d.mask), fill := d.fill.map (fillLit unitsFix) }
  else
    some { ns := nsPrefix ns0, shape := litShape d.shape, array := d.vals.map (fun s => reprLit (py s)),
           units := d.units.map u, calendar := d.calendar.map u, dtype := d.dtype,
           mask := none, fill := d.fill.map (fillLit unitsFix) }

/-- the code as it is -/
def emitData := emitDataWith false

def optS {α} (o : Option α) (f : α → Stmt) : List Stmt :=
  match o with
  | some a => [f a]
  | none => []

def headerS (header : Bool) : List Stmt := if header then [Stmt.comment, Stmt.comment] else []

/-- `Properties.creation_commands(namespace=ns, name=name, header=header)` (`ns` as received) -/
def emitProps (x : Leaf) (name : String) (ns : Option (List Char)) (header : Bool) : List Stmt :=
  headerS header ++ [Stmt.new name (nsPrefix ns) x.cls] ++
  (if x.props.isEmpty then [] else [Stmt.setProps name (x.props.map (fun p => (p.1, p.2.spell)))]) ++
  optS x.ncvar (Stmt.ncVar name) ++
  (if x.cls.hasDim then optS x.ncdim (Stmt.ncDim name .dimension) else []) ++
  (if x.cls.hasSampleDim then optS x.sampleDim (Stmt.ncDim name .sampleDimension) else [])

/-- `PropertiesData.creation_commands` and the one-statement extensions of `CellMeasure`,
`DomainTopology`, `CellConnectivity`; `none` = `ValueError`.  The processed name space is
handed to `Properties.creation_commands`, the caller's to `Data.creation_commands`. -/
def emitLeafWith (fix : Bool) (x : Leaf) (name dataName : String) (ns0 : Option (List Char)) (header : Bool) :
    Option (List Stmt) :=
  if x.cls.hasData && name = dataName then none else
  let base := emitProps x name (some (nsPrefix ns0)) header
  let attr := match x.cls.attrKind with
    | some k => optS x.attr (Stmt.setAttr name k)
    | none => []
  match (if x.cls.hasData then x.getData else none) with
  | none => some (base ++ attr)
  | some d =>
    match emitDataWith fix d (some dataName) ns0 with
    | none => none
    | some e => some (base ++ [Stmt.newData dataName e, Stmt.setData name dataName] ++ attr)

def emitLeaf := emitLeafWith false

/-- a component with its own `creation_commands` (bounds, interior ring), followed by the
statement that attaches it to the parent -/
def emitSub (fix : Bool) (o : Option Leaf) (parent sub dataName : String) (ns0 : Option (List Char))
    (attach : String → String → Stmt) : Option (List Stmt) :=
  match o with
  | none => some []
  | some b => (emitLeafWith fix b sub dataName ns0 false).map (· ++ [attach parent sub])

/-- `PropertiesDataBounds.creation_commands` (+ `mixin.Coordinate`) -/
def emitPObjWith (fix : Bool) (x : PObj) (kw : KW) : Option (List Stmt) :=
  if kw.name = kw.dataName || kw.name = kw.boundsName || kw.name = kw.ringName then none
  else if kw.dataName = kw.boundsName || kw.dataName = kw.ringName then none
  else
  match emitLeafWith fix x.base kw.name kw.dataName (some (nsPrefix kw.ns)) kw.header,
        emitSub fix x.getBounds kw.name kw.boundsName kw.dataName kw.ns Stmt.setBounds,
        emitSub fix x.ring kw.name kw.ringName kw.dataName kw.ns Stmt.setRing with
  | some base, some bs, some rs =>
    some (base ++ optS x.geometry (Stmt.setAttr kw.name .geometry) ++
      (if x.base.cls.isCoord && x.climatology then [Stmt.setClimatology kw.name] else []) ++ bs ++ rs ++
      (if x.base.cls = .AuxiliaryCoordinate then optS x.nodeVar (Stmt.setAttr kw.name .nodeVar) else []))
  | _, _, _ => none

def emitPObj := emitPObjWith false

/-- `DomainAxis.creation_commands` -/
def emitAxis (a : MAxis) (name : String) (ns : Option (List Char)) (header : Bool) : List Stmt :=
  headerS header ++ [Stmt.new name (nsPrefix ns) .DomainAxis] ++
  optS a.size (Stmt.setSize name) ++ optS a.ncdim (Stmt.ncDim name .dimension) ++
  (if a.unlimited then [Stmt.setUnlimited name] else [])

def mapMOpt {α β} (f : α → Option β) : List α → Option (List β)
  | [] => some []
  | a :: l =>
    match f a, mapMOpt f l with
    | some b, some r => some (b :: r)
    | _, _ => none

def emitQual (fix : Bool) (name : String) (ns0 : Option (List Char)) (q : String × QualVal) : Option Stmt :=
  match q.2 with
  | .str s => some (Stmt.setQualifier name q.1 (.str s))
  | .interval l =>
    (mapMOpt (fun d => emitDataWith fix d none ns0) l).map (fun es => Stmt.setQualifier name q.1 (.interval es))

/-- `CellMethod.creation_commands` -/
def emitCMWith (fix : Bool) (m : MCM) (name : String) (ns0 : Option (List Char)) (header : Bool) : Option (List Stmt) :=
  (mapMOpt (emitQual fix name ns0) m.quals).map (fun qs =>
    headerS header ++ [Stmt.new name (nsPrefix ns0) .CellMethod] ++
    optS m.method (Stmt.setMethod name) ++ optS m.axes (Stmt.setAxes name) ++ qs)

def emitCM := emitCMWith false

def emitParam (fix : Bool) (name : String) (ns0 : Option (List Char)) (datum : Bool) (p : String × Param) : Option Stmt :=
  match p.2 with
  | .val v => some (Stmt.setParam name datum p.1 (.lit v.spell))
  | .data d => (emitDataWith fix d none ns0).map (fun e => Stmt.setParam name datum p.1 (.data e))

/-- `CoordinateReference.creation_commands` -/
def emitRefWith (fix : Bool) (r : MRef) (name : String) (ns0 : Option (List Char)) (header : Bool) : Option (List Stmt) :=
  match mapMOpt (emitParam fix name ns0 true) r.datum, mapMOpt (emitParam fix name ns0 false) r.conv with
  | some ds, some cs =>
    some (headerS header ++ [Stmt.new name (nsPrefix ns0) .CoordinateReference] ++
      optS r.ncvar (Stmt.ncVar name) ++
      (if r.coords.isEmpty then [] else [Stmt.setCoords name r.coords]) ++ ds ++ cs ++
      (if r.ancils.isEmpty then [] else [Stmt.setAncils name r.ancils]))
  | _, _ => none

def emitRef := emitRefWith false

/-! ### static checks on the emitted text -/

def DataExpr.ctorsUse (p : List Char) (e : DataExpr) : Bool :=
  decide (e.ns = p) && (match e.mask with
    | some m => decide (m.1 = p)
    | none => true)

/-- every constructor call of the statement carries the prefix `p` -/
def Stmt.ctorsUse (p : List Char) : Stmt → Bool
  | .new _ ns _ => decide (ns = p)
  | .newData _ e => e.ctorsUse p
  | .setQualifier _ _ (.interval l) => l.all (·.ctorsUse p)
  | .setParam _ _ _ (.data e) => e.ctorsUse p
  | _ => true

/-- the names a statement reads -/
def Stmt.uses : Stmt → List String
  | .comment => []
  | .new _ _ _ => []
  | .newData _ _ => []
  | .setProps n _ | .ncVar n _ | .ncDim n _ _ | .setAttr n _ _ | .setClimatology n | .setSize n _
  | .setUnlimited n | .setMethod n _ | .setAxes n _ | .setQualifier n _ _ | .setCoords n _
  | .setParam n _ _ _ | .setAncils n _ => [n]
  | .setData n d => [n, d]
  | .setBounds n b => [n, b]
  | .setRing n r => [n, r]

/-- the name a statement binds -/
def Stmt.defines : Stmt → Option String
  | .new n _ _ => some n
  | .newData n _ => some n
  | _ => none

/-- every name is bound by an earlier statement of the text before it is read -/
def definedBeforeUse : List String → List Stmt → Bool
  | _, [] => true
  | known, s :: rest =>
    s.uses.all (fun n => known.contains n) &&
    definedBeforeUse (match s.defines with
                      | some n => n :: known
                      | none => known) rest

/-! ## Part 4 — interpreter -/

/-- the namespace of `exec`: variable bindings -/
abbrev Env := String → Option Obj

def Env.empty : Env := fun _ => none
def Env.set (e : Env) (n : String) (o : Obj) : Env := fun m => if m = n then some o else e m

/-- an optional keyword argument -/
def evOpt : Option Lit → Option (Option Atom)
  | none => some none
  | some l => l.eval.map (fun s => some (py s))

/-- `Data(array, units=…, …)` evaluated in a namespace that holds the package under `pkg` -/
def DataExpr.eval (pkg : List Char) (e : DataExpr) : Option MData :=
  if e.ns ≠ pkg then none else
  match evalLits e.array with
  | none => none
  | some vals =>
    match evOpt e.units, evOpt e.calendar, evOpt e.fill with
    | some u, some c, some f =>
      (match e.mask with
       | none => some { shape := e.shape, vals := vals, mask := vals.map (fun _ => false),
                        units := u, calendar := c, fill := f, dtype := e.dtype }
       | some (mns, mshape, m) =>
         if mns ≠ pkg then none
         else if mshape ≠ e.shape then none
         else some { shape := e.shape, vals := vals, mask := m, units := u, calendar := c, fill := f, dtype := e.dtype })
    | _, _, _ => none

/-- `d.update(ps)` -/
def dictSet {β} (k : String) (v : β) : List (String × β) → List (String × β)
  | [] => [(k, v)]
  | p :: l => if p.1 = k then (k, v) :: l else p :: dictSet k v l

def dictUpdate {β} (d : List (String × β)) (ps : List (String × β)) : List (String × β) :=
  ps.foldl (fun acc p => dictSet p.1 p.2 acc) d

def evalProps : List (String × LitExpr) → Option (List (String × PVal))
  | [] => some []
  | p :: l =>
    match p.2.eval, evalProps l with
    | some v, some r => some ((p.1, v) :: r)
    | _, _ => none

/-- apply a change to the `Properties`/`PropertiesData` part of an object -/
def Obj.updLeaf (f : Leaf → Option Leaf) : Obj → Option Obj
  | .leaf x => (f x).map Obj.leaf
  | .pobj x => (f x.base).map (fun b => Obj.pobj { x with base := b })
  | _ => none

def evalDatas (pkg : List Char) : List DataExpr → Option (List MData)
  | [] => some []
  | e :: l =>
    match e.eval pkg, evalDatas pkg l with
    | some d, some r => some (d :: r)
    | _, _ => none

def step (pkg : List Char) (env : Env) : Stmt → Option Env
  | .comment => some env
  | .new n ns cls =>
    if ns ≠ pkg then none else
    some (env.set n (
      if cls.isLeaf then .leaf (Leaf.empty cls)
      else if cls.hasBounds then .pobj (PObj.empty cls)
      else match cls with
        | .DomainAxis => .axis ⟨none, none, false⟩
        | .CellMethod => .cm ⟨none, none, []⟩
        | _ => .ref ⟨none, [], [], [], []⟩))
  | .newData n e => (e.eval pkg).map (fun d => env.set n (.data d))
  | .setProps n ps =>
    match env n, evalProps ps with
    | some o, some vs => (o.updLeaf (fun x => some { x with props := dictUpdate x.props vs })).map (env.set n)
    | _, _ => none
  | .ncVar n v =>
    match env n with
    | some (.ref r) => some (env.set n (.ref { r with ncvar := some v }))
    | some o => (o.updLeaf (fun x => some { x with ncvar := some v })).map (env.set n)
    | none => none
  | .ncDim n k v =>
    match env n with
    | some (.axis a) => if k = .dimension then some (env.set n (.axis { a with ncdim := some v })) else none
    | some o => (o.updLeaf (fun x =>
        match k with
        | .dimension => if x.cls.hasDim then some { x with ncdim := some v } else none
        | .sampleDimension => if x.cls.hasSampleDim then some { x with sampleDim := some v } else none)).map (env.set n)
    | none => none
  | .setData n dn =>
    match env n, env dn with
    | some o, some (.data d) =>
      (o.updLeaf (fun x => if x.cls.hasData then some { x with data := some d } else none)).map (env.set n)
    | _, _ => none
  | .setAttr n k v =>
    match env n with
    | some (.leaf x) => if x.cls.attrKind = some k then some (env.set n (.leaf { x with attr := some v })) else none
    | some (.pobj x) =>
      (match k with
       | .geometry => some (env.set n (.pobj { x with geometry := some v }))
       | .nodeVar => if x.base.cls = .AuxiliaryCoordinate then some (env.set n (.pobj { x with nodeVar := some v })) else none
       | _ => none)
    | _ => none
  | .setClimatology n =>
    match env n with
    | some (.pobj x) => if x.base.cls.isCoord then some (env.set n (.pobj { x with climatology := true })) else none
    | _ => none
  | .setBounds n bn =>
    match env n, env bn with
    | some (.pobj x), some (.leaf b) =>
      if boundsConform x.base.data b.data then some (env.set n (.pobj { x with bounds := some b })) else none
    | _, _ => none
  | .setRing n rn =>
    match env n, env rn with
    | some (.pobj x), some (.leaf r) => some (env.set n (.pobj { x with ring := some r }))
    | _, _ => none
  | .setSize n k =>
    match env n with
    | some (.axis a) => some (env.set n (.axis { a with size := some k }))
    | _ => none
  | .setUnlimited n =>
    match env n with
    | some (.axis a) => some (env.set n (.axis { a with unlimited := true }))
    | _ => none
  | .setMethod n m =>
    match env n with
    | some (.cm c) => some (env.set n (.cm { c with method := some m }))
    | _ => none
  | .setAxes n l =>
    match env n with
    | some (.cm c) => some (env.set n (.cm { c with axes := some l }))
    | _ => none
  | .setQualifier n t v =>
    match env n with
    | some (.cm c) =>
      (match v with
       | .str s => some (env.set n (.cm { c with quals := dictSet t (.str s) c.quals }))
       | .interval es => (evalDatas pkg es).map (fun ds => env.set n (.cm { c with quals := dictSet t (.interval ds) c.quals })))
    | _ => none
  | .setCoords n l =>
    match env n with
    | some (.ref r) => some (env.set n (.ref { r with coords := l }))
    | _ => none
  | .setParam n datum t v =>
    match env n with
    | some (.ref r) =>
      (match (match v with
              | .lit e => e.eval.map Param.val
              | .data e => (e.eval pkg).map Param.data) with
       | none => none
       | some p =>
         if datum then some (env.set n (.ref { r with datum := dictSet t p r.datum }))
         else some (env.set n (.ref { r with conv := dictSet t p r.conv })))
    | _ => none
  | .setAncils n l =>
    match env n with
    | some (.ref r) => some (env.set n (.ref { r with ancils := dictUpdate r.ancils l }))
    | _ => none

def run (pkg : List Char) (env : Env) : List Stmt → Option Env
  | [] => some env
  | s :: rest =>
    match step pkg env s with
    | some env' => run pkg env' rest
    | none => none

/-- `exec(text, ns)` in a fresh namespace that holds only the package, reachable as `pkg` -/
def exec (pkg : List Char) (stmts : List Stmt) : Option Env := run pkg Env.empty stmts

/-! ## Part 5 — observation and `same` -/

def normProps (ps : List (String × PVal)) : List (String × PVal) := ps.map (fun p => (p.1, p.2.norm))

def normAtom (a : Option Atom) : Option Atom := a.map (fun a => py a.sc)

def blank : List Sc → List Bool → List Sc
  | v :: vs, m :: ms => (if m then Sc.num "--" else v) :: blank vs ms
  | vs, [] => vs
  | [], _ => []

/-- what is observable of a Data object: shape, data type, mask, the unmasked values,
units / calendar / fill value up to numpy-ness -/
def MData.norm (d : MData) : MData :=
  { d with vals := blank d.vals d.mask, units := normAtom d.units, calendar := normAtom d.calendar,
           fill := normAtom d.fill }

/-- what is observable of a `Properties`/`PropertiesData` object -/
def Leaf.obs (x : Leaf) : Leaf :=
  { x with props := normProps x.props, data := x.getData.map MData.norm, inherited := [] }

def PObj.obs (x : PObj) : PObj :=
  { x with base := x.base.obs, bounds := x.getBounds.map Leaf.obs, ring := x.ring.map Leaf.obs }

def QualVal.obs : QualVal → QualVal
  | .str s => .str s
  | .interval l => .interval (l.map MData.norm)

def MCM.obs (m : MCM) : MCM := { m with quals := m.quals.map (fun q => (q.1, q.2.obs)) }

def Param.obs : Param → Param
  | .val v => .val v.norm
  | .data d => .data d.norm

def MRef.obs (r : MRef) : MRef :=
  { r with datum := r.datum.map (fun p => (p.1, p.2.obs)), conv := r.conv.map (fun p => (p.1, p.2.obs)) }

def Obj.obs : Obj → Obj
  | .data d => .data d.norm
  | .leaf x => .leaf x.obs
  | .pobj x => .pobj x.obs
  | .axis a => .axis a
  | .cm m => .cm m.obs
  | .ref r => .ref r.obs

/-- "equal, with the same netCDF names" -/
def Obj.same (a b : Obj) : Bool := decide (a.obs = b.obs)

end Cfdm.Emit
