import Cfdm.Generated.LogLevels
/-
Model of cfdm's process-wide settings (C20).  Core Lean only.

Anchors (cfdm/functions.py, cfdm/decorators.py, cfdm/constants.py):
  CONSTANTS / ValidLogLevels          → `State`, `Level`
  _reset_log_emergence_level          → `resetEmergence`
  ConstantAccess.__new__ + _parse     → `access`
  Constant.__exit__                   → `exitConst`
  _configuration (with rollback)      → `cfgCall`, `cfgLoop`, `rollback`
  Configuration.__exit__              → `exitCfg`
  _manage_log_level_via_verbosity     → `decoOld` (the code as it is in 1.11.2.0, with the `calls[0]` counter)
                                        `decoMid` (the code after fixes/C20-verbose-scope.patch: validation
                                                   before the counter, a nested call puts back what it found;
                                                   the outermost exit is unchanged)
                                        `decoNew` (what the property demands of every call; the code after
                                                   fixes/C20-verbose-scope-full.patch, which needs an edited test)
  (the helpers `_disable_logging`, `_is_valid_log_level_int`, `_reset_log_emergence_level`, `log_level._parse`
   are modelled step by step in Model/SettingsFine.lean and proved to refine the definitions used here)
  Container._equals (tolerances)      → `eqResult`

Programs are well-nested trees (`Prog`); `runWith d` is their big-step semantics for a
decorator `d`; `traceWith d` lists what an observer sees after every step.
-/
namespace Cfdm.Settings
open Cfdm.Generated

/-! ### The enumeration `ValidLogLevels` -/

inductive Level
  | DISABLE | WARNING | INFO | DETAIL | DEBUG
  deriving DecidableEq, Repr, Inhabited

namespace Level

/-- Definition order of the enumeration. -/
def all : List Level := [DISABLE, WARNING, INFO, DETAIL, DEBUG]

def name : Level → String
  | DISABLE => "DISABLE" | WARNING => "WARNING" | INFO => "INFO" | DETAIL => "DETAIL" | DEBUG => "DEBUG"

def value : Level → Int
  | DISABLE => 0 | WARNING => 1 | INFO => 2 | DETAIL => 3 | DEBUG => -1

/-- `getattr(logging, name)`; never evaluated for `DISABLE` (the code branches before). -/
def no : Level → Nat
  | DISABLE => 0 | WARNING => 30 | INFO => 20 | DETAIL => 15 | DEBUG => 10

/-- `hasattr(ValidLogLevels, s)` / `getattr(ValidLogLevels, s)`. -/
def ofName? (s : String) : Option Level := all.find? (fun l => l.name == s)

/-- `ValidLogLevels(i)` (`none` = the enumeration raises). -/
def ofValue? (i : Int) : Option Level := all.find? (fun l => l.value == i)

end Level

/-- `str.upper()` (ASCII; written with list functions so that the kernel can evaluate it). -/
def upper (s : String) : String := String.ofList (s.toList.map Char.toUpper)

/-- `logging.CRITICAL`: what `logging.disable()` sets. -/
def critical : Nat := LogLevels.critical

/-! ### State -/

structure State where
  atol : Nat        -- CONSTANTS["ATOL"]  (an abstract float: index into the harness's table)
  rtol : Nat        -- CONSTANTS["RTOL"]
  level : Level     -- CONSTANTS["LOG_LEVEL"]
  root : Nat        -- logging.getLogger().level
  disable : Nat     -- logging.root.manager.disable
  calls : Nat       -- the private nesting counter of the unfixed decorator (never observed)
  deriving DecidableEq, Repr

/-- State right after `import cfdm`. -/
def State.init : State := { atol := 0, rtol := 0, level := .WARNING, root := 30, disable := 0, calls := 0 }

inductive Exc | ValueError | TypeError | KeyError | AttributeError
  deriving DecidableEq, Repr

inductive Outcome | ok | raised (e : Exc)
  deriving DecidableEq, Repr

/-- `_reset_log_emergence_level(level)` for the root logger. -/
def resetEmergence (l : Level) (s : State) : State :=
  if l = .DISABLE then { s with disable := critical }          -- _disable_logging()
  else { s with disable := 0, root := l.no }                    -- _disable_logging("NOTSET"); setLevel

/-! ### Setters (`ConstantAccess.__new__`) -/

/-- Argument of `atol`/`rtol`: something `float()` accepts, or a string it rejects. -/
inductive TolArg | val (i : Nat) | bad
  deriving DecidableEq, Repr

/-- Argument of `log_level`: a string (any case, maybe no level name) or an integer. -/
inductive LvlArg | str (s : String) | int (i : Int)
  deriving DecidableEq, Repr

/-- `log_level._parse` up to the validity test; `none` = `ValueError`. -/
def LvlArg.parse : LvlArg → Option Level
  | .str s => Level.ofName? (upper s)
  | .int i => Level.ofValue? i          -- _is_valid_log_level_int raises ValueError itself when invalid

inductive Key | atol | rtol | log
  deriving DecidableEq, Repr

/-- A call of a setter; `none` = called with no argument. -/
inductive SetOp
  | atol (a : Option TolArg)
  | rtol (a : Option TolArg)
  | log (a : Option LvlArg)
  deriving DecidableEq, Repr

def SetOp.key : SetOp → Key
  | .atol _ => .atol | .rtol _ => .rtol | .log _ => .log

/-- The value a `Constant` carries. -/
inductive Val | tol (i : Nat) | lvl (l : Level)
  deriving DecidableEq, Repr

def getVal (k : Key) (s : State) : Val :=
  match k with
  | .atol => .tol s.atol | .rtol => .tol s.rtol | .log => .lvl s.level

/-- `ConstantAccess.__new__`: `old = CONSTANTS[name]; if arg: CONSTANTS[name] = _parse(arg); return Constant(old)`.
`_parse` of `log_level` calls `_reset_log_emergence_level` before the assignment. -/
def access (op : SetOp) (s : State) : Except Exc (Val × State) :=
  match op with
  | .atol none => .ok (.tol s.atol, s)
  | .atol (some (.val i)) => .ok (.tol s.atol, { s with atol := i })
  | .atol (some .bad) => .error .ValueError
  | .rtol none => .ok (.tol s.rtol, s)
  | .rtol (some (.val i)) => .ok (.tol s.rtol, { s with rtol := i })
  | .rtol (some .bad) => .error .ValueError
  | .log none => .ok (.lvl s.level, s)
  | .log (some a) =>
    match a.parse with
    | none => .error .ValueError
    | some l => .ok (.lvl s.level, { resetEmergence l s with level := l })

/-- The setter call that hands a stored value back: `self._func(self.value)`. -/
def opOf (k : Key) (v : Val) : SetOp :=
  match k, v with
  | .atol, .tol i => .atol (some (.val i))
  | .rtol, .tol i => .rtol (some (.val i))
  | .log, .lvl l => .log (some (.str l.name))
  -- ill-typed pairs never arise (a Constant is made by its own setter)
  | .atol, .lvl _ => .atol none
  | .rtol, .lvl _ => .rtol none
  | .log, .tol _ => .log none

/-- `Constant.__exit__`: `self._func(self.value)`; the exception of the block, if any, propagates. -/
def exitConst (k : Key) (old : Val) (s : State) : State :=
  match access (opOf k old) s with
  | .ok (_, s') => s'
  | .error _ => s

/-! ### `configuration` -/

structure CfgArgs where
  a : Option TolArg
  r : Option TolArg
  l : Option LvlArg
  deriving DecidableEq, Repr

/-- The returned `Configuration` (a dict of the three old values). -/
structure Cfg where
  atol : Nat
  rtol : Nat
  level : Level
  deriving DecidableEq, Repr

def snapshot (s : State) : Cfg := { atol := s.atol, rtol := s.rtol, level := s.level }

/-- The `except ValueError` branch: hand the old value back to every setter that had succeeded. -/
def rollback (orig : State) (applied : List Key) (s : State) : State :=
  applied.foldl (fun st k => exitConst k (getVal k orig) st) s

/-- The `for setting_alias, new_value in kwargs.items()` loop inside the `try`. -/
def cfgLoop (orig : State) : List SetOp → List Key → State → Option Exc × State
  | [], _, s => (none, s)
  | op :: rest, applied, s =>
    match access op s with
    | .error e => (some e, rollback orig applied s)
    | .ok (_, s') => cfgLoop orig rest (applied ++ [op.key]) s'

/-- The keyword arguments that are not `None`, in the order of `configuration`'s call. -/
def CfgArgs.ops (c : CfgArgs) : List SetOp :=
  (match c.a with | some a => [SetOp.atol (some a)] | none => []) ++
  (match c.r with | some r => [SetOp.rtol (some r)] | none => []) ++
  (match c.l with | some l => [SetOp.log (some l)] | none => [])

/-- `_configuration`: returns the exception (if any), the old values and the new state. -/
def cfgCall (c : CfgArgs) (s : State) : Option Exc × Cfg × State :=
  let r := cfgLoop s c.ops [] s
  (r.1, snapshot s, r.2)

/-- `Configuration.__exit__`: `configuration(**self)`. -/
def exitCfg (old : Cfg) (s : State) : State :=
  (cfgCall { a := some (.val old.atol), r := some (.val old.rtol), l := some (.str old.level.name) } s).2.2

/-! ### The verbosity decorator -/

/-- The `verbose` keyword argument. -/
inductive Verbose | none | int (i : Int) | str (s : String) | bool (b : Bool)
  deriving DecidableEq, Repr

/-- The conversions at the top of the wrapper: names (any case) → value, True → 3, False → 0.
`.error` = the `ValueError` for a string that is no level name. -/
def Verbose.toInt : Verbose → Except Exc (Option Int)
  | .none => .ok Option.none
  | .int i => .ok (some i)
  | .str s =>
    match Level.ofName? (upper s) with
    | some l => .ok (some l.value)
    | Option.none => .error .ValueError
  | .bool true => .ok (some 3)
  | .bool false => .ok (some 0)

/-- Conversion followed by `_is_valid_log_level_int`. -/
def Verbose.resolve (v : Verbose) : Except Exc (Option Level) :=
  match v.toInt with
  | .error e => .error e
  | .ok Option.none => .ok Option.none
  | .ok (some i) =>
    match Level.ofValue? i with
    | some l => .ok (some l)
    | Option.none => .error .ValueError

/-- What a wrapper invocation keeps in its local variables. -/
structure Frame where
  verbose : Option Level     -- the validated `verbose`
  root : Nat                 -- fixed code: logging state found on entry
  disable : Nat
  level : Level
  deriving DecidableEq, Repr

/-- A decorator = what happens before the `try` (may raise; the state it leaves then matters)
and what the `finally` does. -/
structure Deco where
  enter : Verbose → State → Except Exc Frame × State
  exit : Frame → State → State

def frameOf (v : Option Level) (s : State) : Frame :=
  { verbose := v, root := s.root, disable := s.disable, level := s.level }

/-- The decorator after `fixes/C20-verbose-scope.patch`: validate first; `verbose=None` is a
plain call; otherwise remember the root level and the disable level found on entry, apply the
verbosity, and in the `finally` put both back (and re-derive them from the global level if the
wrapped call itself changed that). -/
def decoNew : Deco where
  enter v s :=
    match v.resolve with
    | .error e => (.error e, s)
    | .ok none => (.ok (frameOf none s), s)
    | .ok (some l) => (.ok (frameOf (some l) s), resetEmergence l s)
  exit fr s :=
    match fr.verbose with
    | none => s
    | some _ =>
      let s1 := { s with root := fr.root, disable := fr.disable }
      if s.level ≠ fr.level then resetEmergence s.level s1 else s1

/-- The decorator as it is in 1.11.2.0: `calls[0] += 1` *before* validation; the `finally`
resets only when the counter is back to zero and only according to *this* call's `verbose`. -/
def decoOld : Deco where
  enter v s :=
    let s0 := { s with calls := s.calls + 1 }
    match v.toInt with
    | .error e => (.error e, s0)
    | .ok none => (.ok (frameOf none s0), s0)
    | .ok (some i) =>
      match Level.ofValue? i with
      | none => (.error .ValueError, s0)
      | some l =>
        let s1 := resetEmergence l s0
        -- if log_level() == "DISABLE" and verbose not in (0, None): _disable_logging("NOTSET")
        let s2 := if s1.level = .DISABLE ∧ l ≠ .DISABLE then { s1 with disable := 0 } else s1
        (.ok (frameOf (some l) s0), s2)
  exit fr s :=
    let s0 := { s with calls := s.calls - 1 }
    if s0.calls = 0 then
      let s1 :=
        match fr.verbose with
        | some .DISABLE => { s0 with disable := 0 }            -- verbose == 0
        | some _ => resetEmergence s0.level s0                 -- valid, non-zero
        | none => s0
      if s1.level = .DISABLE ∧ fr.verbose ≠ some .DISABLE then { s1 with disable := critical } else s1
    else s0

/-- The decorator after `fixes/C20-verbose-scope.patch` (the repair that passes the unedited test
suite): `verbose` is validated *before* the counter is incremented and before anything is changed;
the logging state found on entry is remembered; a call that finishes *inside* another decorated
call (counter still positive) puts back exactly what it found (and follows the global level if
the wrapped call itself changed it); the outermost call (counter back to zero) does what 1.11.2.0
does — including the lift of the deactivation for `verbose=0`, which `test_decorators.py` pins. -/
def decoMid : Deco where
  enter v s :=
    match v.resolve with
    | .error e => (.error e, s)
    | .ok lv =>
      let s0 := { s with calls := s.calls + 1 }
      match lv with
      | none => (.ok (frameOf none s0), s0)
      | some l =>
        let s1 := resetEmergence l s0
        -- if log_level() == "DISABLE" and verbose not in (0, None): _disable_logging("NOTSET")
        let s2 := if s1.level = .DISABLE ∧ l ≠ .DISABLE then { s1 with disable := 0 } else s1
        (.ok (frameOf (some l) s0), s2)
  exit fr s :=
    let s0 := { s with calls := s.calls - 1 }
    if s0.calls = 0 then
      let s1 :=
        match fr.verbose with
        | some .DISABLE => { s0 with disable := 0 }            -- verbose == 0
        | some _ => resetEmergence s0.level s0                 -- valid, non-zero
        | none => s0
      if s1.level = .DISABLE ∧ fr.verbose ≠ some .DISABLE then { s1 with disable := critical } else s1
    else
      match fr.verbose with
      | none => s0
      | some _ =>
        let s1 := { s0 with root := fr.root, disable := fr.disable }
        if s0.level ≠ fr.level then resetEmergence s0.level s1 else s1

/-- Specification device: a decorator that only validates `verbose` and otherwise does nothing. -/
def decoIgnore : Deco where
  enter v s :=
    match v.resolve with
    | .error e => (.error e, s)
    | .ok l => (.ok (frameOf l s), s)
  exit _ s := s

/-! ### Tolerant equality -/

/-- Value of tolerance number `k` in units of 2^-60 (the harness uses the same table:
2^-52, 2^-40, 2^-30, 2^-20, 2^-12, 2^-8, 2^-4, 2^-1, and number 8 = exactly zero). -/
def tolUnits (k : Nat) : Nat :=
  [2 ^ 8, 2 ^ 20, 2 ^ 30, 2 ^ 40, 2 ^ 48, 2 ^ 52, 2 ^ 56, 2 ^ 59, 0].getD k 0

/-- `Container._equals` on `x = [2 + 7·2^-m]`, `y = [2]`: an argument that is not `None` is used
as given — whatever its value, zero included: the test is `is None`, not truthiness —
otherwise the global one is read; then `|x - y| <= atol + rtol*|y|`. -/
def eqResult (r a : Option Nat) (m : Nat) (s : State) : Bool :=
  let rt := match r with | some k => k | none => s.rtol
  let at_ := match a with | some k => k | none => s.atol
  decide (7 * 2 ^ (60 - m) ≤ tolUnits at_ + 2 * tolUnits rt)

/-! ### Programs -/

inductive Prog
  | skip
  | seq (p q : Prog)
  | set (op : SetOp)                        -- cfdm.atol(x) / rtol / log_level, result dropped
  | cfg (c : CfgArgs)                       -- cfdm.configuration(...)
  | withSet (op : SetOp) (body : Prog)      -- with cfdm.atol(x): body
  | withCfg (c : CfgArgs) (body : Prog)     -- with cfdm.configuration(...): body
  | call (v : Verbose) (body : Prog)        -- decorated(verbose=v) whose body runs `body`
  | real (v : Verbose) (raises : Bool) (inner : Verbose)
      -- a decorated cfdm function: body opaque, may raise, and may itself make a decorated call
      -- with a hard-coded verbosity `inner` (e.g. Constructs.equals compares candidate pairs
      -- with verbose=0)
  | try_ (body : Prog)                      -- try: body  except Exception: pass
  | raise (e : Exc)
  | eq (r a : Option Nat) (m : Nat)         -- Data.equals(other, rtol=r, atol=a)
  | verdict (r a : Option Nat) (m : Nat)
      -- the truth value an equality test with these tolerance arguments returns; the call that
      -- produced it (a decorated cfdm `equals` with its own nested calls) is the `real` that follows
  deriving Repr

/-- One decorated call around an arbitrary computation. -/
def decorated (d : Deco) (v : Verbose) (body : State → State × Outcome) (s : State) : State × Outcome :=
  match d.enter v s with
  | (.error e, s') => (s', .raised e)
  | (.ok fr, s1) =>
    let r := body s1
    (d.exit fr r.1, r.2)

/-- Big-step semantics. -/
def runWith (d : Deco) : Prog → State → State × Outcome
  | .skip, s => (s, .ok)
  | .seq p q, s =>
    let r := runWith d p s
    match r.2 with
    | .ok => runWith d q r.1
    | .raised e => (r.1, .raised e)
  | .set op, s =>
    match access op s with
    | .error e => (s, .raised e)
    | .ok (_, s') => (s', .ok)
  | .cfg c, s =>
    match cfgCall c s with
    | (none, _, s') => (s', .ok)
    | (some e, _, s') => (s', .raised e)
  | .withSet op body, s =>
    match access op s with
    | .error e => (s, .raised e)
    | .ok (old, s1) =>
      let r := runWith d body s1
      (exitConst op.key old r.1, r.2)
  | .withCfg c body, s =>
    match cfgCall c s with
    | (some e, _, s') => (s', .raised e)
    | (none, old, s1) =>
      let r := runWith d body s1
      (exitCfg old r.1, r.2)
  | .call v body, s => decorated d v (runWith d body) s
  | .real v raises inner, s =>
    decorated d v (fun s1 =>
      ((decorated d inner (fun s2 => (s2, .ok)) s1).1, if raises then .raised .TypeError else .ok)) s
  | .try_ body, s => ((runWith d body s).1, .ok)
  | .raise e, s => (s, .raised e)
  | .eq _ _ _, s => decorated d .none (fun s1 => (s1, .ok)) s      -- Data.equals is itself decorated
  | .verdict _ _ _, s => (s, .ok)

def run := runWith decoNew
def runOld := runWith decoOld
def runMid := runWith decoMid

/-! ### Observation -/

/-- The three settings. -/
def settings (s : State) : Nat × Nat × Level := (s.atol, s.rtol, s.level)

/-- What filters messages: the global level, the disable level, and the root logger's level
while it has any effect (with `logging.disable(CRITICAL)` in force no cfdm message passes
whatever the root level is, and every cfdm path that re-enables logging sets the root level). -/
def obsLog (s : State) : Level × Nat × Option Nat :=
  (s.level, s.disable, if s.disable = 0 then some s.root else none)

/-- Raw logging state (for statements that hold exactly). -/
def logState (s : State) : Level × Nat × Nat := (s.level, s.root, s.disable)

/-- The state that `log_level(l)` establishes. -/
def Consistent (s : State) : Prop :=
  (s.level = .DISABLE → s.disable = critical) ∧ (s.level ≠ .DISABLE → s.disable = 0 ∧ s.root = s.level.no)

instance (s : State) : Decidable (Consistent s) := by unfold Consistent; infer_instance

def Exc.show : Exc → String
  | .ValueError => "ValueError" | .TypeError => "TypeError" | .KeyError => "KeyError"
  | .AttributeError => "AttributeError"

def Outcome.show : Outcome → String
  | .ok => "ok" | .raised e => "raised:" ++ e.show

def Val.show : Val → String
  | .tol i => toString i | .lvl l => l.name

def showObs (s : State) : String :=
  s!"a={s.atol},r={s.rtol},l={s.level.name},root={match (obsLog s).2.2 with | some n => toString n | none => "-"},dis={s.disable}"

def ev (tag : String) (s : State) : String := tag ++ "|" ++ showObs s

/-- What an observer placed after every step sees (the harness's synthetic bodies observe at
the same points).  Opaque cfdm functions (`real`) are observed only after they return. -/
def traceWith (d : Deco) : Prog → State → List String
  | .skip, _ => []
  | .seq p q, s =>
    let r := runWith d p s
    traceWith d p s ++ (match r.2 with | .ok => traceWith d q r.1 | .raised _ => [])
  | .set op, s =>
    match access op s with
    | .error e => [ev ("set!" ++ e.show) s]
    | .ok (old, s') => [ev ("set=" ++ old.show) s']
  | .cfg c, s =>
    match cfgCall c s with
    | (none, old, s') => [ev s!"cfg={old.atol}/{old.rtol}/{old.level.name}" s']
    | (some e, _, s') => [ev ("cfg!" ++ e.show) s']
  | .withSet op body, s =>
    match access op s with
    | .error e => [ev ("with!" ++ e.show) s]
    | .ok (old, s1) =>
      let r := runWith d body s1
      [ev ("enter=" ++ old.show) s1] ++ traceWith d body s1 ++ [ev ("exit=" ++ r.2.show) (exitConst op.key old r.1)]
  | .withCfg c body, s =>
    match cfgCall c s with
    | (some e, _, s') => [ev ("with!" ++ e.show) s']
    | (none, old, s1) =>
      let r := runWith d body s1
      [ev s!"enter={old.atol}/{old.rtol}/{old.level.name}" s1] ++ traceWith d body s1
        ++ [ev ("exit=" ++ r.2.show) (exitCfg old r.1)]
  | .call v body, s =>
    match d.enter v s with
    | (.error e, s') => [ev ("call!" ++ e.show) s']
    | (.ok fr, s1) =>
      let r := runWith d body s1
      [ev "in" s1] ++ traceWith d body s1 ++ [ev ("ret=" ++ r.2.show) (d.exit fr r.1)]
  | .real v raises inner, s =>
    let r := runWith d (.real v raises inner) s
    [ev ("real=" ++ r.2.show) r.1]
  | .try_ body, s =>
    let r := runWith d body s
    traceWith d body s ++ [ev ("try=" ++ r.2.show) r.1]
  | .raise _, _ => []
  | .eq r a m, s =>
    let res := runWith d (.eq r a m) s
    [ev ("eq=" ++ (if eqResult r a m s then "T" else "F")) res.1]
  | .verdict r a m, s => [ev ("eq=" ++ (if eqResult r a m s then "T" else "F")) s]

/-- Whole program, with the final observation. -/
def fullTrace (d : Deco) (p : Prog) (s : State) : List String :=
  let r := runWith d p s
  traceWith d p s ++ [ev ("end=" ++ r.2.show) r.1]

end Cfdm.Settings
