import Cfdm.Model.Heap
import Cfdm.Generated.HeapSites
/-
C04 — in-place mutation sites *as the code has them* (core Lean only).

`Cfdm/Generated/HeapSites.lean` is re-emitted from the sources of cfdm on every run
(harness/heapsites_C04.py): one entry per statement that mutates, in place, a container fetched
from the storage of `self`, attributed to the class families whose operations reach it.  Here the
entries become typed write paths of the heap model (`Site.path`), together with a decidable
check `Site.ok` — "the path is live under cfdm's copy table" — that does not depend on the
instantiation of the dynamic keys nor on what `copy(data=False)` leaves out.  `Site.ok_sound`
(Lemmas/HeapSites.lean) lifts the check to `AllLive`; Props/C04.lean runs it over the generated
table, so the discipline of the method table is re-proved against what the code says now.
-/
namespace Cfdm.Heap

inductive SiteRoot
  | obj                          -- the instance itself: `self.a = v`, `del self.a`
  | comps                        -- the `_components` dict: `_set_component`, `_del_component`
  | comp (c : Option String)     -- the value stored under component `c` (none: not a literal)
  | attr (a : String)            -- the value of the private instance attribute `a`
  deriving DecidableEq, Repr

structure Site where
  fam : Fam
  root : SiteRoot
  keys : List (Option String)    -- keys below the root down to the mutated container (none: not a literal)
  removes : Bool                 -- pop / del / clear / remove rather than store
  key : Option String            -- the entry written, when it is a literal
  deriving DecidableEq, Repr

def famOfName : String → Option Fam
  | "container" => some .container | "nparray" => some .nparray | "constructs" => some .constructs
  | "filearray" => some .filearray | "subarray" => some .subarray | _ => none

def optKey (s : String) : Option String := if s == "*" then none else some s

def Site.ofRaw : String × String × String × List String × Bool × String → Option Site
  | (f, root, name, keys, rem, key) =>
    match famOfName f with
    | none => none
    | some fam =>
      let r : Option SiteRoot :=
        if root == "obj" then some .obj
        else if root == "comps" then some .comps
        else if root == "comp" then some (.comp (optKey name))
        else if root == "attr" then some (.attr name)
        else none          -- e.g. "source:…": a constructor writing into the object it copies — never disciplined
      r.map (fun r => ⟨fam, r, keys.map optKey, rem, optKey key⟩)

/-- the sites of the code, typed; an entry that cannot be typed is kept as `none` (and fails the check) -/
def codeSites : List (Option Site) := Cfdm.Generated.HeapSites.rawSites.map Site.ofRaw

def instKey (ρ : Nat → String) (i : Nat) : Option String → String
  | some k => k
  | none => ρ i

def itemSteps (ρ : Nat → String) : Nat → List (Option String) → List Step
  | _, [] => []
  | i, k :: r => .item (instKey ρ i k) :: itemSteps ρ (i + 1) r

/-- the write path of a site from the receiver, the dynamic keys instantiated by `ρ` -/
def Site.path (s : Site) (ρ : Nat → String) : List Step :=
  match s.root with
  | .obj => []
  | .comps => [.fattr s.fam]
  | .comp c => .fattr s.fam :: .fcomp s.fam (instKey ρ 0 c) :: itemSteps ρ 1 s.keys
  | .attr a => .oattr s.fam a :: itemSteps ρ 1 s.keys

/-! ### the decidable check (against the table with nothing left out; `Site.ok_sound` covers the rest) -/
def objMode (f : Fam) (key : String) : Mode := cfdmMode [] (.obj f "") key
def compMode (f : Fam) (key : String) : Mode := cfdmMode [] (.comps f) key

/-- is the component entry re-created by a copy, whatever its (dynamic) name? -/
def compLiveB (f : Fam) : Option String → Bool
  | some c => (compMode f c).live
  | none => false
/-- is the component entry at least not handed over as it is? -/
def compTopB (f : Fam) : Option String → Bool
  | some c => compMode f c != .share
  | none => f == .container

def Site.ok (s : Site) : Bool :=
  match s.root with
  | .obj => true
  | .comps => objMode s.fam "_components" != .share
  | .comp c =>
    (objMode s.fam "_components").live &&
    (if s.keys.isEmpty then compTopB s.fam c else compLiveB s.fam c)
  | .attr a =>
    if s.keys.isEmpty then objMode s.fam a != .share else (objMode s.fam a).live

def siteOk : Option Site → Bool
  | some s => s.ok
  | none => false

/-! ### nesting: the path from an object to a cfdm object stored inside it -/
/-- a step all of whose resolutions are re-created by a copy (checked against the table with nothing left out) -/
def Step.liveB : Step → Bool
  | .fattr f => (objMode f "_components").live
  | .fcomp f c => (compMode f c).live
  | .oattr f a => (objMode f a).live
  | .item _ => true
  | _ => false

end Cfdm.Heap
